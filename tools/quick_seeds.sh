#!/bin/bash
# quick tier of every claimed property under several VERIF_SEEDs (false-alarm hunt): vp run -- tools/quick_seeds.sh 4 5 6
cd "$(dirname "$0")/.."
for s in "$@"; do
for p in C08 C19 C01 C03 C07 C02 C04 C05 C12; do
  echo "=== $p seed=$s $(date +%T)"
  ./check $p --tier quick --seed $s --no-evidence 2>&1 | grep -E "^C[0-9]+:|HARNESS|VIOLATION|violation|KNOWN|fresh|exit" | cut -c1-400
  echo "rc=${PIPESTATUS[0]}"
done; done
