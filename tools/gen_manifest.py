#!/venv/bin/python
"""Writes MANIFEST.json from the table below (single source of truth, validated against the schema when jsonschema is available)."""
import json, os, sys
VERIF = os.path.dirname(os.path.dirname(os.path.abspath(__file__)))

CLAIMED = {
 "C08": dict(cat="exploration", ref="DESIGN.md 3.7",
   text="Seeded search over interleavings of the loader thread, worker processes (incl. retirement/restart), completion callbacks, queue feeders and the consumer, with injected filter failures and consumer abandonment; the real Multiprocessor/CobaMultiprocessor code runs on simulated multiprocessing primitives. Sampling, not proof; right level because the property quantifies over OS schedules that no unit test controls.",
   note="Trusted base: sim/prims.py model of multiprocessing.Queue/Process/Pipe/Event (read off CPython 3.12; tools/stub_fidelity.py applies the same oracle to real spawned processes); parent-side threads are pre-empted at primitive operations and, through sys.monitoring, at planned bytecodes of the functions that share memory between them (legitimate for the declared requires-python >= 3.8); outputs picklable and never None.",
   tech="deterministic simulation: seeded scheduler over baton-passed threads incl. bytecode-level pre-emption + fault injection (filter raising twelve kinds of exception incl. unpicklable / unloadable / huge / falsy ones, consumer abandon, feeder delay, join(timeout) expiring in virtual time and terminate(), bounded pipe), multiset/termination oracle"),
}
CLAIMED["C19"] = dict(cat="exploration", ref="DESIGN.md 3.9",
   text="Seeded search over interleavings of 2-5 callers (threads sharing one ConcurrentCacher or processes with one each) at the granularity of lock operations, every shared-array element access, inner-cache operations, getter lines and disk writes, under virtual time, with injected getter/body failures, gzip write errors and torn files followed by a restart phase; invariants (exclusion, single flight, completeness, release) are monitored inside an instrumented inner cache and over the recorded history.",
   note="Trusted base: SimLock/SimArray/virtual clock stand in for multiprocessing.Lock/RawArray/time.sleep; callers always enter the with-block; nested keys are taken in increasing lock-index order; a crash leaves a byte-prefix of the gzip file.",
   tech="deterministic simulation: seeded scheduler + virtual clock + per-process hash salt + fault injection (getter/body raise, disk write error, torn/empty file + restart), invariant monitor and history oracle")
CLAIMED["C01"] = dict(cat="exploration", ref="DESIGN.md 3.1",
   text="Differential check: each generated experiment is executed in-process, on the simulated multiprocessing layer under a sampled (processes, maxchunksperchild, maxtasksperchunk) and one seeded schedule of workers/threads/queues, and in-process again; all four tables and .experiment must agree. Sampling over experiments, configurations and schedules.",
   note="Trusted base: simulated multiprocessing primitives (sim/prims.py); per-pid virtualisation of CobaContext / coba.random / UniqueKey (a worker starts from pristine globals, as a spawned interpreter does); components deterministic as the property requires; optional packages absent.",
   tech="deterministic simulation: real Experiment.run on simulated worker processes under a seeded scheduler, differential oracle against the in-process run")
CLAIMED["C03"] = dict(cat="exploration", ref="DESIGN.md 3.3",
   text="For each generated experiment (sampled sharing pattern of learner/environment/evaluator objects, shared chunk()/cache() prefixes) with component failures injected at sampled positions, the together-run under a sampled configuration and seeded schedule is compared triple by triple with the alone-run of that triple on pristine objects; additionally a triple during whose evaluation a failure fired must have no rows, the failure must be in the log, and shared learner objects must be unchanged after run().",
   note="Trusted base: as C01; injected failures are functions of the component's own local history; the alone-run uses the same coba code (the independent checks 'failing triple has no rows' and 'exception logged' do not).",
   tech="deterministic simulation: real Experiment.run on simulated workers under a seeded scheduler + component-failure injection, differential (alone vs together) and history oracles")
CLAIMED["C07"] = dict(cat="exploration", ref="DESIGN.md 3.6",
   text="Conservation oracle over the recorded history: recording evaluators yield generated rows (ragged/homogeneous keys, nested values, NaN/inf, unicode, newlines, non-string keys) and components carry generated params; the experiment runs without a file on simulated workers under a seeded schedule, with a plain file (in-process or written by simulated workers in schedule-dependent record order), with a .gz file, and interrupted at a record boundary then resumed; interaction rows, indices 1..N and parameter tables must equal what the components produced up to the documented normalisation, and all Results / Result.from_file must agree.",
   note="Trusted base: as C01; the oracle's normalisation is deliberately lenient (1e-5 float tolerance, nested list==tuple, int==float, absent==None, keys as str) but a top-level sequence must be read back as a tuple (the rewards column aside), as the property states; row values JSON-representable, nested dict keys strings, reserved column names unused; one known finding (all rows of a triple empty) is listed in known_findings.json.",
   tech="deterministic simulation: seeded scheduler over simulated workers + crash at record boundary and restart, conservation oracle against recording components")
CLAIMED["C02"] = dict(cat="fault_enumeration", ref="DESIGN.md 3.2",
   text="Crash-point enumeration: for each sampled (experiment, configuration, schedule) the finished transaction log (plain or .gz, written by simulated workers so the record order is schedule dependent) is cut at crash offsets and resumed by a freshly built identical experiment with recording evaluators; quick tier: every record boundary, +-1/+-2 bytes, byte before each newline, three interior offsets per record, n in {0,1}; thorough tier additionally enumerates every byte offset 0..len(F) for a quarter of the logs; second-generation crashes and resumes on simulated workers are sampled. Oracle: resumed run returns normally, Result equals the uninterrupted one, no restored triple is evaluated again, no record is written twice, the file is readable afterwards.",
   note="Trusted base: a crash leaves a byte-prefix of the flushed stream (durability below flush() is out of reach); a resume killed inside the repair of a torn log is produced by a real forked process that is os._exit()ed before a PRNG-chosen C call inside Experiment._restore (sampled, not enumerated), and additionally modelled as a byte-prefix of the '<file>.partial' rewrite; simulated multiprocessing as C01; experiments/schedules are sampled, only the crash offset dimension is enumerated (every offset for logs <= 8 KB in a quarter of the thorough runs); two known findings (zero-row triples are re-evaluated; the same Experiment object run again in the same process after Ctrl-C evaluates a partly trained learner) are listed in known_findings.json.",
   tech="deterministic simulation with crash-point enumeration: log written under a seeded schedule, every chosen byte-prefix restarted, history oracle over recording evaluators and the resulting file")
CLAIMED["C12"] = dict(cat="fault_enumeration", ref="DESIGN.md 3.8",
   text="Delivery and disk clauses only. A simulated HTTP transport replaces urlopen(); for every generated payload (adversarial texts with LF/CRLF/lone CR/other Unicode line boundaries and 2-4 byte characters; small tables in common-dialect CSV/ARFF/LibSVM/Manik) the real HttpSource->_byte_it_->DelimSource path is run for EVERY chunk_size 1..len+1 under identity, gzip and deflate content encodings (the whole delivery space of the public API) plus seeded short-read schedules; lines must equal text.splitlines(); tables are additionally parsed by the real readers after delivery. DiskSink->DiskSource round trips (plain/.gz, all batch settings, several writes) must be identical.",
   note="NOT decided: the format-grammar clause of C12 (alternative spellings: quote styles, escapes, comments, keyword case) is a statement about a pure parser and is outside this technique. Trusted base: the fake urlopen/response object; payloads are sampled, chunk sizes enumerated exhaustively per payload.",
   tech="transport simulator with exhaustive segmentation enumeration (chunk size x content encoding) per payload + seeded short reads, differential oracle against whole-text splitlines")
CLAIMED["C05"] = dict(cat="exploration", ref="DESIGN.md 3.5",
   text="Independence clause decided by simulation: 2-5 callers each own a CobaRandom(seed_i) and a script of calls; the seeded scheduler interleaves them call by call with an interference task (coba.random.seed and module-level draws, stdlib random, creation of other instances with equal/different seeds, pickling) and runs some callers inside simulated spawned processes with pristine module state; every caller's observed stream must equal the stream the same script produces solo. Contract clause: every value produced is checked against its documented contract, with seeds biased to the boundary states of the 30-bit LCG - input selection, reported as such.",
   note="The contract clause is NOT decided for all 2^30 states x all arguments: it is checked at the states these runs reach (listed in the evidence). One known finding (uniform == max for a 2^-20 wide range at offset 2^20) is listed in known_findings.json. PYTHONHASHSEED is fixed to 0, so a hash()-dependent seed derivation would not be noticed.",
   tech="deterministic simulation: seeded call-by-call interleaving of generator instances with interference steps and process-boundary virtualisation, differential oracle against the solo stream")
CLAIMED["C04"] = dict(cat="exploration", ref="DESIGN.md 3.4",
   text="Read-history simulation on one environment object built through the public constructors (synthetic, lambda, class-based, supervised from sequences / CSV / LibSVM lines, result-based) and 0-5 built-in filters: seeded histories of full reads, partial reads whose close() is delivered immediately, by dropping the reference, after j later operations or never (the simulator owns the moment a suspended generator chain is cancelled), params look-ups, pickle round trips, materialize(), cache(), chunk(), save()/from_save() on a real zip file and forced gc; every read is compared with the first full read of a freshly built twin, params with the twin's, and a deep snapshot of the caller's inputs is compared before/after every operation.",
   note="Trusted base: CPython reference counting for 'drop'; reward/feedback callables compared by their values on the interaction's actions; specs whose pristine first read raises are discarded (about a fifth); pickling that is refused (local functions without cloudpickle, a cache holding a live iterator) is counted, not flagged. Single-threaded engine: the injected fault is cancellation/abandonment and process-boundary transfer, not thread interleaving.",
   tech="seeded operation-and-cancellation histories (abandoned readers with immediate/delayed/never-delivered close, pickle boundary), differential oracle against a pristine twin")
PENDING = {k: "claimed in DESIGN.md; check under construction in this round (deterministic-simulation engine exists, driver not yet committed)" for k in ()}
NA = {
 "C06": "SequentialCB is a single-threaded loop whose outputs are a pure function of (environment, learner, mode); no schedule, clock, fault or crash point occurs in the property.",
 "C09": "Ordering/selection filters are pure functions of (input sequence, parameters, seed); nothing for a simulator to schedule or fault.",
 "C10": "Representation filters vs. rewards is a relation between two outputs of pure functions of the interaction.",
 "C11": "Scale/Impute are pure functions of (sequence, parameters); their only clock reads feed unused timing counters.",
 "C13": "Lazy row views are single-threaded value objects; access histories are sequences of pure reads with no cancellation, I/O or sharing to control.",
 "C14": "Supervised-to-bandit conversion is a pure function of the example set (file variants only add a pure parser).",
 "C15": "Prediction-format parsing is a pure function of (prediction, action set, seed).",
 "C16": "Learner validity over histories is a property of a sequential seeded state machine; no interleaving or fault exists to inject.",
 "C17": "Table.where/index vs. full scan is a pure function of (table contents, operation sequence) on one thread.",
 "C18": "where_fin/raw_learners/moving_average are pure functions of a Result.",
 "C20": "InteractionsEncoder.encode is a pure function of (terms, x, a).",
}

def main():
    base = json.load(open("/root/.vp/BASELINE.json"))
    checks = []
    for pid in sorted(CLAIMED):
        c = CLAIMED[pid]
        checks.append({
            "property_id": pid,
            "quick_cmd": f"./check {pid} --tier quick",
            "thorough_cmd": f"./check {pid} --tier thorough",
            "evidence_file": f"/verif/evidence/{pid}.json",
            "replay_cmd_template": f"./check {pid} --replay {{path}}",
            "engine": "sim",
            "level_claimed": {"category": c["cat"], "text": c["text"], "design_ref": c["ref"]},
            "level_note": c["note"],
            "technique": c["tech"],
        })
    na = [{"property_id": k, "reason": v} for k, v in sorted({**NA, **PENDING}.items())]
    man = {
        "version": 1,
        "setup_cmd": "/venv/bin/python -c \"import coba, hypothesis; print('ok')\"",
        "hooks": {"guard": "COBA_VERIF", "enable": "no source hook is needed: the checks substitute coba's module-level seams (spawn_context, mt, mp, time) from outside at run time; COBA_VERIF is reserved and unused",
                  "baseline_off_cmd": base["cmd"].replace("--junitxml=<file>", "").strip(), "source_commits": [], "add_only": True},
        "engines": [{"name": "sim", "path": "/verif/sim", "serves_properties": sorted(CLAIMED),
                     "kind_free_text": "deterministic simulator: baton-passing threads under one seeded scheduler, simulated multiprocessing/threading primitives, virtual time, per-pid virtualisation of coba's process globals, fault injection, replay + shrinking"}],
        "checks": checks,
        "not_applicable": na,
        "notes": "All checks run /venv/bin/python against the editable install of /repo (current working tree). Exit 0 held / 1 VIOLATION / 2 harness error. See DESIGN.md.",
    }
    json.dump(man, open(os.path.join(VERIF, "MANIFEST.json"), "w"), indent=1)
    print("claimed", sorted(CLAIMED), "na", len(na))

if __name__ == "__main__":
    main()
