#!/bin/bash
# thorough tier of the given properties with a shortened budget (validation after generator changes): vp run -- tools/thorough_short.sh 420 5 C02 C08
cd "$(dirname "$0")/.."
b=$1; j=$2; shift 2
for p in "$@"; do
  echo "=== $p $(date +%T)"
  ./check $p --tier thorough --budget-s $b --jobs $j --seed ${SOAK_SEED:-778} --no-evidence 2>&1 | grep -E "^C[0-9]+:|HARNESS|VIOLATION|violation|KNOWN|fresh" | cut -c1-500
  echo "rc=${PIPESTATUS[0]}"
done
