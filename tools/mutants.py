#!/venv/bin/python
"""Sensitivity self-test: apply each source mutation to a scratch copy of /repo/coba (outside
/repo and /verif, removed afterwards), point the check at it through COBA_VERIF_SRC and require
a VIOLATION (exit 1) within the quick budget.

usage: tools/mutants.py C08 [name-substring] [--tier quick] [--runs N]
"""
import json
import os
import shutil
import subprocess
import sys
import tempfile
import time

VERIF = os.path.dirname(os.path.dirname(os.path.abspath(__file__)))


def main():
    prop = sys.argv[1].upper()
    args = sys.argv[2:]
    only = None
    extra = []
    i = 0
    while i < len(args):
        if args[i].startswith("--"):
            extra += args[i:i + 2]; i += 2
        else:
            only = args[i]; i += 1
    muts = json.load(open(os.path.join(VERIF, "mutants", f"{prop}.json")))
    results = []
    for m in muts:
        if only and only not in m["name"]:
            continue
        scratch = tempfile.mkdtemp(prefix="coba_mut_")
        try:
            shutil.copytree("/repo/coba", os.path.join(scratch, "coba"), ignore=shutil.ignore_patterns("tests", "__pycache__"))
            for ed in m["edits"]:
                path = os.path.join(scratch, ed["file"])
                src = open(path).read()
                assert src.count(ed["old"]) == 1, f"{m['name']}: pattern occurs {src.count(ed['old'])}x in {ed['file']}"
                open(path, "w").write(src.replace(ed["old"], ed["new"]))
            env = dict(os.environ, COBA_VERIF_SRC=scratch, VERIF_REPLAY_DIR=os.path.join(scratch, "replays"))
            t0 = time.time()
            p = subprocess.run([os.path.join(VERIF, "check"), prop, "--tier", "quick", "--no-evidence"] + extra,
                               env=env, capture_output=True, text=True, timeout=1800)
            caught = p.returncode == 1 and "VIOLATION property=" in p.stdout
            line = next((l for l in p.stdout.splitlines() if l.startswith("violation class=")), "")
            results.append((m["name"], caught, p.returncode, round(time.time() - t0, 1), line[:160]))
            print(f"{'CAUGHT' if caught else 'MISSED'}  {m['name']:<45} rc={p.returncode} {time.time() - t0:5.1f}s  {line[:140]}", flush=True)
            if p.returncode not in (0, 1):
                print(p.stdout[-1500:], p.stderr[-1500:])
        finally:
            shutil.rmtree(scratch, ignore_errors=True)
    missed = [r for r in results if not r[1]]
    print(f"{prop}: {len(results) - len(missed)}/{len(results)} mutants caught")
    sys.exit(1 if missed else 0)


if __name__ == "__main__":
    main()
