#!/venv/bin/python
"""Runs the repository's pinned test suite (guard off - there is no guard) and checks that every test in
BASELINE.json's stable_pass still passes.  usage: tools/baseline_check.py [junit.xml]"""
import json, subprocess, sys, xml.etree.ElementTree as ET, os, tempfile
base = json.load(open("/root/.vp/BASELINE.json"))
junit = sys.argv[1] if len(sys.argv) > 1 else None
if junit is None:
    junit = os.path.join(tempfile.mkdtemp(prefix="coba_base_"), "junit.xml")
    cmd = base["cmd"].replace("<file>", junit)
    subprocess.run(cmd, shell=True, stdout=subprocess.DEVNULL, stderr=subprocess.DEVNULL)
passed = set()
for tc in ET.parse(junit).getroot().iter("testcase"):
    if not any(ch.tag in ("failure", "error", "skipped") for ch in tc):
        passed.add(f"{tc.get('classname')}::{tc.get('name')}")
missing = [t for t in base["stable_pass"] if t not in passed]
print(f"stable_pass={len(base['stable_pass'])} passing_now={len(passed)} missing={len(missing)}")
for t in missing[:20]:
    print("  NOT PASSING:", t)
sys.exit(1 if missing else 0)
