#!/venv/bin/python
"""Confirm a sub-agent's seeded change in its scratch worktree, then keep it under /verif/seeded/<id>/.
   usage: tools/confirm_seeded.py /tmp/wt_c03 C03-learning-info-not-cleared
   Confirms: patch applies to a clean checkout; demo exits non-zero with it and zero without it; the pinned suite's stable tests pass with it."""
import json, os, shutil, subprocess, sys, xml.etree.ElementTree as ET
wt, sid = sys.argv[1], sys.argv[2]
sub = sys.argv[3] if len(sys.argv) > 3 else ""          # optional sub-directory of seeded/ (agents that deliver several changes)
VERIF = os.path.dirname(os.path.dirname(os.path.abspath(__file__)))
env = dict(os.environ, PYTHONPATH=wt, PYTHONWARNINGS="ignore")
def sh(*a, **k): return subprocess.run(a, capture_output=True, text=True, **k)
patch = os.path.join(wt, "seeded", sub, "patch.diff")
demo = os.path.join(wt, "seeded", sub, "demo.py")
# clean tree, then apply the patch file itself (proves the file is what breaks things)
sh("git", "-C", wt, "checkout", "--", "coba")
r0 = sh("/venv/bin/python", demo, env=env, timeout=600)
ap = sh("git", "-C", wt, "apply", patch)
assert ap.returncode == 0, ap.stderr
r1 = sh("/venv/bin/python", demo, env=env, timeout=600)
junit = os.path.join(wt, "seeded", sub, "junit.xml")
t = sh("/venv/bin/python", "-m", "pytest", "-q", "-p", "no:cacheprovider", "--timeout=900", "--continue-on-collection-errors",
       f"--junitxml={junit}", "coba/tests", cwd=wt, env=env, timeout=1500)
base = json.load(open("/root/.vp/BASELINE.json"))
passed = set()
for tc in ET.parse(junit).getroot().iter("testcase"):
    if not any(ch.tag in ("failure", "error", "skipped") for ch in tc):
        passed.add(f"{tc.get('classname')}::{tc.get('name')}")
missing = [x for x in base["stable_pass"] if x not in passed]
os.remove(junit)
ok = r0.returncode == 0 and r1.returncode != 0 and not missing
print(f"{sid}: demo without patch rc={r0.returncode}, with patch rc={r1.returncode}, stable tests not passing with patch: {len(missing)} -> {'CONFIRMED' if ok else 'REJECTED'}")
if not ok:
    print(r0.stdout[-500:], r0.stderr[-500:], r1.stdout[-500:], missing[:5]); sys.exit(1)
dst = os.path.join(VERIF, "seeded", sid)
os.makedirs(dst, exist_ok=True)
shutil.copy(patch, dst); shutil.copy(demo, dst)
meta = json.load(open(os.path.join(wt, "seeded", sub, "meta.json")))
meta["confirmed_by_me"] = {"demo_without_patch_rc": r0.returncode, "demo_with_patch_rc": r1.returncode,
                           "demo_with_patch_output_tail": (r1.stdout + r1.stderr)[-600:],
                           "pinned_suite_with_patch": f"all {len(base['stable_pass'])} stable tests pass", "worktree": wt,
                           "how": "tools/confirm_seeded.py: clean checkout -> demo rc 0; git apply patch.diff -> demo rc != 0; pytest coba/tests with PYTHONPATH=worktree"}
json.dump(meta, open(os.path.join(dst, "meta.json"), "w"), indent=1)
