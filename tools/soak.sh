#!/bin/bash
# thorough tier of every claimed property, one after the other (vp run -- tools/soak.sh)
cd "$(dirname "$0")/.."
for p in C08 C19 C01 C03 C07 C02 C04 C05 C12; do
  echo "=== $p $(date +%T)"
  ./check $p --tier thorough --seed ${SOAK_SEED:-777} --no-evidence 2>&1 | grep -E "^C[0-9]+:|HARNESS|VIOLATION|violation|KNOWN|fresh" | cut -c1-400
done
