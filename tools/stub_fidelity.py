#!/venv/bin/python
"""Stub fidelity: run C08 workloads on REAL spawned processes (uncontrolled schedule - never a source of a
VIOLATION line) and apply the same oracle the simulator uses.  Shows whether the simulated primitives are
stronger than the real ones (an outcome the oracle rejects although real multiprocessing produced it).
usage: tools/stub_fidelity.py [n_runs]"""
import os, sys, time, random, threading, warnings
warnings.filterwarnings("ignore")
VERIF = os.path.dirname(os.path.dirname(os.path.abspath(__file__)))
sys.path.insert(0, VERIF)
os.environ["PYTHONPATH"] = VERIF + os.pathsep + os.environ.get("PYTHONPATH", "")

def main():
    from collections import Counter
    from coba.pipes.multiprocessing import Multiprocessor
    from checks.c08 import C08
    from checks.realfilter import RealFilter, RealBoom
    from checks.common import quiet_context
    from sim.sched import splitmix64
    quiet_context()
    n = int(sys.argv[1]) if len(sys.argv) > 1 else 24
    chk = C08()
    ok = bad = 0
    t0 = time.time()
    for i in range(n):
        rng = random.Random(splitmix64(424242, i))
        cfg = chk.gen(rng, "quick", i)
        cfg["coba_mp"] = False
        if cfg["consumer"]["mode"] != "all":
            cfg["consumer"] = {"mode": "all"}
        fa = {int(k): v for k, v in cfg["fail_after"].items()}
        f = RealFilter(cfg["outs"], cfg["plain"], cfg["fail"], fa)
        got, exc, done = [], [None], threading.Event()
        def run():
            try:
                for x in Multiprocessor(f, cfg["n_procs"], cfg["mtpc"], cfg["read_wait"]).filter(list(range(cfg["n_items"]))):
                    got.append(x)
            except Exception as e:
                exc[0] = e
            done.set()
        th = threading.Thread(target=run, daemon=True); th.start()
        if not done.wait(60):
            print(f"run {i}: REAL RUN HUNG (60 s) cfg={cfg}"); bad += 1; continue
        vals = Counter(x[:-1] for x in got)
        per_pid = Counter()
        for x in got:
            per_pid[(x[-1], x[1])] += 0
        items_per_pid = Counter(p for (p, it) in per_pid)
        exp = Counter()
        for it in range(cfg["n_items"]):
            if it in cfg["fail"]: continue
            if it in cfg["plain"]: exp[("P", it)] += 1
            else:
                for j in range(cfg["outs"][it]): exp[("O", it, j)] += 1
        problem = None
        if cfg["fail"]:
            if not isinstance(exc[0], RealBoom) or exc[0].tag not in cfg["fail"]: problem = f"expected RealBoom, got {exc[0]!r}"
            elif any(v > 1 for v in vals.values()): problem = "duplicates"
        else:
            if exc[0] is not None: problem = f"unexpected {exc[0]!r}"
            elif vals != exp: problem = f"multiset differs: missing {list((exp - vals).elements())[:4]} extra {list((vals - exp).elements())[:4]}"
            elif cfg["mtpc"] and not (cfg["n_procs"] == 1 and cfg["mtpc"] == 0) and any(c > cfg["mtpc"] for c in items_per_pid.values()): problem = f"pid handled more than {cfg['mtpc']} items (by items with outputs): {items_per_pid}"
        if problem:
            print(f"run {i}: ORACLE REJECTS A REAL EXECUTION: {problem} cfg={cfg}"); bad += 1
        else:
            ok += 1
    print(f"stub fidelity: {ok}/{n} real executions accepted by the C08 oracle, {bad} rejected, {time.time()-t0:.0f}s")
    return 1 if bad else 0

if __name__ == "__main__":
    sys.exit(main())
