#!/venv/bin/python
"""Run the checks against the kept seeded changes: apply /verif/seeded/<id>/patch.diff to a scratch copy of /repo/coba (outside
/repo and /verif, removed afterwards; the check is pointed at it through COBA_VERIF_SRC, exactly as tools/mutants.py does - so
a background soak that uses /repo is not disturbed), run the quick check of the property it breaks (no evidence).
usage: tools/seeded.py [id ...] [--all-props]      (--in-repo applies to /repo itself with git apply / git checkout instead)"""
import json, os, subprocess, sys, glob, time, shutil, tempfile
VERIF = os.path.dirname(os.path.dirname(os.path.abspath(__file__)))
ids = [a for a in sys.argv[1:] if not a.startswith("--")] or sorted(os.path.basename(p) for p in glob.glob(os.path.join(VERIF, "seeded", "*")) if os.path.isdir(p))
rc_all = 0
for sid in ids:
    d = os.path.join(VERIF, "seeded", sid)
    meta = json.load(open(os.path.join(d, "meta.json")))
    if meta.get("neutralised_by"):
        print(f"NEUTRALISED {sid:<28} (no longer breaks the property on the current tree: {meta['neutralised_by'][:90]}...)", flush=True)
        continue
    in_repo = "--in-repo" in sys.argv
    scratch = None
    if in_repo:
        st = subprocess.run(["git", "-C", "/repo", "status", "--porcelain", "--untracked-files=no"], capture_output=True, text=True).stdout.strip()
        assert not st, f"/repo is not clean: {st}"
        subprocess.run(["git", "-C", "/repo", "apply", os.path.join(d, "patch.diff")], check=True)
        extra_env = {}
    else:
        scratch = tempfile.mkdtemp(prefix="coba_seeded_")
        shutil.copytree("/repo/coba", os.path.join(scratch, "coba"), ignore=shutil.ignore_patterns("__pycache__"))
        subprocess.run(["patch", "-s", "-p1", "-d", scratch, "-i", os.path.join(d, "patch.diff")], check=True)
        extra_env = {"COBA_VERIF_SRC": scratch}
    try:
        props = meta.get("also_check", []) if "--all-props" in sys.argv else []
        for prop in [meta["property"]] + props:
            t0 = time.time()
            p = subprocess.run([os.path.join(VERIF, "check"), prop, "--tier", "quick", "--no-evidence"],
                               env=dict(os.environ, VERIF_REPLAY_DIR="/tmp/verif_seeded_replays", **extra_env), capture_output=True, text=True)
            caught = p.returncode == 1 and "VIOLATION property=" in p.stdout
            line = next((l for l in p.stdout.splitlines() if l.startswith("violation class=")), "")
            print(f"{'CAUGHT' if caught else 'MISSED'} {sid:<28} by {prop} rc={p.returncode} {time.time()-t0:5.1f}s {line[:150]}", flush=True)
            if not caught and prop == meta["property"]:
                rc_all = 1
            if p.returncode not in (0, 1):
                print(p.stdout[-800:], p.stderr[-800:])
    finally:
        if in_repo:
            subprocess.run(["git", "-C", "/repo", "checkout", "--", "."], check=True)
        else:
            shutil.rmtree(scratch, ignore_errors=True)
subprocess.run(["rm", "-rf", "/tmp/verif_seeded_replays"])
sys.exit(rc_all)
