#!/venv/bin/python
"""Run the checks against the kept seeded changes: apply /verif/seeded/<id>/patch.diff to /repo, run the quick check of the
property it breaks (no evidence), undo.  usage: tools/seeded.py [id ...] [--all-props]"""
import json, os, subprocess, sys, glob, time
VERIF = os.path.dirname(os.path.dirname(os.path.abspath(__file__)))
ids = [a for a in sys.argv[1:] if not a.startswith("--")] or sorted(os.path.basename(p) for p in glob.glob(os.path.join(VERIF, "seeded", "*")) if os.path.isdir(p))
rc_all = 0
for sid in ids:
    d = os.path.join(VERIF, "seeded", sid)
    meta = json.load(open(os.path.join(d, "meta.json")))
    st = subprocess.run(["git", "-C", "/repo", "status", "--porcelain", "--untracked-files=no"], capture_output=True, text=True).stdout.strip()
    assert not st, f"/repo is not clean: {st}"
    subprocess.run(["git", "-C", "/repo", "apply", os.path.join(d, "patch.diff")], check=True)
    try:
        props = meta.get("also_check", []) if "--all-props" in sys.argv else []
        for prop in [meta["property"]] + props:
            t0 = time.time()
            p = subprocess.run([os.path.join(VERIF, "check"), prop, "--tier", "quick", "--no-evidence"],
                               env=dict(os.environ, VERIF_REPLAY_DIR="/tmp/verif_seeded_replays"), capture_output=True, text=True)
            caught = p.returncode == 1 and "VIOLATION property=" in p.stdout
            line = next((l for l in p.stdout.splitlines() if l.startswith("violation class=")), "")
            print(f"{'CAUGHT' if caught else 'MISSED'} {sid:<28} by {prop} rc={p.returncode} {time.time()-t0:5.1f}s {line[:150]}", flush=True)
            if not caught and prop == meta["property"]:
                rc_all = 1
            if p.returncode not in (0, 1):
                print(p.stdout[-800:], p.stderr[-800:])
    finally:
        subprocess.run(["git", "-C", "/repo", "checkout", "--", "."], check=True)
subprocess.run(["rm", "-rf", "/tmp/verif_seeded_replays"])
sys.exit(rc_all)
