#!/venv/bin/python
"""Determinism self-test: every run index of a batch must give the same event-log digest
  * in two fresh interpreters,
  * under PYTHONHASHSEED=0 and under another hash seed,
  * with 1 worker process and with 16.
usage: tools/determinism.py [C08 C19 ...] [--runs N]"""
import os, subprocess, sys, tempfile, shutil
VERIF = os.path.dirname(os.path.dirname(os.path.abspath(__file__)))
props = [a for a in sys.argv[1:] if a.upper().startswith("C")] or ["C01", "C02", "C03", "C04", "C05", "C07", "C08", "C12", "C19"]
runs = int(sys.argv[sys.argv.index("--runs") + 1]) if "--runs" in sys.argv else None
DEFAULT = {"C01": 120, "C02": 16, "C03": 120, "C04": 1500, "C05": 1500, "C07": 120, "C08": 600, "C12": 1500, "C19": 600}
tmp = tempfile.mkdtemp(prefix="verif_det_")
bad = 0
try:
    for p in props:
        n = runs or DEFAULT[p]
        outs = []
        for label, env, jobs in (("hs0-j16", {"VERIF_HASHSEED": "0"}, 16), ("hs0-j1", {"VERIF_HASHSEED": "0"}, 1),
                                 ("hs777-j16", {"VERIF_HASHSEED": "777"}, 16), ("hs0-j5", {"VERIF_HASHSEED": "0"}, 5)):
            f = os.path.join(tmp, f"{p}-{label}.txt")
            e = dict(os.environ, **env)
            e.pop("PYTHONHASHSEED", None)
            r = subprocess.run([os.path.join(VERIF, "check"), p, "--tier", "quick", "--runs", str(n if jobs > 1 else max(8, n // 6)), "--jobs", str(jobs),
                                "--no-evidence", "--budget-s", "600", "--dump-digests", f], env=e, capture_output=True, text=True)
            if r.returncode not in (0, 1):
                print(p, label, "HARNESS rc", r.returncode, r.stdout[-400:], r.stderr[-400:]); bad += 1
            outs.append((label, dict(l.split() for l in open(f))))
        ref_label, ref = outs[0]
        for label, d in outs[1:]:
            common = set(ref) & set(d)
            diff = [i for i in common if ref[i] != d[i]]
            print(f"{p}: {ref_label} vs {label}: {len(common)} runs compared, {len(diff)} digests differ" + (f" e.g. run {diff[:5]}" if diff else ""))
            bad += len(diff)
finally:
    shutil.rmtree(tmp, ignore_errors=True)
print("DETERMINISM", "OK" if not bad else f"BROKEN ({bad})")
sys.exit(1 if bad else 0)
