#!/venv/bin/python
"""Re-create a kept seeded change on the current /repo tree after a later fix: commit touched the same lines.
usage (from Python): rebase(id, {file: [(old, new), ...]}).  Keeps the agent's original as patch.as-written-by-agent.diff."""
import os, shutil, subprocess, tempfile
VERIF = os.path.dirname(os.path.dirname(os.path.abspath(__file__)))


def rebase(sid, edits):
    d = os.path.join(VERIF, "seeded", sid)
    t = tempfile.mkdtemp(prefix="rb_")
    try:
        shutil.copytree("/repo/coba", t + "/a/coba", ignore=shutil.ignore_patterns("__pycache__", "tests"))
        shutil.copytree(t + "/a/coba", t + "/b/coba")
        out = ""
        for rel, reps in edits.items():
            p = os.path.join(t, "b", rel)
            s = open(p).read()
            for old, new in reps:
                assert s.count(old) == 1, (sid, rel, old)
                s = s.replace(old, new)
            open(p, "w").write(s)
            diff = subprocess.run(["diff", "-u", "a/" + rel, "b/" + rel], cwd=t, capture_output=True, text=True).stdout
            out += f"diff --git a/{rel} b/{rel}\n" + diff
        if not os.path.exists(d + "/patch.as-written-by-agent.diff"):
            shutil.copy(d + "/patch.diff", d + "/patch.as-written-by-agent.diff")
        open(d + "/patch.diff", "w").write(out)
        chk = tempfile.mkdtemp(prefix="rbc_")
        shutil.copytree("/repo/coba", chk + "/coba", ignore=shutil.ignore_patterns("__pycache__"))
        subprocess.run(["patch", "-s", "-p1", "-d", chk, "-i", d + "/patch.diff"], check=True)
        subprocess.run(["/venv/bin/python", "-c", "import coba"], cwd=chk, check=True, env=dict(os.environ, PYTHONPATH=chk, PYTHONWARNINGS="ignore"))
        shutil.rmtree(chk)
        print("rebased", sid)
    finally:
        shutil.rmtree(t)
