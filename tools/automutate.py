#!/venv/bin/python
"""Automatic sensitivity sweep: generate first-order mutants (comparison / boolean / constant / negated condition / deleted statement)
of the code a property rests on, keep those that still pass the repository's own tests for that code ("compile and pass the existing
tests"), and run the property's quick check against each survivor (scratch copy of coba/, outside /repo and /verif, removed afterwards).
What the check does not catch is printed as SURVIVED with the mutated source line - either an equivalent mutant (to be argued) or a gap.

usage: tools/automutate.py C19 [--budget-s 30] [--jobs 4] [--par 4] [--max N] [--only substring] [--out file.json]
"""
import ast, copy, json, os, shutil, subprocess, sys, tempfile, time, hashlib
from concurrent.futures import ThreadPoolExecutor

VERIF = os.path.dirname(os.path.dirname(os.path.abspath(__file__)))

# property -> [(file, [qualified scope prefixes or None for whole file])], tests
TARGETS = {
    "C19": ([("coba/context/cachers.py", ["ConcurrentCacher", "DiskCacher", "MemoryCacher"])],
            ["coba/tests/test_context_cachers.py"]),
    "C08": ([("coba/pipes/multiprocessing.py", None), ("coba/multiprocessing.py", None),
             ("coba/pipes/lines.py", ["ProcessLine", "ThreadLine", "SourceSink", "Stopper"]),
             ("coba/pipes/sources.py", ["QueueSource"]), ("coba/pipes/sinks.py", ["QueueSink"])],
            ["coba/tests/test_pipes_multiprocessing.py", "coba/tests/test_multiprocessing.py", "coba/tests/test_pipes_lines.py",
             "coba/tests/test_pipes_sources.py", "coba/tests/test_pipes_sinks.py"]),
    "C02": ([("coba/experiments/core.py", None), ("coba/experiments/process.py", ["MakeTasks"]),
             ("coba/results/core.py", ["TransactionEncode", "TransactionDecode", "TransactionResult"]),
             ("coba/pipes/sinks.py", ["DiskSink"]), ("coba/pipes/sources.py", ["DiskSource"])],
            ["coba/tests/test_experiments_process.py", "coba/tests/test_results_core.py", "coba/tests/test_pipes_sinks.py",
             "coba/tests/test_pipes_sources.py"]),
    "C01": ([("coba/experiments/process.py", None), ("coba/multiprocessing.py", None)],
            ["coba/tests/test_experiments_process.py", "coba/tests/test_multiprocessing.py"]),
    "C03": ([("coba/experiments/process.py", ["ProcessTasks", "MakeTasks", "ChunkTasks"])],
            ["coba/tests/test_experiments_process.py"]),
    "C07": ([("coba/results/core.py", ["TransactionEncode", "TransactionDecode", "TransactionResult"]),
             ("coba/utilities.py", ["minimize"])],
            ["coba/tests/test_results_core.py", "coba/tests/test_utilities.py"]),
    "C05": ([("coba/random.py", ["CobaRandom"])], ["coba/tests/test_random.py"]),
    "C12": ([("coba/pipes/sources.py", ["HttpSource", "DelimSource", "DiskSource"]), ("coba/pipes/sinks.py", ["DiskSink"])],
            ["coba/tests/test_pipes_sources.py", "coba/tests/test_pipes_sinks.py"]),
    "C04": ([("coba/pipes/filters.py", ["Cache"]), ("coba/environments/filters.py", ["Shuffle", "Cache", "Logged", "Finalize", "Materialize", "Chunk"]),
             ("coba/environments/supervised.py", ["SupervisedSimulation"])],
            ["coba/tests/test_pipes_filters.py", "coba/tests/test_environments_filters.py", "coba/tests/test_environments_supervised.py"]),
}

CMP = {ast.Eq: ast.NotEq, ast.NotEq: ast.Eq, ast.Lt: ast.LtE, ast.LtE: ast.Lt, ast.Gt: ast.GtE, ast.GtE: ast.Gt,
       ast.Is: ast.IsNot, ast.IsNot: ast.Is, ast.In: ast.NotIn, ast.NotIn: ast.In}


def scopes(tree, wanted):
    """yield (qualified name, node) for every function body inside the wanted top-level scopes"""
    for node in tree.body:
        if isinstance(node, (ast.ClassDef, ast.FunctionDef)):
            if wanted is None or node.name in wanted:
                yield node.name, node


def sites(scope):
    """enumerate mutation sites as (kind, path-of-child-indices) - recomputed on a deep copy by walking in the same order"""
    out = []
    for i, n in enumerate(ast.walk(scope)):
        if isinstance(n, ast.Compare):
            for j, op in enumerate(n.ops):
                if type(op) in CMP: out.append((i, "cmp", j))
        elif isinstance(n, ast.BoolOp):
            out.append((i, "bool", 0))
        elif isinstance(n, ast.Constant) and isinstance(n.value, bool):
            out.append((i, "flip", 0))
        elif isinstance(n, ast.Constant) and type(n.value) is int and -2 <= n.value <= 64:
            out.append((i, "inc", 0))
            if n.value > 0: out.append((i, "dec", 0))
        elif isinstance(n, ast.UnaryOp) and isinstance(n.op, ast.Not):
            out.append((i, "unnot", 0))
        elif isinstance(n, (ast.If, ast.While)) and not (isinstance(n.test, ast.Constant)):
            out.append((i, "negtest", 0))
        elif isinstance(n, ast.Expr) and isinstance(n.value, ast.Call):
            out.append((i, "delstmt", 0))
        elif isinstance(n, ast.AugAssign):
            out.append((i, "delstmt", 0))
        elif isinstance(n, (ast.Break, ast.Continue)):
            out.append((i, "delstmt", 0))
        elif isinstance(n, ast.Try) and n.finalbody:
            out.append((i, "delfinally", 0))
    return out


def apply(scope, site):
    i, kind, j = site
    nodes = list(ast.walk(scope))
    n = nodes[i]
    line = getattr(n, "lineno", 0)
    if kind == "cmp": n.ops[j] = CMP[type(n.ops[j])]()
    elif kind == "bool": n.op = ast.Or() if isinstance(n.op, ast.And) else ast.And()
    elif kind == "flip": n.value = not n.value
    elif kind == "inc": n.value = n.value + 1
    elif kind == "dec": n.value = n.value - 1
    elif kind == "unnot":
        # replace "not x" by "x": mutate in place into a no-op unary plus is wrong for non-numbers -> use bool(x)
        n.op = ast.Not(); n.operand = ast.UnaryOp(op=ast.Not(), operand=n.operand)
    elif kind == "negtest": n.test = ast.UnaryOp(op=ast.Not(), operand=n.test)
    elif kind == "delstmt":
        # turn the statement into "pass" in place
        n.__class__ = ast.Pass
        for f in list(n.__dict__):
            if f not in ("lineno", "col_offset", "end_lineno", "end_col_offset"): delattr(n, f)
    elif kind == "delfinally": n.finalbody = [ast.Pass()] if not (n.handlers) else []
    return line


def gen_mutants(prop):
    files, tests = TARGETS[prop]
    muts = []
    for rel, wanted in files:
        src = open(os.path.join("/repo", rel)).read()
        tree = ast.parse(src)
        src_lines = src.splitlines()
        for k, (name, _) in enumerate(scopes(tree, wanted)):
            scope0 = [s for _, s in scopes(tree, wanted)][k]
            for site in sites(scope0):
                t2 = copy.deepcopy(tree)
                scope = [s for _, s in scopes(t2, wanted)][k]
                line = apply(scope, site)
                try:
                    new_src = ast.unparse(ast.fix_missing_locations(t2))
                    compile(new_src, rel, "exec")
                except Exception:
                    continue
                muts.append({"file": rel, "scope": name, "kind": site[1], "line": line,
                             "src_line": src_lines[line - 1].strip() if 0 < line <= len(src_lines) else "", "new_src": new_src,
                             "id": f"{os.path.basename(rel)}:{line}:{site[1]}:{site[0]}"})
    return muts, tests


BASELINE_FAILS = set()


def failing_tests(root, tests, env):
    """ids of the tests that fail / error (some tests of the pinned suite fail on the unchanged tree, e.g. the three that need a network)"""
    t = subprocess.run(["/venv/bin/python", "-m", "pytest", "-q", "-rfE", "-p", "no:cacheprovider", "--timeout=60"] +
                       [x for x in tests if os.path.exists(os.path.join(root, x))],
                       cwd=root, env=env, capture_output=True, text=True, timeout=400)
    out = set()
    for l in t.stdout.splitlines():
        if l.startswith(("FAILED ", "ERROR ")):
            out.add(l.split()[1])
    if t.returncode not in (0, 1):
        out.add(f"pytest-rc-{t.returncode}")
    return out


def run_one(prop, m, tests, budget_s, jobs):
    scratch = tempfile.mkdtemp(prefix="coba_amut_")
    try:
        shutil.copytree("/repo/coba", os.path.join(scratch, "coba"), ignore=shutil.ignore_patterns("__pycache__"))
        open(os.path.join(scratch, m["file"]), "w").write(m["new_src"])
        env = dict(os.environ, PYTHONPATH=scratch, PYTHONWARNINGS="ignore", PYTHONDONTWRITEBYTECODE="1")
        try:
            tests_ok = failing_tests(scratch, tests, env) <= BASELINE_FAILS
        except subprocess.TimeoutExpired:
            tests_ok = False
        if not tests_ok:
            return "killed_by_tests", ""
        env = dict(os.environ, COBA_VERIF_SRC=scratch, VERIF_REPLAY_DIR=os.path.join(scratch, "replays"))
        try:
            p = subprocess.run([os.path.join(VERIF, "check"), prop, "--tier", "quick", "--no-evidence", "--budget-s", str(budget_s),
                                "--jobs", str(jobs)], env=env, capture_output=True, text=True, timeout=budget_s + 400)
        except subprocess.TimeoutExpired:
            return "check_timeout", ""
        line = next((l for l in p.stdout.splitlines() if l.startswith("violation class=")), "")
        if p.returncode == 1 and "VIOLATION property=" in p.stdout: return "caught", line[:140]
        if p.returncode == 0: return "SURVIVED", ""
        return f"harness_rc{p.returncode}", (p.stdout[-300:] + p.stderr[-300:]).replace("\n", " | ")
    finally:
        shutil.rmtree(scratch, ignore_errors=True)


def main():
    prop = sys.argv[1].upper()
    opt = {"--budget-s": "30", "--jobs": "4", "--par": "4", "--max": "0", "--only": "", "--out": ""}
    a = sys.argv[2:]
    for i in range(0, len(a), 2): opt[a[i]] = a[i + 1]
    muts, tests = gen_mutants(prop)
    if opt["--only"]: muts = [m for m in muts if opt["--only"] in m["id"] or opt["--only"] in m["scope"]]
    if int(opt["--max"]):
        # a deterministic spread over the list
        muts.sort(key=lambda m: hashlib.sha1(m["id"].encode()).hexdigest())
        muts = muts[:int(opt["--max"])]
    base = tempfile.mkdtemp(prefix="coba_amut_base_")
    try:
        shutil.copytree("/repo/coba", os.path.join(base, "coba"), ignore=shutil.ignore_patterns("__pycache__"))
        BASELINE_FAILS.update(failing_tests(base, tests, dict(os.environ, PYTHONPATH=base, PYTHONWARNINGS="ignore", PYTHONDONTWRITEBYTECODE="1")))
    finally:
        shutil.rmtree(base, ignore_errors=True)
    print(f"{prop}: {len(muts)} mutants; tests failing on the unchanged tree: {sorted(BASELINE_FAILS)}", flush=True)
    res = []
    t0 = time.time()
    def job(m):
        st, info = run_one(prop, m, tests, int(opt["--budget-s"]), int(opt["--jobs"]))
        print(f"{st:<16} {m['id']:<40} {m['scope']:<18} {m['src_line'][:90]}   {info}", flush=True)
        return dict({k: v for k, v in m.items() if k != "new_src"}, status=st, info=info)
    with ThreadPoolExecutor(int(opt["--par"])) as ex:
        res = list(ex.map(job, muts))
    cnt = {}
    for r in res: cnt[r["status"]] = cnt.get(r["status"], 0) + 1
    print(f"{prop}: {cnt} in {time.time() - t0:.0f}s", flush=True)
    if opt["--out"]:
        json.dump({"property": prop, "counts": cnt, "mutants": res}, open(opt["--out"], "w"), indent=1)


if __name__ == "__main__":
    main()
