"""Shared driver: seeded batches on a fork pool, known-finding triage, minimisation, replay
files, determinism self-test and the evidence writer.

A property check supplies a ``Check`` object:

    prop, level, rule, assumptions, real_components, stub_components, design_ref
    gen(rng, tier, index) -> cfg        JSON-serialisable description of one simulated run
    run(cfg, seed, choices=None) -> dict  keys: violation (None | {cls,msg,key}), digest, trace,
                                          nontrivial, counters, decisions, switches, sim_s,
                                          states (list of hashable sigs, optional), sample
    shrink(cfg) -> iterable of simpler cfgs

``seed`` decides everything: run i of a batch uses splitmix64(VERIF_SEED, i) both for ``gen``
and for the scheduler PRNG.
"""
import argparse
import faulthandler
import hashlib
import json
import os
import random
import sys
import time
import traceback
from concurrent.futures import ProcessPoolExecutor, as_completed
import multiprocessing

from .sched import splitmix64, HarnessError

VERIF = os.path.dirname(os.path.dirname(os.path.abspath(__file__)))
KNOWN_PATH = os.path.join(VERIF, "known_findings.json")
DEFAULT_SEED = 20260928


def load_known(prop):
    try:
        with open(KNOWN_PATH) as f:
            data = json.load(f)
    except FileNotFoundError:
        return {}
    return {e["key"]: e for e in data.get("open", []) if e["property"] == prop}


def jdump(obj):
    return json.dumps(obj, sort_keys=True, default=repr)


def _cfg_rng(seed):
    return random.Random(splitmix64(seed, 0xC0F16))


_CHECK = None
_KNOWN_KEYS = set()


_RUNS_SINCE_COLLECT = 0
_LAST_COLLECT = 0.0


def _fresh():
    """Every run starts from the process-global state of a fresh interpreter (see sim.world) - and without garbage of earlier runs:
    an abandoned generator of instrumented code that sits in a reference cycle is finalised whenever the cyclic collector happens to
    run, and the bytecodes of its finally-block would be counted into the CURRENT run's pre-emption plan.  So the cyclic
    collector is off while a run executes and only runs between runs (runs are short; reference counting still frees everything that is not in a cycle)."""
    import gc
    from .world import install, reset_coba_globals
    install()
    reset_coba_globals()
    global _RUNS_SINCE_COLLECT, _LAST_COLLECT
    gc.disable()
    _RUNS_SINCE_COLLECT += 1
    # between runs, now and then: bounds memory; never while a run executes.  Every 64 runs for the checks whose runs take milliseconds, and
    # at least every 10 s of work for those whose runs take seconds to minutes (C02: a worker left ~270 MB of cyclic garbage per minute)
    if _RUNS_SINCE_COLLECT >= 64 or time.monotonic() - _LAST_COLLECT > 10:
        _RUNS_SINCE_COLLECT = 0
        gc.collect()
        _LAST_COLLECT = time.monotonic()


def _worker_init(factory_mod, factory_name):
    global _CHECK, _KNOWN_KEYS
    faulthandler.enable()
    import signal
    faulthandler.register(signal.SIGUSR1, all_threads=True)      # kill -USR1 <worker pid> dumps every thread's stack
    mod = __import__(factory_mod, fromlist=[factory_name])
    _CHECK = getattr(mod, factory_name)()
    _KNOWN_KEYS = set(load_known(_CHECK.prop))


def _run_chunk(args):
    base_seed, start, count, tier, want_twice = args[:5]
    dump_all = len(args) > 5 and args[5]
    chk = _CHECK
    out = {"n": 0, "violations": [], "digests": [], "nontrivial": 0, "counters": {}, "decisions": 0,
           "switches": 0, "sim_s": 0.0, "states": [], "samples": [], "errors": [], "twice_ok": 0,
           "twice_bad": [], "extra": {}}
    for i in range(start, start + count):
        seed = splitmix64(base_seed, i)
        try:
            cfg = chk.gen(_cfg_rng(seed), tier, i)
            _fresh()
            r = chk.run(cfg, seed)
            if want_twice and (i % want_twice == 0):
                _fresh()
                r2 = chk.run(cfg, seed)
                if r2["digest"] == r["digest"]:
                    out["twice_ok"] += 1
                else:
                    out["twice_bad"].append((i, seed, r["digest"], r2["digest"]))
        except HarnessError as e:
            out["errors"].append((i, seed, "HarnessError: " + str(e)))
            continue
        except BaseException as e:
            out["errors"].append((i, seed, traceback.format_exc()))
            continue
        out["n"] += 1
        if dump_all:
            out.setdefault("all_digests", []).append((i, r["digest"]))
        out["decisions"] += r.get("decisions", 0)
        out["switches"] += r.get("switches", 0)
        out["sim_s"] += r.get("sim_s", 0.0)
        for k, v in r.get("counters", {}).items():
            out["counters"][k] = out["counters"].get(k, 0) + v
        for k, v in r.get("extra", {}).items():
            out["extra"][k] = out["extra"].get(k, 0) + v
        if r.get("nontrivial"):
            out["nontrivial"] += 1
            out["digests"].append(r["digest"])
        out["states"].extend(r.get("states", ()))
        if len(out["samples"]) < 2 and r.get("sample") is not None:
            out["samples"].append(r["sample"])
        fresh_here = False
        for v in r.get("violations") or ([r["violation"]] if r.get("violation") else []):
            out["violations"].append({"index": i, "seed": seed, "cfg": cfg, "violation": v,
                                      "trace": r.get("trace"), "digest": r["digest"]})
            fresh_here |= v.get("key") not in _KNOWN_KEYS
        if fresh_here:
            out["stopped_early"] = True      # an unlisted violation decides the batch: no need to finish the chunk
            break
    out["states"] = list(set(out["states"]))
    return out


class Budget:
    def __init__(self, seconds):
        self.t0 = time.time()
        self.seconds = seconds

    def left(self):
        return self.seconds - (time.time() - self.t0)


def shrink_failure(chk, cfg, seed, vio, budget_s=60.0, fresh_seeds=3):
    """Minimise (cfg, schedule) while the same violation class persists."""
    t_end = time.time() + budget_s
    cls = vio["cls"]
    tries = 0

    def same(r):
        vs = r.get("violations") or ([r["violation"]] if r.get("violation") else [])
        return next((v for v in vs if v["cls"] == cls), None)

    _fresh()
    best = chk.run(cfg, seed)
    bv = same(best)
    if bv is None:
        return cfg, seed, None, best, vio, {"shrink_tries": 0, "note": "not reproducible on re-run"}
    progress = True
    while progress and time.time() < t_end:
        progress = False
        for cand in chk.shrink(cfg):
            if time.time() >= t_end:
                break
            seeds = [seed] + [splitmix64(seed, 77, k) for k in range(fresh_seeds)]
            for s in seeds:
                tries += 1
                try:
                    _fresh()
                    r = chk.run(cand, s)
                except Exception:
                    continue
                v = same(r)
                if v is not None:
                    cfg, seed, best, bv = cand, s, r, v
                    progress = True
                    break
            if progress:
                break
    # schedule shrinking: replace recorded choices by the default policy (-1)
    choices = list(best.get("trace") or [])
    if choices:
        def attempt(ch):
            nonlocal tries
            tries += 1
            try:
                _fresh()
                r = chk.run(cfg, seed, choices=ch)
            except Exception:
                return None
            return r if same(r) is not None else None
        r = attempt([-1] * len(choices))
        if r is not None:
            choices, best = [], r
            r2 = attempt([])
            if r2 is not None:
                best = r2
        else:
            n = 2
            cur = choices
            while len([c for c in cur if c >= 0]) > 0 and time.time() < t_end:
                idxs = [i for i, c in enumerate(cur) if c >= 0]
                if n > len(idxs):
                    break
                size = max(1, len(idxs) // n)
                reduced = False
                for k in range(0, len(idxs), size):
                    cand = list(cur)
                    for i in idxs[k:k + size]:
                        cand[i] = -1
                    r = attempt(cand)
                    if r is not None:
                        cur, best, reduced = cand, r, True
                        break
                    if time.time() >= t_end:
                        break
                if reduced:
                    n = max(2, n - 1)
                else:
                    if size == 1:
                        break
                    n = min(len(idxs), n * 2)
            while cur and cur[-1] == -1:
                cur.pop()
            choices = cur
        _fresh()
        final = chk.run(cfg, seed, choices=choices)
        fv = same(final)
        if fv is not None:
            best, bv = final, fv
        else:       # should not happen; fall back to the unshrunk schedule
            choices = list(best.get("trace") or [])
            _fresh()
            best = chk.run(cfg, seed, choices=choices)
            bv = same(best) or bv
    else:
        choices = None
    return cfg, seed, choices, best, bv, {"shrink_tries": tries}


def write_replay(chk, cfg, seed, choices, res, vio, info):
    rdir = os.environ.get("VERIF_REPLAY_DIR") or os.path.join(VERIF, "replays")
    os.makedirs(rdir, exist_ok=True)
    path = os.path.join(rdir, f"{chk.prop}-{seed}.json")
    with open(path, "w") as f:
        json.dump({"property": chk.prop, "engine": type(chk).__name__, "seed": seed, "cfg": cfg,
                   "choices": choices, "violation": vio, "digest": res["digest"], "shrink": info},
                  f, indent=1, sort_keys=True, default=repr)
    return path


def do_replay(chk, path):
    with open(path) as f:
        rp = json.load(f)
    _fresh()
    r = chk.run(rp["cfg"], rp["seed"], choices=rp.get("choices"))
    vs = r.get("violations") or ([r["violation"]] if r.get("violation") else [])
    want = rp["violation"]["cls"]
    hit = next((v for v in vs if v["cls"] == want), None)
    print(f"replay property={chk.prop} seed={rp['seed']} digest_recorded={rp['digest']} digest_now={r['digest']} "
          f"digest_match={rp['digest'] == r['digest']}")
    if hit is not None:
        print(f"reproduced: {hit['cls']}: {hit['msg'][:400]}")
        known = load_known(chk.prop)
        if hit.get("key") in known:
            print(f"KNOWN-FINDING: property={chk.prop} {hit['key']} -- {known[hit['key']]['what']}")
            return 0
        print(f"VIOLATION property={chk.prop} replay={path}")
        return 1
    if vs:
        print("a different violation occurred:", vs[0]["cls"], vs[0]["msg"][:300])
        print(f"VIOLATION property={chk.prop} replay={path}")
        return 1
    print("no violation on this tree for the recorded run")
    return 0


def main(factory_mod, factory_name, argv=None):
    # hash randomisation off, fresh interpreter
    want_hs = os.environ.get("VERIF_HASHSEED", "0")
    if os.environ.get("PYTHONHASHSEED") != want_hs:
        env = dict(os.environ, PYTHONHASHSEED=want_hs)
        os.execve(sys.executable, [sys.executable] + sys.argv, env)
    ap = argparse.ArgumentParser()
    ap.add_argument("--tier", default=os.environ.get("VERIF_TIER", "quick"), choices=["quick", "thorough"])
    ap.add_argument("--seed", type=int, default=None)
    ap.add_argument("--runs", type=int, default=None)
    ap.add_argument("--jobs", type=int, default=int(os.environ.get("VERIF_JOBS", "0")) or min(16, os.cpu_count() or 1))
    ap.add_argument("--budget-s", type=float, default=None)
    ap.add_argument("--replay", default=None)
    ap.add_argument("--one", type=int, default=None, help="run a single run index in-process and print its result")
    ap.add_argument("--digests", action="store_true", help="print 'index digest' lines (determinism self-test)")
    ap.add_argument("--no-evidence", action="store_true")
    ap.add_argument("--dump-digests", default=None, help="write 'index digest' for every run of the batch to this file")
    a = ap.parse_args(argv)

    mod = __import__(factory_mod, fromlist=[factory_name])
    chk = getattr(mod, factory_name)()
    seed = a.seed if a.seed is not None else int(os.environ.get("VERIF_SEED", DEFAULT_SEED))
    print(f"VERIF_SEED={seed} property={chk.prop} tier={a.tier}")

    if a.replay:
        sys.exit(do_replay(chk, a.replay))

    if a.one is not None:
        s = splitmix64(seed, a.one)
        cfg = chk.gen(_cfg_rng(s), a.tier, a.one)
        _fresh()
        r = chk.run(cfg, s)
        print(jdump({"cfg": cfg, "result": {k: v for k, v in r.items() if k != "trace"}}))
        sys.exit(1 if (r.get("violation") or r.get("violations")) else 0)

    tier_cfg = chk.tiers[a.tier]
    n_runs = a.runs if a.runs is not None else tier_cfg["runs"]
    budget = Budget(a.budget_s if a.budget_s is not None else tier_cfg["budget_s"])
    chunk = tier_cfg.get("chunk", 20)
    twice = tier_cfg.get("twice_every", 10)
    t0 = time.time()

    if a.digests:
        for i in range(n_runs):
            s = splitmix64(seed, i)
            r = chk.run(chk.gen(_cfg_rng(s), a.tier, i), s)
            print(i, r["digest"])
        sys.exit(0)

    agg = {"n": 0, "violations": [], "digests": set(), "nontrivial": 0, "counters": {}, "decisions": 0,
           "switches": 0, "sim_s": 0.0, "states": set(), "samples": [], "errors": [], "twice_ok": 0,
           "twice_bad": [], "extra": {}}
    known_keys = set(load_known(chk.prop))
    ctx = multiprocessing.get_context("fork")
    jobs = max(1, a.jobs)
    submitted = 0
    timed_out = False
    with ProcessPoolExecutor(max_workers=jobs, mp_context=ctx, initializer=_worker_init,
                             initargs=(factory_mod, factory_name)) as ex:
        pending = set()
        fut_runs = {}
        nxt = 0

        def submit_more():
            nonlocal nxt, submitted
            while len(pending) < jobs * 2 and nxt < n_runs and budget.left() > 0:
                c = min(chunk, n_runs - nxt)
                fut = ex.submit(_run_chunk, (seed, nxt, c, a.tier, twice, bool(a.dump_digests)))
                fut_runs[fut] = (nxt, c)
                pending.add(fut)
                nxt += c
                submitted += c
        submit_more()
        hard_deadline = time.time() + budget.seconds + tier_cfg.get("grace_s", 120)
        while pending:
            done = []
            try:
                for fut in as_completed(list(pending), timeout=max(1.0, hard_deadline - time.time())):
                    done.append(fut)
                    break
            except Exception:
                timed_out = True
                break
            for fut in done:
                pending.discard(fut)
                if fut.cancelled():
                    continue
                try:
                    o = fut.result()
                except BaseException as e:
                    agg["errors"].append((-1, -1, "worker died: " + repr(e)))
                    continue
                agg["n"] += o["n"]
                agg.setdefault("all_digests", []).extend(o.get("all_digests", []))
                agg["violations"].extend(o["violations"])
                agg["digests"].update(o["digests"])
                agg["nontrivial"] += o["nontrivial"]
                agg["decisions"] += o["decisions"]
                agg["switches"] += o["switches"]
                agg["sim_s"] += o["sim_s"]
                agg["states"].update(map(tuple, o["states"]) if o["states"] and isinstance(o["states"][0], list) else o["states"])
                for k, v in o["counters"].items():
                    agg["counters"][k] = agg["counters"].get(k, 0) + v
                for k, v in o["extra"].items():
                    agg["extra"][k] = agg["extra"].get(k, 0) + v
                if len(agg["samples"]) < 3:
                    agg["samples"].extend(o["samples"][: 3 - len(agg["samples"])])
                agg["errors"].extend(o["errors"])
                agg["twice_ok"] += o["twice_ok"]
                agg["twice_bad"].extend(o["twice_bad"])
            if agg["errors"]:
                for f in pending:
                    f.cancel()
                break
            # (a run whose second execution gave another event log does not end the batch: under a changed tree the system itself may
            #  have become non-deterministic, and then the violations the batch goes on to find are what should be reported)
            if any(v["violation"].get("key") not in known_keys for v in agg["violations"]):
                # an unlisted violation decides the outcome; finish what is running, submit nothing new
                for f in list(pending):
                    if f.cancel():
                        pending.discard(f)
                nxt = n_runs
            submit_more()
            if budget.left() <= 0:
                # the budget is used up: what is still queued behind the running chunks is withdrawn (it would only start now), so that the
                # grace period has to cover the chunks that are actually running
                for f in list(pending):
                    if f.cancel():
                        pending.discard(f)
                        submitted -= fut_runs[f][1]
        if timed_out:
            print("HARNESS-ERROR detail: chunks still running (first run index, runs): "
                  f"{sorted(fut_runs[f] for f in pending if not f.done())[:40]}", flush=True)
            # leaving the with-block would wait for the stuck worker: report and leave right here (never exit 0)
            print(f"HARNESS-ERROR property={chk.prop}: worker pool did not finish within the hard deadline "
                  f"({budget.seconds}+{tier_cfg.get('grace_s', 120)} s); runs submitted {submitted}, finished {agg['n']}", flush=True)
            for proc in list(getattr(ex, "_processes", {}).values()):
                try:
                    proc.kill()
                except Exception:
                    pass
            os._exit(2)
    wall = time.time() - t0
    if agg["errors"]:
        i, s, msg = agg["errors"][0]
        print(f"HARNESS-ERROR property={chk.prop} run_index={i} seed={s}\n{msg}")
        sys.exit(2)
    if a.dump_digests:
        with open(a.dump_digests, "w") as f:
            for i, d in sorted(agg.get("all_digests", [])):
                f.write(f"{i} {d}\n")

    # ---- triage violations
    known = load_known(chk.prop)
    known_seen = {}
    fresh = []
    for v in agg["violations"]:
        key = v["violation"].get("key")
        if key in known:
            known_seen[key] = known_seen.get(key, 0) + 1
        else:
            fresh.append(v)
    for key, n in sorted(known_seen.items()):
        print(f"KNOWN-FINDING: property={chk.prop} {key} -- {known[key]['what']} (seen {n}x in this run)")

    rc = 0
    replay_paths = []
    if fresh:
        bykey = {}
        for v in fresh:
            bykey[v["violation"].get("key")] = bykey.get(v["violation"].get("key"), 0) + 1
        for k, n in sorted(bykey.items(), key=lambda kv: -kv[1])[:40]:
            print(f"fresh-violation-key {k!r}: {n}x")
        rc = 1
        seen_cls = set()
        for v in sorted(fresh, key=lambda v: v["index"]):
            cls = v["violation"]["cls"]
            if cls in seen_cls or len(seen_cls) >= 3:
                continue
            seen_cls.add(cls)
            cfg, s, choices, res, vio, info = shrink_failure(chk, v["cfg"], v["seed"], v["violation"],
                                                             budget_s=tier_cfg.get("shrink_s", 60))
            path = write_replay(chk, cfg, s, choices, res, vio, info)
            replay_paths.append(path)
            print(f"violation class={vio['cls']} key={vio.get('key')} run_index={v['index']} seed={s}: {vio['msg'][:600]}")
            print(f"VIOLATION property={chk.prop} replay={path}")

    if not a.no_evidence:
        runs_per_hour = agg["n"] / wall * 3600 if wall > 0 else 0
        cov = {
            "evaluations": agg["n"],
            "distinct_nontrivial": len(agg["digests"]),
            "rule": chk.rule,
            "samples": agg["samples"] or [{"note": "no sample captured"}],
            "runs_per_hour": round(runs_per_hour),
            "seeds": {"VERIF_SEED": seed, "run_seed": "splitmix64(VERIF_SEED, run_index)", "run_indices": [0, submitted]},
            "simulated_seconds": round(agg["sim_s"], 3),
            "scheduler_decisions": agg["decisions"],
            "context_switches": agg["switches"],
            "nontrivial_runs": agg["nontrivial"],
            "distinct_interleavings": len(agg["digests"]),
            "distinct_states": len(agg["states"]),
            "state_measure": getattr(chk, "state_measure", "not measured for this check (no state abstraction registered)"),
            "fault_counts_and_reach_probes": dict(sorted(agg["counters"].items())),
            "real_components": chk.real_components,
            "stub_components": chk.stub_components,
            "determinism_selftest": {"runs_executed_twice": agg["twice_ok"], "digest_mismatches": len(agg["twice_bad"])},
            "known_findings_seen": known_seen,
            "jobs": jobs,
        }
        cov.update({k: v for k, v in agg["extra"].items()})
        if hasattr(chk, "extra_coverage"):
            cov.update(chk.extra_coverage(a.tier, agg))
        ev = {"property_id": chk.prop, "tier": a.tier, "seed": seed, "level": chk.level, "coverage": cov,
              "assumptions": chk.assumptions, "wall_s": round(wall, 2), "violations": len(fresh)}
        os.makedirs(os.path.join(VERIF, "evidence"), exist_ok=True)
        with open(os.path.join(VERIF, "evidence", f"{chk.prop}.json"), "w") as f:
            json.dump(ev, f, indent=1, sort_keys=True, default=repr)
        if a.tier == "thorough":       # keep a copy: the quick run on every change rewrites evidence/<id>.json
            os.makedirs(os.path.join(VERIF, "evidence", "thorough"), exist_ok=True)
            with open(os.path.join(VERIF, "evidence", "thorough", f"{chk.prop}.json"), "w") as f:
                json.dump(ev, f, indent=1, sort_keys=True, default=repr)
    print(f"{chk.prop}: runs={agg['n']} nontrivial_distinct={len(agg['digests'])} decisions={agg['decisions']} "
          f"wall={wall:.1f}s known={sum(known_seen.values())} fresh_violations={len(fresh)}")
    if agg["twice_bad"] and rc == 0:
        # nothing else was found, yet executing one run twice gave two different event logs: never a pass
        print(f"HARNESS-ERROR property={chk.prop}: non-deterministic replay of runs {agg['twice_bad'][:3]}")
        sys.exit(2)
    sys.exit(rc)
