"""Simulated concurrency primitives (the stand-ins for multiprocessing / threading objects).

Semantics were read off CPython 3.12 ``multiprocessing/queues.py``, ``connection.py``,
``process.py`` and ``synchronize.py``:

* ``Queue.put`` appends to a per-process buffer that a feeder thread flushes into a pipe;
  per producer the order is FIFO, between producers it is arbitrary.  A process joins its
  feeder threads when it exits, so everything it put is in the pipe before its exit code
  becomes visible.
* ``Queue.get()`` holds the reader lock while it is blocked in ``recv``; ``get_nowait()``
  raises ``Empty`` when it cannot take that lock or when nothing is in the pipe.
* ``qsize()`` is ``maxsize - semaphore value``, i.e. it counts buffered items as well.
* synchronisation primitives and queues can only be pickled while a process is being
  spawned; a pickled handle refers to the same kernel object.
* everything that crosses a process boundary is pickled.
"""
import pickle
import queue as _queue
import threading
from collections import deque

from .sched import cur_sim, SimKill, HarnessError


def _sim():
    s = cur_sim()
    if s is None or s.closed:
        return None
    return s


# ----------------------------------------------------------------------------- pickling
def _rebuild(kind, oid):
    s = cur_sim()
    if s is None:
        raise HarnessError("unpickling a simulated primitive outside a simulation")
    core = s.registry[oid]
    return _KINDS[kind]._from_core(core)


class _Handle:
    """Base of every primitive: a per-process handle onto a shared core."""
    _kind = None

    def __reduce__(self):
        s = cur_sim()
        if s is None or not s.spawning:
            raise RuntimeError(f"{type(self).__name__} objects should only be shared between "
                               f"processes through inheritance")
        return (_rebuild, (self._kind, self._core.oid))

    @classmethod
    def _from_core(cls, core):
        h = cls.__new__(cls)
        h._core = core
        h._init_handle()
        return h

    def _init_handle(self):
        pass


class _Core:
    def __init__(self, sim, kind):
        self.kind = kind
        self.oid = sim.new_obj_id(self)
        self.name = f"{kind}{self.oid}"


# ----------------------------------------------------------------------------- Event
class SimEvent(_Handle):
    _kind = "event"

    def __init__(self, *a, **k):
        s = cur_sim()
        self._core = _Core(s, "event")
        self._core.flag = False

    def set(self):
        s = _sim()
        if s is None:
            self._core.flag = True
            return
        s.checkpoint()
        self._core.flag = True
        s.log("ev.set", self._core.name)
        s.yield_("event.set")

    def clear(self):
        self._core.flag = False

    def is_set(self):
        return self._core.flag

    def wait(self, timeout=None):
        s = _sim()
        if s is None:
            return self._core.flag
        c = self._core
        if timeout is not None:
            deadline = s.now + timeout
            me = s.me()
            me.wake_at = deadline
            try:
                s.block(lambda: c.flag or s.now >= deadline, f"wait {c.name} (timeout)")
            finally:
                me.wake_at = None
            return c.flag
        s.block(lambda: c.flag, f"wait {c.name}")
        s.log("ev.woke", c.name)
        return True


# ----------------------------------------------------------------------------- Lock / Semaphore
class SimLock(_Handle):
    _kind = "lock"

    def __init__(self, *a, **k):
        s = cur_sim()
        self._core = _Core(s, "lock")
        self._core.owner = None
        self._core.waits = 0

    def acquire(self, blocking=True, timeout=-1):
        s = _sim()
        c = self._core
        if s is None:
            c.owner = "dead"
            return True
        s.checkpoint()
        me = s.me()
        if not blocking:
            if c.owner is None:
                c.owner = me
                return True
            return False
        if c.owner is not None:
            c.waits += 1
            s.count("lock_contended")
        s.block(lambda: c.owner is None, f"acquire {c.name}")
        c.owner = me
        s.log("lk.acq", c.name)
        return True

    def release(self):
        s = _sim()
        c = self._core
        c.owner = None
        if s is None or s.killing:
            return
        s.log("lk.rel", c.name)
        s.yield_("lock.release")

    def locked(self):
        return self._core.owner is not None

    def __enter__(self):
        self.acquire()
        return self

    def __exit__(self, *exc):
        self.release()
        return False


class SimRLock(SimLock):
    """Re-entrant flavour: the owning task may take it again (a finaliser that the collector runs inside a critical section does)."""
    _kind = "rlock"

    def __init__(self, *a, **k):
        super().__init__()
        self._core.depth = 0

    def acquire(self, blocking=True, timeout=-1):
        s = _sim()
        c = self._core
        if s is not None and c.owner is not None and c.owner is s.me():
            c.depth += 1
            s.count("rlock_reentered")
            return True
        got = super().acquire(blocking, timeout)
        if got:
            c.depth = 1
        return got

    def release(self):
        c = self._core
        if c.depth > 1:
            c.depth -= 1
            return
        c.depth = 0
        super().release()


class SimSemaphore(_Handle):
    _kind = "sem"

    def __init__(self, value=1, *a, **k):
        s = cur_sim()
        self._core = _Core(s, "sem")
        self._core.value = value

    def acquire(self, block=True, timeout=None):
        s = _sim()
        c = self._core
        if s is None:
            return True
        s.checkpoint()
        if not block:
            if c.value > 0:
                c.value -= 1
                return True
            return False
        s.block(lambda: c.value > 0, f"acquire {c.name}")
        c.value -= 1
        s.log("sem.acq", c.name)
        return True

    def release(self):
        s = _sim()
        self._core.value += 1
        if s is None or s.killing:
            return
        s.log("sem.rel", self._core.name)
        s.yield_("sem.release")

    def __enter__(self):
        self.acquire()
        return self

    def __exit__(self, *exc):
        self.release()
        return False


# ----------------------------------------------------------------------------- shared array
class SimArray(_Handle):
    """Stand-in for RawArray / a shared list.  Each element access is a yield point when
    ``sim.user['array_yields']`` is set (C19), otherwise plain."""
    _kind = "array"

    def __init__(self, typecode_or_type=None, size_or_initializer=0, *a, **k):
        s = cur_sim()
        self._core = _Core(s, "array")
        if isinstance(size_or_initializer, int):
            self._core.data = [0] * size_or_initializer
        else:
            self._core.data = list(size_or_initializer)
        self._core.on_write = None

    def __len__(self):
        return len(self._core.data)

    def __getitem__(self, i):
        s = _sim()
        if s is not None and not s.killing and s.user.get("array_yields"):
            s.yield_("array.get")
        return self._core.data[i]

    def __setitem__(self, i, v):
        s = _sim()
        c = self._core
        if s is not None and not s.killing and s.user.get("array_yields"):
            s.yield_("array.set")
        c.data[i] = v
        if c.on_write is not None:
            c.on_write(i, v)

    def __iter__(self):
        return iter(self._core.data)


# ----------------------------------------------------------------------------- Queue
class SimQueue(_Handle):
    _kind = "queue"

    def __init__(self, maxsize=0, *a, **k):
        s = cur_sim()
        c = self._core = _Core(s, "queue")
        c.maxsize = maxsize
        c.pipe = deque()          # pickled items visible to getters
        c.bufs = {}               # pid -> deque of OBJECTS still in that process' feeder buffer: like CPython's feeder thread the
                                  # simulator pickles an item when it moves it to the pipe, not when put() is called - so a producer
                                  # that changes an object after having put it changes what arrives
        c.count = 0               # put minus got (what qsize() reports)
        c.rlock = None            # task holding the reader lock
        c.pipe_cap = s.user.get("pipe_cap")      # None = unbounded pipe
        c.n_put = 0
        c.n_got = 0
        self._init_handle()
        c.delayed = s.user.get("feeder_delay", False)

    def _init_handle(self):
        self._closed = False

    # -- feeder model: one virtual "flush" action per (queue, producer pid); which producer's
    #    feeder runs next is therefore an ordinary, recorded scheduler decision.
    @staticmethod
    def _pipe_room(c):
        return c.pipe_cap is None or len(c.pipe) < c.pipe_cap

    @staticmethod
    def _ensure_flusher(s, c, pid):
        key = ("flush", c.oid, pid)
        if key in s.vactions:
            return

        def enabled():
            return bool(c.bufs.get(pid)) and SimQueue._pipe_room(c)

        def fire():
            SimQueue._feed(s, c, c.bufs[pid].popleft())
            s.count("feeder_flush")

        s.add_vaction(key, enabled, fire)

    @staticmethod
    def _feed(s, c, obj):
        """What the feeder thread does with one buffered object: pickle it now and write it to the pipe.  An object that cannot be
        pickled is dropped (CPython prints the traceback from the feeder thread and goes on)."""
        try:
            c.pipe.append(pickle.dumps(obj))
        except Exception:
            c.count -= 1
            s.count("feeder_pickle_error_item_dropped")

    @staticmethod
    def flush_pid(s, pid):
        """A process exits: its feeder threads are joined, i.e. all it put reaches the pipe.
        With a bounded pipe this blocks the exiting process until there is room."""
        for core in list(s.registry.values()):
            if getattr(core, "kind", None) != "queue":
                continue
            buf = core.bufs.get(pid)
            while buf:
                if not SimQueue._pipe_room(core):
                    s.count("exit_blocked_on_full_pipe")
                    s.block(lambda core=core: SimQueue._pipe_room(core), f"exit flush {core.name}")
                    continue        # the feeder may have flushed meanwhile: re-check the buffer
                SimQueue._feed(s, core, buf.popleft())

    # -- API
    def put(self, obj, block=True, timeout=None):
        s = _sim()
        if s is None:
            return
        s.checkpoint()
        if self._closed:
            raise ValueError(f"Queue {self!r} is closed")
        c = self._core
        me = s.me()
        if c.maxsize > 0:
            if c.count >= c.maxsize:
                if not block:
                    raise _queue.Full()
                s.count("put_blocked_on_full_queue")
            s.block(lambda: c.count < c.maxsize, f"put {c.name} (full)")
        c.count += 1
        c.n_put += 1
        buf = c.bufs.get(me.pid)
        if c.delayed or buf or not self._pipe_room(c):
            if buf is None:
                buf = c.bufs[me.pid] = deque()
            buf.append(obj)                # per-producer FIFO; pickled by the feeder (see _feed)
            self._ensure_flusher(s, c, me.pid)
            s.count("put_buffered")
            s.log("q.put", c.name, "buffered")
        else:
            data = pickle.dumps(obj)       # (a feeder that runs at once; a put of something unpicklable raises here, in the producer)
            c.pipe.append(data)
            s.log("q.put", c.name, len(data))
        s.yield_("queue.put")

    def put_nowait(self, obj):
        return self.put(obj, False)

    def get(self, block=True, timeout=None):
        s = _sim()
        if s is None:
            raise _queue.Empty()
        s.checkpoint()
        if self._closed:
            raise ValueError(f"Queue {self!r} is closed")
        c = self._core
        me = s.me()
        if not block:
            if c.rlock is not None:
                s.count("get_nowait_rlock_busy")
                s.yield_("queue.get_nowait")
                raise _queue.Empty()
            if not c.pipe:
                s.yield_("queue.get_nowait")
                raise _queue.Empty()
            data = c.pipe.popleft()
        else:
            if timeout is not None:
                raise HarnessError("SimQueue.get(timeout=...) is not modelled")
            s.block(lambda: c.rlock is None, f"get {c.name} (rlock)")
            c.rlock = me
            try:
                if not c.pipe:
                    s.count("get_blocked_on_empty_queue")
                s.block(lambda: bool(c.pipe), f"get {c.name} (empty)")
                data = c.pipe.popleft()
            finally:
                c.rlock = None
        c.count -= 1
        c.n_got += 1
        s.log("q.get", c.name, len(data))
        obj = pickle.loads(data)
        s.yield_("queue.get")
        return obj

    def get_nowait(self):
        return self.get(False)

    def qsize(self):
        return self._core.count

    def empty(self):
        return not self._core.pipe

    def full(self):
        c = self._core
        return c.maxsize > 0 and c.count >= c.maxsize

    def close(self):
        self._closed = True

    def join_thread(self):
        pass

    def cancel_join_thread(self):
        pass


# ----------------------------------------------------------------------------- Pipe / Connection
PIPE_CAPACITY = 65536


class SimConnection(_Handle):
    _kind = "conn"

    def __init__(self, core, readable, writable):
        self._core = core
        self._readable = readable
        self._writable = writable
        self._closed = False

    def __reduce__(self):
        s = cur_sim()
        if s is None or not s.spawning:
            raise RuntimeError("Connection objects should only be shared between processes through inheritance")
        return (_rebuild_conn, (self._core.oid, self._readable, self._writable))

    @property
    def closed(self):
        return self._closed

    def _check(self):
        if self._closed:
            raise OSError("handle is closed")

    def send(self, obj):
        s = _sim()
        if s is None:
            return
        s.checkpoint()
        self._check()
        if not self._writable:
            raise OSError("connection is read-only")
        data = pickle.dumps(obj)           # (an object that cannot be pickled raises here, in the sender - as in CPython)
        c = self._core
        c.buf.append(data)
        s.log("conn.send", c.name, len(data))
        if len(data) > PIPE_CAPACITY:
            # an OS pipe holds 64 KiB: a larger message is written piece by piece while the other side reads, so send() only
            # returns once the receiver has taken the message (poll() already sees the first bytes)
            s.count("conn_send_blocked_on_full_pipe")
            s.block(lambda: all(d is not data for d in c.buf), f"send {c.name} (pipe full)")
        else:
            s.yield_("conn.send")

    def poll(self, timeout=0.0):
        s = _sim()
        if s is None:
            return False
        s.checkpoint()
        self._check()
        if not self._core.buf and timeout:
            s.sleep(timeout)
        return bool(self._core.buf)

    def recv(self):
        s = _sim()
        if s is None:
            raise EOFError()
        s.checkpoint()
        self._check()
        c = self._core
        s.block(lambda: bool(c.buf), f"recv {c.name}")
        data = c.buf.popleft()
        s.log("conn.recv", c.name, len(data))
        return pickle.loads(data)          # (an object that cannot be rebuilt raises here, in the receiver)

    def close(self):
        self._closed = True


def _rebuild_conn(oid, readable, writable):
    s = cur_sim()
    return SimConnection(s.registry[oid], readable, writable)


def SimPipe(duplex=True):
    s = cur_sim()
    core = _Core(s, "pipe")
    core.buf = deque()
    if duplex:
        raise HarnessError("duplex pipes are not modelled (coba never uses one)")
    return SimConnection(core, True, False), SimConnection(core, False, True)


# ----------------------------------------------------------------------------- threads
class SimThread:
    """Stand-in for threading.Thread (subclassable the same way)."""

    def __init__(self, group=None, target=None, name=None, args=(), kwargs=None, *, daemon=None):
        self._target = target
        self._args = args
        self._kwargs = kwargs or {}
        self._sim_task = None
        self.daemon = bool(daemon)
        self.name = name or "SimThread"

    def start(self):
        s = _sim()
        if s is None:
            return
        s.checkpoint()
        if self._sim_task is not None:
            raise RuntimeError("threads can only be started once")
        nm = f"thread:{type(self).__name__}"
        self._sim_task = s.spawn(self.run, nm)
        s.yield_("thread.start")

    def run(self):
        if self._target is not None:
            self._target(*self._args, **self._kwargs)

    def join(self, timeout=None):
        s = _sim()
        if s is None:
            return
        t = self._sim_task
        if t is None:
            raise RuntimeError("cannot join thread before it is started")
        s.block(lambda: t.done, f"join {t!r}")

    def is_alive(self):
        t = self._sim_task
        return t is not None and not t.done

    @property
    def ident(self):
        t = self._sim_task
        return None if t is None else t.id


class _CurProc:
    """What multiprocessing.current_process() returns inside the simulation."""

    def __init__(self, pid, name):
        self.pid = pid
        self.name = name
        self.daemon = pid != 1000
        self._identity = () if pid == 1000 else (pid,)
        self._config = {}
        self._inheriting = False
        self.authkey = b"sim"

    def is_alive(self):
        return True


class SimProcess:
    """Stand-in for spawn_context.Process.  ``start`` pickles the process object (exactly
    what the spawn start method does), and the unpickled copy's ``run`` is executed as a new
    task under a fresh simulated pid with pristine process-global state."""

    def __init__(self, group=None, target=None, name=None, args=(), kwargs=None, *, daemon=None):
        self._target = target
        self._args = tuple(args)
        self._kwargs = dict(kwargs or {})
        self.daemon = bool(daemon)
        self.name = name or "SimProcess"

    # only the user-visible state crosses the boundary
    def __getstate__(self):
        return {k: v for k, v in self.__dict__.items() if not k.startswith("_sim_")}

    def __setstate__(self, st):
        self.__dict__.update(st)

    def start(self):
        s = _sim()
        if s is None:
            return
        s.checkpoint()
        if getattr(self, "_sim_task", None) is not None:
            raise AssertionError("cannot start a process twice")
        s.spawning += 1
        try:
            data = pickle.dumps(self)
        finally:
            s.spawning -= 1
        pid = s.new_pid()
        self._sim_pid = pid
        self._sim_exitcode = None
        me = self

        def body():
            code = 0
            try:
                s.spawning += 1
                try:
                    child = pickle.loads(data)
                finally:
                    s.spawning -= 1
                child.run()
            except SimKill:
                raise
            except BaseException as e:         # what the bootstrap prints; exit code 1
                code = 1
                s.user.setdefault("child_tracebacks", []).append(repr(e))
            SimQueue.flush_pid(s, pid)
            me._sim_exitcode = code
            s.log("proc.exit", pid, code)

        s.count("process_started")
        self._sim_task = s.spawn(body, f"proc:{type(self).__name__}", pid=pid)
        s.yield_("process.start")

    def run(self):
        if self._target is not None:
            self._target(*self._args, **self._kwargs)

    def join(self, timeout=None):
        s = _sim()
        if s is None:
            return
        t = getattr(self, "_sim_task", None)
        assert t is not None, "can only join a started process"
        if timeout is None:
            s.block(lambda: t.done, f"join {t!r}")
            return
        # join with a timeout, in virtual time: the caller goes on when the process has exited or the time is up, whichever the schedule
        # brings first (a process kept from exiting - e.g. by an unread pipe - for longer than any timeout is a legal schedule)
        s.checkpoint()
        me = s.me()
        deadline = s.now + max(0.0, float(timeout))
        me.wake_at = deadline
        s.count("join_with_timeout")
        me.pred = lambda: t.done or s.now >= deadline
        me.why = f"join {t!r} until {deadline:.3f}"
        try:
            s._switch(me)
        finally:
            me.wake_at = None
        if not t.done:
            s.count("fault.join_timed_out_before_process_exit")

    def is_alive(self):
        t = getattr(self, "_sim_task", None)
        return t is not None and not t.done

    @property
    def exitcode(self):
        return getattr(self, "_sim_exitcode", None)

    @property
    def pid(self):
        return getattr(self, "_sim_pid", None)

    @property
    def ident(self):
        return self.pid

    def terminate(self):
        """SIGTERM: the process dies where it is.  What it had put on queues but its feeder threads had not yet written to the pipe is lost;
        locks it holds stay held.  (A message cut in the middle of a pipe write is not modelled.)"""
        s = _sim()
        if s is None:
            return
        t = getattr(self, "_sim_task", None)
        if t is None or t.done:
            return
        pid = self._sim_pid
        s.checkpoint()
        for core in list(s.registry.values()):
            if getattr(core, "kind", None) == "queue" and core.bufs.get(pid):
                s.count("fault.terminated_process_lost_buffered_puts", len(core.bufs[pid]))
                core.bufs[pid].clear()
        s.kill_pid(pid)
        self._sim_exitcode = -15
        s.count("fault.process_terminated")
        s.log("proc.terminate", pid)
        s.yield_("process.terminate")

    kill = terminate


_KINDS = {"event": SimEvent, "lock": SimLock, "rlock": SimRLock, "sem": SimSemaphore, "array": SimArray, "queue": SimQueue}


# ----------------------------------------------------------------------------- context objects
class SimContext:
    """What ``mp.get_context('spawn')`` returns inside the simulation."""
    Event = SimEvent
    Lock = SimLock
    RLock = SimRLock
    Semaphore = SimSemaphore
    BoundedSemaphore = SimSemaphore
    Queue = SimQueue
    Process = SimProcess
    RawArray = SimArray
    Array = SimArray

    @staticmethod
    def Pipe(duplex=True):
        return SimPipe(duplex)

    @staticmethod
    def current_process():
        import multiprocessing.process as mpp
        return mpp._current_process

    @staticmethod
    def get_context(method=None):
        return SimContext


class SimThreadingNS:
    """What ``coba.pipes.lines.mt`` is replaced by."""
    Thread = SimThread
    Lock = SimLock
    Event = SimEvent

    @staticmethod
    def current_thread():
        return threading.current_thread()
