"""Bytecode-level pre-emption points through sys.monitoring (Python >= 3.12).

The INSTRUCTION event is enabled once per interpreter, before any simulated run, for a fixed set of code objects
(the functions that share memory between the threads of one process).  Because the instrumentation never changes
afterwards every run sees exactly the same events, which sys.settrace + f_trace_opcodes does not guarantee (the
first activation of a code object is only partly instrumented).  The callback forwards to the running Sim, which
counts the events and yields at the planned counts."""
import sys
import types

from .sched import cur_sim

TOOL = 4
_done = set()


def _nested(code):
    yield code
    for c in code.co_consts:
        if isinstance(c, types.CodeType):
            yield from _nested(c)


def _on_instruction(code, offset):
    s = cur_sim()
    if s is not None:
        s.on_instruction(code, offset)


def instrument(functions):
    """functions: iterable of function objects; their code and all nested code objects become pre-emptible."""
    mon = getattr(sys, "monitoring", None)
    if mon is None:
        return False
    if not _done:
        mon.use_tool_id(TOOL, "coba-verif-sim")
        mon.register_callback(TOOL, mon.events.INSTRUCTION, _on_instruction)
    for f in functions:
        for co in _nested(f.__code__):
            if co not in _done:
                mon.set_local_events(TOOL, co, mon.events.INSTRUCTION)
                _done.add(co)
    return True
