"""Deterministic scheduler: baton-passing real threads, one PRNG, virtual time.

Exactly one simulated task runs at any moment.  Every other task is parked on its own
semaphore.  At a *yield point* (every operation of a substituted primitive, plus explicit
``yield_()`` calls in harness components) the running task asks the scheduler who runs next.
The answer comes from one ``random.Random`` seeded from the run seed, or from a recorded list
of choices when replaying.  Nothing here reads a real clock or any other source of
nondeterminism; the event log contains task ids from a per-run counter only.
"""
import hashlib
import random
import sys
import threading
import traceback

MASK64 = (1 << 64) - 1


def splitmix64(*xs):
    """Mix integers into one 64 bit value (used to derive per-run / per-purpose seeds)."""
    z = 0x9E3779B97F4A7C15
    for x in xs:
        z = (z + (int(x) & MASK64) + 0x9E3779B97F4A7C15) & MASK64
        z = ((z ^ (z >> 30)) * 0xBF58476D1CE4E5B9) & MASK64
        z = ((z ^ (z >> 27)) * 0x94D049BB133111EB) & MASK64
        z = z ^ (z >> 31)
    return z


_FIRST_OFFSET = {}


def _first_offset(code):
    """Offset of the first instruction after the function's RESUME (INSTRUCTION events are not reported for RESUME itself)."""
    import dis
    seen_resume = False
    for ins in dis.get_instructions(code):
        if seen_resume:
            return ins.offset
        if ins.opname == "RESUME":
            seen_resume = True
    return 0


class SimKill(BaseException):
    """Raised at a yield point of a parked task when the run is being torn down."""


class HarnessError(Exception):
    """Something went wrong in the simulator itself (never a property violation)."""


class Task:
    __slots__ = ("id", "name", "pid", "thread", "sem", "pred", "why", "wake_at", "done",
                 "exc", "started", "daemon", "fn", "steps", "slow", "killed")

    def __init__(self, tid, name, pid, fn, daemon):
        self.id = tid
        self.name = name
        self.pid = pid
        self.fn = fn
        self.sem = threading.Semaphore(0)
        self.pred = None          # callable -> bool : blocked until true
        self.why = None           # description of what it is blocked on
        self.wake_at = None       # virtual-time deadline of a sleeper
        self.done = False
        self.killed = False       # terminated from outside (SimProcess.terminate): dies at its next resumption
        self.exc = None
        self.started = False
        self.daemon = daemon
        self.thread = None
        self.steps = 0
        self.slow = False

    def __repr__(self):
        return f"<T{self.id} {self.name} pid={self.pid}>"


class VAction:
    """A virtual action: a state change the scheduler may pick instead of a task
    (queue feeder flush, clock advance).  Enabled while ``enabled()`` is true."""
    __slots__ = ("key", "enabled", "fire")

    def __init__(self, key, enabled, fire):
        self.key, self.enabled, self.fire = key, enabled, fire


_CURRENT = None     # the Sim that is running in this interpreter (at most one at a time)


def cur_sim():
    return _CURRENT


class Sim:
    """One simulated execution."""

    def __init__(self, seed, choices=None, max_steps=50_000, p_stay=0.0, p_clock=0.3,
                 on_pid_switch=None, kill_timeout=20.0, record_log=True):
        self.seed = seed
        self.rng = random.Random(splitmix64(seed, 0x5C4ED))
        self.replay = list(choices) if choices is not None else None
        self.max_steps = max_steps
        self.p_stay = p_stay
        self.p_clock = p_clock
        self.on_pid_switch = on_pid_switch
        self.kill_timeout = kill_timeout

        self.tasks = []
        self.vactions = {}            # key -> VAction (insertion ordered)
        self.current = None
        self.now = 0.0                # virtual seconds
        self.trace = []               # recorded choices (index into option list) when >1 option
        self.n_decisions = 0
        self.n_switches = 0           # decisions that moved the baton to another task
        self.steps = 0
        self.fair = False
        self._rr = 0
        self.killing = False
        self.closed = False
        self.outcome = None           # 'done' | 'deadlock' | 'livelock' | 'error'
        self.outcome_info = None
        self.main = None
        self._driver = threading.Semaphore(0)
        self._ack = threading.Semaphore(0)
        self.log_on = record_log
        self.events = []              # event log (deterministic content only)
        self._h = hashlib.blake2b(digest_size=16)
        self.counters = {}            # fault / reach counters
        self.next_pid = 1000
        self.registry = {}            # id -> primitive core (pickle by identity)
        self._next_obj = 0
        self.spawning = 0
        self.state_sigs = set()       # optional abstraction of states reached
        self.slow_bias = 0.0          # probability mass removed from 'slow' tasks
        self.user = {}                # scratch space for harnesses
        self.task_excs = []           # uncaught exceptions of simulated threads/processes
        # optional bytecode-level pre-emption of the threads of one simulated process (they share memory):
        # opcode events inside matching frames are counted; the task yields when the count hits a planned value
        self.opcode_plan = None       # sorted list of global opcode-event counts at which to pre-empt
        self.opcode_points = None     # set of (function name, n-th invocation, n-th bytecode of that invocation) at which to pre-empt
        self._op_calls = {}           # function name -> invocations so far
        self._op_inv = {}             # (task id, function name) -> [invocation number, bytecodes executed in it]
        self.opcode_pid = 1000
        self.opcode_count = 0
        self.sig_fn = None            # optional: () -> hashable abstraction of the system state

    # ------------------------------------------------------------------ bookkeeping
    def count(self, key, n=1):
        self.counters[key] = self.counters.get(key, 0) + n

    def log(self, *ev):
        if self.log_on:
            cur = self.current
            rec = (cur.id if cur is not None else -1,) + ev
            self._h.update(repr(rec).encode())
            if len(self.events) < 4000:
                self.events.append(rec)

    def digest(self):
        h = self._h.copy()
        h.update(repr(self.trace).encode())
        return h.hexdigest()

    def new_obj_id(self, core):
        self._next_obj += 1
        self.registry[self._next_obj] = core
        return self._next_obj

    def new_pid(self):
        self.next_pid += 1
        return self.next_pid

    def add_vaction(self, key, enabled, fire):
        self.vactions[key] = VAction(key, enabled, fire)

    # ------------------------------------------------------------------ task creation
    def spawn(self, fn, name, pid=None, daemon=True):
        if pid is None:
            pid = self.current.pid if self.current is not None else 1000
        t = Task(len(self.tasks), name, pid, fn, daemon)
        self.tasks.append(t)
        th = threading.Thread(target=self._body, args=(t,), name=f"sim-{t.id}", daemon=True)
        t.thread = th
        th.start()
        self.log("spawn", t.id, name, pid)
        return t

    def _body(self, t):
        t.sem.acquire()
        t.started = True
        if not self.killing and not getattr(t, "killed", False):
            try:
                t.fn()
            except SimKill:
                pass
            except BaseException as e:      # uncaught in a simulated thread/process
                t.exc = e
                if not self.killing:
                    self.log("task-exc", t.id, type(e).__name__)
                    tb = traceback.extract_tb(e.__traceback__)
                    where = tb[-1].filename if tb else "?"
                    self.task_excs.append((t.name, repr(e), where, "".join(traceback.format_exception(e))[-1500:]))
        t.done = True
        t.pred = None
        if self.killing:
            self._ack.release()
            return
        self.log("exit", t.id)
        if t is self.main:
            self._finish("done")
            return
        try:
            self._handoff(t)
        except SimKill:
            pass
        if self.killing and not t is self.main:
            # we were the one that detected a deadlock/livelock while exiting
            pass

    # ------------------------------------------------------------------ bytecode-level pre-emption
    def on_instruction(self, code, offset):
        """Called (through sys.monitoring, see sim/opcodes.py) for every bytecode of the instrumented functions."""
        if (self.opcode_plan is None and self.opcode_points is None) or self.killing or self.closed:
            return
        cur = self.current
        if cur is None or cur.pid != self.opcode_pid or cur.thread is not threading.current_thread():
            return
        self.opcode_count += 1
        if self.opcode_points is not None:
            name = code.co_name
            start = _FIRST_OFFSET.get(code)
            if start is None:
                start = _FIRST_OFFSET[code] = _first_offset(code)
            if offset == start:
                n = self._op_calls[name] = self._op_calls.get(name, 0) + 1
                inv = self._op_inv[(cur.id, name)] = [n, 0]
            else:
                inv = self._op_inv.get((cur.id, name))
                if inv is None:
                    inv = self._op_inv[(cur.id, name)] = [self._op_calls.get(name, 0), 0]
                inv[1] += 1
            if (name, inv[0], inv[1]) in self.opcode_points:
                self.count("fault.opcode_preemption_targeted")
                self.log("preempt@", name, inv[0], inv[1])
                self.yield_("opcode")
                return
        plan = self.opcode_plan
        if plan and plan[0] <= self.opcode_count:
            while plan and plan[0] <= self.opcode_count:
                plan.pop(0)
            self.count("fault.opcode_preemption")
            self.log("preempt", self.opcode_count, code.co_name, offset)
            self.yield_("opcode")

    # ------------------------------------------------------------------ scheduling core
    def _options(self):
        opts = []
        for t in self.tasks:
            if t.done:
                continue
            if t.pred is None or t.pred():
                opts.append(t)
        vopts = [v for v in self.vactions.values() if v.enabled()]
        return opts, vopts

    def _earliest_sleeper(self):
        best = None
        for t in self.tasks:
            if not t.done and t.wake_at is not None and t.wake_at > self.now:
                if best is None or t.wake_at < best:
                    best = t.wake_at
        return best

    def _choose(self, me):
        """Return the next Task to run (may be ``me``), or None on deadlock/livelock."""
        while True:
            self.steps += 1
            if self.steps > self.max_steps:
                if not self.fair:
                    self.fair = True
                    self.steps = 0
                    self.count("fair_mode_entered")
                else:
                    self._finish("livelock", self._blocked_table())
                    return None
            tasks, vacts = self._options()
            wake = self._earliest_sleeper()
            opts = list(tasks) + list(vacts)
            if wake is not None and (not opts or self.p_clock > 0):
                opts.append("clock")
            if not opts:
                self._finish("deadlock", self._blocked_table())
                return None
            if self.sig_fn is not None and len(self.state_sigs) < 20000:
                self.state_sigs.add(hash(self.sig_fn(self)))
            if len(opts) == 1:
                pick = opts[0]
            else:
                self.n_decisions += 1
                if self.replay is not None:
                    i = len(self.trace)
                    if i < len(self.replay) and self.replay[i] >= 0:
                        idx = self.replay[i] % len(opts)
                    else:
                        idx = opts.index(me) if (me in opts) else 0
                elif self.fair:
                    self._rr += 1
                    idx = self._rr % len(opts)
                else:
                    idx = self._draw(me, opts, tasks)
                self.trace.append(idx)
                pick = opts[idx]
            if pick == "clock":
                self.now = wake
                self.count("clock_jump")
                self.log("clock", round(wake, 6))
                continue
            if isinstance(pick, VAction):
                self.log("vact", pick.key)
                pick.fire()
                continue
            return pick

    def _draw(self, me, opts, tasks):
        r = self.rng
        if me is not None and me in tasks and self.p_stay > 0 and r.random() < self.p_stay:
            return opts.index(me)
        if "clock" in opts and len(opts) > 1:
            # the clock is not an equal competitor: it fires with probability p_clock
            if r.random() < self.p_clock:
                return len(opts) - 1
            n = len(opts) - 1
        else:
            n = len(opts)
        if self.slow_bias > 0:
            fast = [i for i in range(n) if not getattr(opts[i], "slow", False)]
            if fast and len(fast) < n and r.random() < self.slow_bias:
                return fast[r.randrange(len(fast))]
        return r.randrange(n)

    def _blocked_table(self):
        return [(t.id, t.name, t.pid, t.why) for t in self.tasks if not t.done]

    def _transfer(self, me, nxt):
        if me is not None and nxt is not me:
            self.n_switches += 1
        old = self.current
        self.current = nxt
        if self.on_pid_switch is not None and (old is None or old.pid != nxt.pid):
            self.on_pid_switch(old.pid if old is not None else None, nxt.pid)
        nxt.steps += 1

    def _handoff(self, me):
        """Called by an exiting task: pass the baton on without parking."""
        nxt = self._choose(None)
        if nxt is None:
            return
        self._transfer(me, nxt)
        nxt.sem.release()

    def _switch(self, me):
        nxt = self._choose(me)
        if nxt is None:
            # run is over (deadlock / livelock): park until killed
            me.sem.acquire()
            raise SimKill()
        if nxt is me:
            me.pred = None
            me.why = None
            me.steps += 1
            if getattr(me, "killed", False):
                raise SimKill()
            return
        self._transfer(me, nxt)
        nxt.sem.release()
        me.sem.acquire()
        if self.killing or getattr(me, "killed", False):
            raise SimKill()
        me.pred = None
        me.why = None

    # ------------------------------------------------------------------ API for primitives
    def me(self):
        cur = self.current
        if cur is None or cur.thread is not threading.current_thread():
            raise HarnessError(f"primitive used outside the simulation baton "
                               f"(thread {threading.current_thread().name}, current {cur})")
        return cur

    def alive(self):
        """False once the run has been closed (primitives then degrade to inert stubs)."""
        return not self.closed

    def checkpoint(self):
        if self.killing:
            raise SimKill()
        cur = self.current
        if cur is not None and getattr(cur, "killed", False) and cur.thread is threading.current_thread():
            raise SimKill()         # a terminated process runs no clean-up: every primitive its unwinding finally-blocks touch is inert

    def kill_pid(self, pid):
        """SIGTERM / SIGKILL for a simulated process: each of its tasks dies at the yield point where it is parked (no finally block gets to
        use a primitive, held locks stay held).  The tasks become runnable so that they unwind; callers wait for ``done`` as usual."""
        n = 0
        for t in self.tasks:
            if t.pid == pid and not t.done and not getattr(t, "killed", False):
                t.killed = True
                t.pred = None
                t.wake_at = None
                t.why = "killed"
                n += 1
        return n

    def yield_(self, why="yield"):
        self.checkpoint()
        me = self.me()
        me.pred = None
        me.why = why
        self._switch(me)

    def block(self, pred, why):
        """Park the current task until ``pred()`` is true.  The scheduler evaluates the
        predicate immediately before handing the baton back, and nothing runs in between,
        so the predicate still holds when this returns."""
        self.checkpoint()
        me = self.me()
        me.pred = pred
        me.why = why
        self._switch(me)

    def sleep(self, seconds):
        self.checkpoint()
        me = self.me()
        if seconds <= 0:
            return self.yield_("sleep0")
        deadline = self.now + seconds
        me.wake_at = deadline
        self.count("sleep")
        self.user["sim_seconds_slept"] = self.user.get("sim_seconds_slept", 0.0) + seconds
        me.pred = lambda: self.now >= deadline
        me.why = f"sleep until {deadline:.3f}"
        try:
            self._switch(me)
        finally:
            me.wake_at = None

    # ------------------------------------------------------------------ run / teardown
    def _finish(self, outcome, info=None):
        if self.outcome is None:
            self.outcome = outcome
            self.outcome_info = info
            self.log("finish", outcome)
            self._driver.release()

    def run(self, main_fn, wall_timeout=120.0):
        """Run ``main_fn`` as the main task (pid 1000).  Returns outcome string."""
        global _CURRENT
        if _CURRENT is not None:
            raise HarnessError("nested simulations are not supported")
        _CURRENT = self
        result = {}

        def main():
            try:
                result["value"] = main_fn()
            except SimKill:
                raise
            except BaseException as e:
                result["exc"] = e
                result["tb"] = traceback.format_exc()

        try:
            self.main = self.spawn(main, "main", pid=1000, daemon=False)
            self._transfer(None, self.main)
            self.main.sem.release()
            if not self._driver.acquire(timeout=wall_timeout):
                self.outcome = "wall_timeout"
                self.outcome_info = self._blocked_table()
                self._dump_stacks()
                raise HarnessError(f"wall timeout after {wall_timeout}s (code spun without a yield point?) "
                                   f"current={self.current} tasks={self.outcome_info}")
        finally:
            self._teardown()
            _CURRENT = None
        self.result = result
        return self.outcome

    def _dump_stacks(self):
        frames = sys._current_frames()
        for t in self.tasks:
            if t.done or t.thread is None:
                continue
            fr = frames.get(t.thread.ident)
            if fr is not None:
                sys.stderr.write(f"--- stack of {t!r}\n" + "".join(traceback.format_stack(fr)[-12:]))

    def _teardown(self):
        self.killing = True
        leaked = 0
        for t in self.tasks:
            if t.done:
                continue
            leaked += 1
            if self.on_pid_switch is not None and self.current is not None and self.current.pid != t.pid:
                try:
                    self.on_pid_switch(self.current.pid, t.pid)
                except Exception:
                    pass
            self.current = t
            t.sem.release()
            if not self._ack.acquire(timeout=self.kill_timeout):
                self.closed = True
                self._dump_stacks()
                raise HarnessError(f"task {t!r} did not unwind within {self.kill_timeout}s")
        for t in self.tasks:
            if t.thread is not None:
                t.thread.join(timeout=self.kill_timeout)
        self.leaked = leaked
        self.current = None
        self.closed = True
