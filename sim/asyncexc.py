"""Asynchronous exceptions at bytecode granularity (Python >= 3.12, sys.monitoring).

A Ctrl-C (or any other asynchronous exception) can arrive between any two bytecodes.  For a fixed set of code objects the
INSTRUCTION event is enabled once per interpreter; while an injection is ARMED the callback counts the instructions executed
inside those code objects and raises the planned exception at the k-th one - the exception propagates into the monitored
frame exactly as a KeyboardInterrupt delivered at that bytecode would.  Counting is a pure function of the executed code path,
so an injection point (k) is reproducible."""
import sys
import threading
import types

TOOL = 5
_done = set()
_state = {"armed": False, "k": 0, "n": 0, "exc": KeyboardInterrupt, "fired_in": None, "tid": None}


def _nested(code):
    yield code
    for c in code.co_consts:
        if isinstance(c, types.CodeType):
            yield from _nested(c)


def _on_instruction(code, offset):
    st = _state
    if not st["armed"] or st["tid"] != threading.get_ident():
        return             # (only the thread that armed the injection is hit: simulated tasks are real threads that run one at a time)
    st["n"] += 1
    if st["n"] == st["k"]:
        st["armed"] = False
        st["fired_in"] = (code.co_qualname, offset)
        raise st["exc"]()


def instrument(functions):
    mon = getattr(sys, "monitoring", None)
    if mon is None:
        return False
    if not _done:
        mon.use_tool_id(TOOL, "coba-verif-asyncexc")
        mon.register_callback(TOOL, mon.events.INSTRUCTION, _on_instruction)
    for f in functions:
        for co in _nested(f.__code__):
            if co not in _done:
                mon.set_local_events(TOOL, co, mon.events.INSTRUCTION)
                _done.add(co)
    return True


def _quiet_unraisable(unraisable):
    # an injection that lands while a dropped generator is being finalised cannot propagate (Python reports it as "Exception ignored");
    # nothing to see there, and nothing to print
    if isinstance(unraisable.exc_value, _state["exc"]):
        return
    sys.__unraisablehook__(unraisable)


def arm(k, exc=KeyboardInterrupt):
    """The k-th instruction (k >= 1) executed from now on inside the instrumented code raises exc()."""
    sys.unraisablehook = _quiet_unraisable
    _state.update(armed=True, k=k, n=0, exc=exc, fired_in=None, tid=threading.get_ident())


def disarm():
    """Returns (qualname, offset) of the frame the exception was raised in, or None if the plan was not reached; and how many
    instrumented instructions were executed while armed."""
    fired, n = _state["fired_in"], _state["n"]
    _state.update(armed=False, fired_in=None)
    sys.unraisablehook = sys.__unraisablehook__
    return fired, n
