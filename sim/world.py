"""Installs the simulated primitives into coba (from outside, no source hook) and virtualises
the process-global state per simulated pid.

In production every spawned worker is a fresh interpreter: ``CobaContext`` starts from its
defaults, ``coba.random._random`` is freshly (time-)seeded, ``UniqueKey.N`` is 0 and
``multiprocessing.current_process()`` is the worker.  In one interpreter all of that would be
silently shared, so the scheduler swaps a snapshot of those slots whenever the baton crosses a
pid boundary.  A new pid starts from pristine values.
"""
import multiprocessing.process as _mpp
import sys

from . import prims
from .sched import cur_sim, splitmix64, HarnessError

_installed = False
_saved = {}


class SimTime:
    """Stand-in for the ``time`` module inside selected coba modules.

    ``sleep`` blocks on the virtual clock.  ``time()`` is deterministic: the virtual clock plus
    an offset that differs per simulated pid and advances on every call, so that a generator
    that is (wrongly) time-seeded inside a worker differs from the parent's - as it would in
    production - yet replays exactly."""

    def __init__(self, real):
        self._real = real
        self._calls = 0

    def sleep(self, seconds):
        s = cur_sim()
        if s is None or s.closed:
            return
        s.sleep(seconds)

    def time(self):
        s = cur_sim()
        if s is None or s.closed or s.current is None:
            return self._real.time()
        self._calls += 1
        n = s.user["time_calls"] = s.user.get("time_calls", 0) + 1
        return 1.7e9 + s.now + (s.current.pid - 1000) * 977.0 + n * 1e-3

    def __getattr__(self, name):
        return getattr(self._real, name)


_TRACKED = None      # module-level / class-level containers of coba that were empty when coba was imported


def _discover_containers():
    """Every dict / list / set that is a module global or a class attribute of a coba module and is EMPTY at import
    time is treated as process-global mutable state (caches, memo tables, registries filled at run time).  A spawned
    worker starts with them empty, so they are virtualised per simulated pid; containers that are non-empty at
    import time (registries filled by decorators, constants) are assumed read-only at run time."""
    import collections
    global _TRACKED
    if _TRACKED is not None:
        return _TRACKED
    seen, out = set(), []

    def consider(owner, attr, v):
        if attr.startswith("__") or id(v) in seen:
            return
        if getattr(owner, "__name__", "") == "CobaRegistry":
            return      # filled lazily from entry points whose modules are imported once per interpreter: an import-time registry
        if isinstance(v, (dict, list, set)) and type(v) in (dict, list, set, collections.defaultdict, collections.OrderedDict) and len(v) == 0:
            seen.add(id(v))
            out.append((f"{getattr(owner, '__name__', owner)}.{attr}", v))

    for name, mod in sorted(sys.modules.items()):
        if mod is None or not (name == "coba" or name.startswith("coba.")) or ".tests" in name:
            continue
        for attr, val in list(vars(mod).items()):
            consider(mod, attr, val)
            if isinstance(val, type) and getattr(val, "__module__", "").startswith("coba"):
                for a2, v2 in list(vars(val).items()):
                    consider(val, a2, v2)
                meta = type(val)
                if meta is not type and getattr(meta, "__module__", "").startswith("coba"):
                    for a2, v2 in list(vars(meta).items()):
                        consider(meta, a2, v2)
    _TRACKED = out
    return out


def _take(c):
    return dict(c) if isinstance(c, dict) else (set(c) if isinstance(c, set) else list(c))


def _put(c, content):
    c.clear()
    if isinstance(c, (dict, set)):
        c.update(content)
    else:
        c.extend(content)


def reset_coba_globals():
    """Give the calling (outside / main-process) context the process-global state of a fresh interpreter."""
    for _, c in (_TRACKED or ()):
        c.clear()


_BUILTIN_HASH = hash


def sim_hash(x):
    """Stand-in for the builtin hash() inside coba's modules: str/bytes hashing is randomised per process in
    production (PYTHONHASHSEED), so inside a simulation it is salted with the simulated pid.  Numbers hash as usual."""
    s = cur_sim()
    if s is None or s.closed or s.current is None:
        return _BUILTIN_HASH(x)
    return _salted(x, s.current.pid)


def _salted(x, pid):
    if isinstance(x, (str, bytes)):
        return _BUILTIN_HASH((pid, "salt", x))
    if isinstance(x, tuple):
        return _BUILTIN_HASH(tuple(_salted(e, pid) for e in x))
    if isinstance(x, frozenset):
        return _BUILTIN_HASH(frozenset(_salted(e, pid) for e in x))
    return _BUILTIN_HASH(x)


def _ukey_fresh():
    import itertools
    return {"N": 0, "_ns": itertools.count()}


def _ukey_get(cls):
    """The key counter of UniqueKey, whichever way the tree under test keeps it (N or an itertools.count)."""
    return {"N": getattr(cls, "N", 0), "_ns": getattr(cls, "_ns", None)}


def _ukey_set(cls, st):
    if hasattr(cls, "N"):
        cls.N = st["N"]
    if hasattr(cls, "_ns"):
        import itertools
        cls._ns = st["_ns"] if st["_ns"] is not None else itertools.count()


class GlobalsVirt:
    """Per-pid snapshots of coba's process-global state."""

    CTX_ATTRS = ("_api_keys", "_cacher", "_logger", "_experiment", "_search_paths", "_store",
                 "_learning_info", "_config_backing")

    def __init__(self, seed):
        self.seed = seed
        self.snap = {}
        self.loaded = 1000
        self.n_swaps = 0

    # -- slots
    def _capture(self):
        from coba.context import CobaContext
        import coba.random as cr
        import coba.pipes.multiprocessing as cpm
        ctx = {a: CobaContext.__dict__[a] for a in self.CTX_ATTRS if a in CobaContext.__dict__}
        return {"ctx": ctx, "rand": cr._random, "ukey": _ukey_get(cpm.UniqueKey), "proc": _mpp._current_process,
                "cont": [_take(c) for _, c in (_TRACKED or ())]}

    def _apply(self, st):
        from coba.context import CobaContext
        import coba.random as cr
        import coba.pipes.multiprocessing as cpm
        for a in self.CTX_ATTRS:
            if a in st["ctx"]:
                setattr(CobaContext, a, st["ctx"][a])
            elif a in CobaContext.__dict__:
                delattr(CobaContext, a)
        cr._random = st["rand"]
        _ukey_set(cpm.UniqueKey, st["ukey"])
        conts = st.get("cont")
        for i, (_, c) in enumerate(_TRACKED or ()):
            _put(c, conts[i] if conts is not None else ())
        _mpp._current_process = st["proc"]

    def _pristine(self, pid):
        from coba.context import NullLogger, NullCacher
        from coba.context.core import ExperimentConfig
        from coba.random import CobaRandom
        ctx = {"_api_keys": {}, "_cacher": NullCacher(), "_logger": NullLogger(),
               "_experiment": ExperimentConfig(1, 0, 0, "source"), "_store": {}, "_learning_info": {},
               "_search_paths": []}
        # a fresh interpreter time-seeds the module generator: deterministic per (run, pid) here
        rand = CobaRandom(int(splitmix64(self.seed, pid, 0xA11CE) % (2 ** 30)))
        return {"ctx": ctx, "rand": rand, "ukey": _ukey_fresh(), "proc": prims._CurProc(pid, f"SimProcess-{pid - 1000}")}

    def switch(self, old_pid, new_pid):
        if new_pid == self.loaded:
            return
        self.snap[self.loaded] = self._capture()
        st = self.snap.get(new_pid)
        if st is None:
            st = self._pristine(new_pid)
        self._apply(st)
        self.loaded = new_pid
        self.n_swaps += 1

    def enter(self):
        """The outside world becomes simulated pid 1000 (only current_process is replaced)."""
        import coba.random as cr
        import coba.pipes.multiprocessing as cpm
        self.outside_proc = _mpp._current_process
        _mpp._current_process = prims._CurProc(1000, "MainProcess")
        # every run simulates a fresh main interpreter as well
        reset_coba_globals()
        _ukey_set(cpm.UniqueKey, _ukey_fresh())
        cr._random = cr.CobaRandom(int(splitmix64(self.seed, 1000, 0xA11CE) % (2 ** 30)))
        self.loaded = 1000

    def leave(self):
        if self.loaded != 1000:
            self.switch(self.loaded, 1000)
        _mpp._current_process = self.outside_proc


class _MPShim:
    """Replacement for the ``mp`` name inside coba.multiprocessing."""

    def __init__(self, real):
        self._real = real

    def get_context(self, method=None):
        return prims.SimContext

    def __getattr__(self, name):
        return getattr(self._real, name)


def install():
    """Swap the module-level seams.  Idempotent; done once per check process."""
    global _installed
    if _installed:
        return
    import time as _time
    import coba.pipes.lines as L
    import coba.pipes.multiprocessing as M
    import coba.multiprocessing as CM
    import coba.context.cachers as CC
    import coba.random as CR

    _saved["L.spawn_context"] = L.spawn_context
    _saved["M.spawn_context"] = M.spawn_context
    L.spawn_context = prims.SimContext
    M.spawn_context = prims.SimContext
    L.mt = prims.SimThreadingNS
    M.mt = prims.SimThreadingNS           # (only used for annotations today; a lock added there must be simulated too)
    CM.mp = _MPShim(CM.mp)
    L.ProcessLine.__bases__ = (prims.SimProcess,)
    L.ThreadLine.__bases__ = (prims.SimThread,)
    CC.time = SimTime(_time)
    CR.time = SimTime(_time)
    import coba.context.loggers as LG
    LG.time = SimTime(_time)        # elapsed seconds in log lines (their length is in the event log)
    try:
        import coba.environments.openml as OM
        OM.time = SimTime(_time)
    except Exception:       # pragma: no cover
        pass
    import coba  # noqa: F401  (all sub-modules are imported by the package)
    _discover_containers()
    # explicit hash() calls inside coba see a per-simulated-process salt (dict/set internals are unaffected)
    for name, mod in list(sys.modules.items()):
        if (name == "coba" or name.startswith("coba.")) and ".tests" not in name and mod is not None and "hash" not in vars(mod):
            mod.hash = sim_hash
    _installed = True


def make_sim(seed, **kw):
    """Create a Sim wired to a fresh GlobalsVirt."""
    from .sched import Sim
    install()
    virt = GlobalsVirt(seed)
    sim = Sim(seed, on_pid_switch=virt.switch, **kw)
    sim.virt = virt
    return sim


def run_sim(sim, main_fn, wall_timeout=120.0):
    virt = sim.virt
    virt.enter()
    try:
        out = sim.run(main_fn, wall_timeout=wall_timeout)
    finally:
        virt.leave()
    for name, rep, where, tb in sim.task_excs:
        if "/verif/sim/" in where:
            raise HarnessError(f"simulator bug in task {name}: {rep}\n{tb}")
    return out
