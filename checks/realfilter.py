"""Filter used by the stub-fidelity runs on REAL spawned processes (no simulator involved)."""
import os


class RealBoom(Exception):
    def __init__(self, tag):
        super().__init__(tag)
        self.tag = tag


class RealFilter:
    def __init__(self, outs, plain, fail, fail_after):
        self.outs, self.plain, self.fail, self.fail_after = outs, set(plain), set(fail), fail_after

    def filter(self, item):
        if item in self.plain and item not in self.fail:
            return ("P", item, os.getpid())
        return self._gen(item)

    def _gen(self, item):
        for j in range(self.outs[item]):
            if item in self.fail and j >= self.fail_after.get(item, 0):
                break
            yield ("O", item, j, os.getpid())
        if item in self.fail:
            raise RealBoom(item)
