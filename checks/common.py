"""Helpers shared by the property checks."""
import os
import sys
import warnings

warnings.filterwarnings("ignore", category=SyntaxWarning)

VERIF = os.path.dirname(os.path.dirname(os.path.abspath(__file__)))
if VERIF not in sys.path:
    sys.path.insert(0, VERIF)


class ListSinkH:
    """A picklable sink collecting log lines (harness side)."""

    def __init__(self):
        self.items = []

    def write(self, item):
        self.items.append(item)


def quiet_context(sink=None):
    """Put CobaContext into a state that never touches ~/.coba, the console or ~/.cache."""
    from coba.context import CobaContext, BasicLogger, NullCacher
    from coba.context.core import ExperimentConfig
    from coba.pipes import NullSink
    CobaContext.search_paths = []
    CobaContext._config_backing = None
    CobaContext._experiment = ExperimentConfig(1, 0, 0, "source")
    CobaContext.api_keys = {"openml": None}
    CobaContext.cacher = NullCacher()
    CobaContext.logger = BasicLogger(sink if sink is not None else NullSink())
    CobaContext.store = {}
    CobaContext._learning_info = {}


def vio(cls, msg, key=None):
    return {"cls": cls, "msg": str(msg)[:2000], "key": key or cls}


def weighted(rng, pairs):
    tot = sum(w for _, w in pairs)
    x = rng.random() * tot
    acc = 0
    for v, w in pairs:
        acc += w
        if x < acc:
            return v
    return pairs[-1][0]
