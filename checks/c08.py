"""C08 - Multi-process filtering delivers every output exactly once and never hangs.

The real Multiprocessor.filter / CobaMultiprocessor.filter (with the real MyProcessLine,
ProcessLine, ThreadLine, SourceSink, QueueSource/QueueSink, Slice, Pickler/Unpickler, Safe,
Foreach, Stopper, EventSetter, UniqueKey) run on the simulated process / thread / queue /
event / pipe layer under a seeded scheduler.
"""
import os

from checks.common import VERIF, quiet_context, vio, weighted, ListSinkH
from sim.world import make_sim, run_sim
from sim.sched import cur_sim


class Boom(Exception):
    """The injected filter failure (picklable, carries the item tag)."""

    def __init__(self, tag):
        super().__init__(tag)
        self.tag = tag


class BoomValue(ValueError):
    def __init__(self, tag):
        super().__init__(tag)
        self.tag = tag


class BoomAssert(AssertionError):
    def __init__(self, tag):
        super().__init__(tag)
        self.tag = tag


class BoomEOF(EOFError):
    def __init__(self, tag):
        super().__init__(tag)
        self.tag = tag


class BoomType(TypeError):
    def __init__(self, tag):
        super().__init__(tag)
        self.tag = tag


def _trim_defaults(args, defaults):
    """Trailing arguments that equal the documented defaults are left out, so the defaults themselves are part of what is exercised."""
    args = list(args)
    while args and args[-1] == defaults[len(args) - 1] and type(args[-1]) is type(defaults[len(args) - 1]):
        args.pop()
    return args


class BoomFalsy(Exception):
    """An error whose truth value is False (an exception class that is also a - here empty - collection of details: __len__ == 0)."""
    def __init__(self, tag):
        super().__init__(tag)
        self.tag = tag

    def __len__(self):
        return 0


class BoomStop(StopIteration):
    def __init__(self, tag):
        super().__init__(tag)
        self.tag = tag


class BoomPipe(BrokenPipeError):
    def __init__(self, tag):
        BrokenPipeError.__init__(self, tag)
        self.tag = tag

    def __reduce__(self):
        return (BoomPipe, (self.tag,))


class BoomTwoArgs(Exception):
    """The usual hand-written exception: __init__ takes more than what it passes on to Exception.__init__, so pickle can dump it but
    not rebuild it (cls(*self.args) -> TypeError) - in the parent process, when the worker's result is received."""

    def __init__(self, tag, extra="e"):
        super().__init__(f"boom:{tag}:")
        self.tag = tag

    def __reduce__(self):
        return (BoomTwoArgs_rebuild_fails, (self.tag,))


def BoomTwoArgs_rebuild_fails(tag):
    raise TypeError("BoomTwoArgs.__init__() missing 1 required positional argument: 'extra'")


class OutUnloadable:
    """An OUTPUT that pickles in the worker but cannot be rebuilt in the parent (TypeError from its constructor)."""

    def __init__(self, item):
        self.item = item

    def __reduce__(self):
        return (BoomTwoArgs_rebuild_fails, (self.item,))


class OutUnpicklable:
    """An OUTPUT that cannot be pickled (it carries a lock / an open handle / a lambda)."""

    def __init__(self, item):
        import threading
        self.item, self.handle = item, threading.Lock()


class BoomPlugin(Exception):
    """An exception class only the worker can import (plug-in code loaded there): it survives a pickle round trip INSIDE the worker and
    fails to be rebuilt in the parent process."""

    def __init__(self, tag):
        super().__init__(f"boom:{tag}:")
        self.tag = tag

    def __reduce__(self):
        return (_rebuild_plugin_error, (self.tag,))


def _rebuild_plugin_error(tag):
    s = cur_sim()
    if s is not None and s.current is not None and s.current.pid == 1000:
        raise ModuleNotFoundError("No module named 'my_plugin'")
    return BoomPlugin(tag)


class BoomLock(Exception):
    """An exception that cannot be pickled at all (it carries a lock / handle)."""

    def __init__(self, tag):
        import threading
        super().__init__(f"boom:{tag}:")
        self.tag, self.handle = tag, threading.Lock()


class BoomHuge(Exception):
    """An exception whose message does not fit into a pipe buffer (e.g. it quotes the offending data)."""

    def __init__(self, tag):
        super().__init__(f"boom:{tag}:" + "x" * 200_000)
        self.tag = tag

    def __reduce__(self):
        return (BoomHuge, (self.tag,))


BOOMS = {"Plugin": BoomPlugin, "Unloadable": BoomTwoArgs, "Unpicklable": BoomLock, "Huge": BoomHuge, "Exception": Boom, "ValueError": BoomValue, "AssertionError": BoomAssert, "EOFError": BoomEOF, "TypeError": BoomType,
         "BrokenPipeError": BoomPipe, "StopIteration": BoomStop, "Falsy": BoomFalsy}


class HFilter:
    """Harness filter.  Per item: record (simulated pid, item), then produce the item's
    outputs (uniquely tagged), yielding to the scheduler between them; or raise."""

    def __init__(self, outs, plain, fail, fail_after, log_lines, falsy=(), exc="Exception"):
        self.exc = exc
        self.falsy = set(falsy)       # items whose outputs are falsy values (0, "", (), False, 0.0)
        self.bad_out = None           # (item, "unloadable" | "unpicklable"): that item yields one extra output that cannot travel
        self.none_item = None         # the position whose item is None in the input stream
        self.none_out = set()         # items whose outputs are None (the value the queue protocol uses as its poison pill)
        self.outs = outs              # item -> number of outputs
        self.plain = plain            # items answered with a plain value instead of an iterator
        self.fail = fail              # items for which the filter raises
        self.fail_after = fail_after  # item -> outputs produced before raising
        self.log_lines = log_lines
        self.prior_fail = ()

    def filter(self, item):
        s = cur_sim()
        if item is None:
            item = self.none_item      # (the stream contained None at this position: a legal item)
        if item >= PRIOR:
            # an item of the EARLIER call on the same Multiprocessor instance (see "prior" in gen): one output, or the earlier call's failure
            s.yield_("filter-prior")
            if item - PRIOR in self.prior_fail:
                s.count("fault.prior_call_filter_raise")
                raise Boom(item)
            return [("Q", item)]
        s.user["c08_seen"].append((s.current.pid, item))
        if item in self.plain:
            s.yield_("filter-plain")
            if item in self.fail:          # a plain (non-generator) filter raising from inside the call itself
                s.count("fault.filter_raise")
                raise BOOMS[self.exc](item)
            return ("P", item)
        if item in self.fail and self.exc == "StopIteration":
            # (a StopIteration escaping a generator is turned into RuntimeError by Python itself: only plain filters raise it)
            s.count("fault.filter_raise")
            raise BOOMS[self.exc](item)
        return self._gen(item)

    def _gen(self, item):
        s = cur_sim()
        if self.log_lines:
            from coba.context import CobaContext
            CobaContext.logger.log(f"L{item}")
        n = self.outs[item]
        if self.bad_out and self.bad_out[0] == item:
            s.count(f"fault.output_{self.bad_out[1]}")
            yield (OutUnloadable if self.bad_out[1] == "unloadable" else OutUnpicklable)(item)
        for j in range(n):
            if item in self.fail and j >= self.fail_after.get(item, 0):
                break
            s.yield_("filter-work")
            yield out_value(item, j, _kind(self.none_out, self.falsy, item))
        if item in self.fail:
            s.count("fault.filter_raise")
            raise BOOMS[self.exc](item)


FALSY = (0, "", (), False, 0.0)
PRIOR = 1000


def out_value(item, j, falsy):
    if falsy == "none":
        return None
    return FALSY[(item + j) % len(FALSY)] if falsy else ("O", item, j)


def _kind(cfg_or_filter_none, falsy, item):
    return "none" if item in cfg_or_filter_none else item in falsy


def expected_outputs(cfg):
    exp = []
    for it in range(cfg["n_items"]):
        if it in cfg["fail"]:
            continue
        if it in cfg["plain"]:
            exp.append(("P", it))
        else:
            exp.extend(out_value(it, j, _kind(cfg.get("none_out", ()), cfg.get("falsy", ()), it)) for j in range(cfg["outs"][it]))
    return exp


def possible_outputs(cfg):
    pos = []
    for it in range(cfg["n_items"]):
        if it in cfg["fail"]:
            pos.extend(out_value(it, j, _kind(cfg.get("none_out", ()), cfg.get("falsy", ()), it))
                       for j in range(min(cfg["outs"][it], cfg["fail_after"].get(str(it), 0))))
        elif it in cfg["plain"]:
            pos.append(("P", it))
        else:
            pos.extend(out_value(it, j, _kind(cfg.get("none_out", ()), cfg.get("falsy", ()), it)) for j in range(cfg["outs"][it]))
    return pos


def _instrument():
    """Bytecodes of the code that shares _n_procs/_exceptions/_stop/read_waiters between the parent's threads become
    pre-emption points: Multiprocessor.filter with its two completion callbacks, Stopper, and the join-and-call /
    result-collection code of ProcessLine and ThreadLine."""
    from sim.opcodes import instrument
    import coba.pipes.multiprocessing as M
    import coba.pipes.lines as L
    fns = [M.Multiprocessor.filter, M.Stopper.stop, M.Stopper.filter, L.ProcessLine.start, L.ProcessLine.join,
           L.ProcessLine._get_result, L.ThreadLine.start, L.ThreadLine.run, M.MyProcessLine.start, M.UniqueKey.__init__]
    if hasattr(L.ProcessLine, "_result_ready"):
        fns.append(L.ProcessLine._result_ready)
    import coba.pipes.sinks as SK
    fns += [SK.DiskSink.write, SK.DiskSink.__enter__, SK.DiskSink.__exit__]      # (the parent's log writer thread can be pre-empted while its file is open)
    return instrument(fns)


def _sig(sim):
    qs = tuple((c.kind[0], len(c.pipe), c.count) for c in sim.registry.values() if getattr(c, "kind", "") == "queue")
    ts = tuple((t.name[:6], (t.why or "").split(" ")[0]) for t in sim.tasks if not t.done)
    return (qs, ts)


class C08:
    prop = "C08"
    state_measure = ("abstraction sampled at every scheduler decision: per queue (pipe length, outstanding count) x per live task "
                     "(task kind, kind of thing it is blocked on); hashed; distinct values counted")
    level = "exploration"
    design_ref = "DESIGN.md 3.7"
    tiers = {"quick": {"runs": 16000, "budget_s": 80, "chunk": 80, "twice_every": 25, "shrink_s": 40},
             "thorough": {"runs": 600000, "budget_s": 840, "chunk": 100, "twice_every": 50, "shrink_s": 120}}
    rule = ("one run = one (workload, configuration, fault plan, schedule) drawn from splitmix64(VERIF_SEED, index): "
            "n items 0-14, n_processes 1-5, maxtasksperchild 0-4, read_wait, Multiprocessor or CobaMultiprocessor, "
            "per-item output counts 0-3 / plain values, failing item subset, consumer reads all or abandons after k, optionally an earlier "
            "(failing / abandoned / complete) call on the same instance; "
            "a run is non-trivial when worker processes were started and the baton moved between tasks; "
            "distinct = distinct event-log digest (every primitive operation with task id + every scheduler choice)")
    assumptions = [
        "outputs are picklable (an output that is None is generated: see the known finding none_output_ends_the_stream)",
        "multiprocessing primitives are modelled (sim/prims.py) after CPython 3.12 queues.py/process.py/connection.py",
        "threads of the parent process are pre-empted at primitive operations and at planned bytecodes (uniform, targeted and dense plans via "
        "sys.monitoring) of Multiprocessor.filter, its completion callbacks, Stopper, UniqueKey, MyProcessLine/ProcessLine/ThreadLine start/join code; "
        "other parent-side code is not pre-empted between bytecodes",
        "no kill -9 / KeyboardInterrupt / non-zero exit codes of workers (not in the property's quantifier)",
    ]
    real_components = ["coba.pipes.multiprocessing.Multiprocessor", "MyProcessLine", "coba.pipes.lines.ProcessLine",
                       "ThreadLine", "SourceSink", "QueueSource", "QueueSink", "Slice", "Pickler", "Unpickler", "Safe",
                       "Foreach", "Stopper", "EventSetter", "UniqueKey", "coba.multiprocessing.CobaMultiprocessor",
                       "CobaMultiprocessor.ProcessFilter", "ConcurrentCacher (constructed)", "BasicLogger"]
    stub_components = ["multiprocessing spawn context: Process, Queue, Event, Pipe, Lock, Semaphore, RawArray",
                       "threading.Thread / Lock as seen by coba.pipes.lines", "wrapped user filter (harness)"]

    def extra_coverage(self, tier, agg):
        """Thorough tier: also run the workload on REAL spawned processes and apply the same oracle (stub fidelity)."""
        if tier != "thorough":
            return {}
        import os, re, subprocess
        try:
            p = subprocess.run([os.path.join(VERIF, "tools", "stub_fidelity.py"), "24"], capture_output=True, text=True, timeout=900)
            m = re.search(r"stub fidelity: (\d+)/(\d+) real executions accepted", p.stdout)
            return {"stub_fidelity_real_process_runs": int(m.group(2)) if m else 0,
                    "stub_fidelity_accepted_by_oracle": int(m.group(1)) if m else 0,
                    "stub_fidelity_note": "real spawned processes, uncontrolled schedule; never a source of a VIOLATION line"}
        except Exception as e:
            return {"stub_fidelity_error": repr(e)}

    # ------------------------------------------------------------------ generation
    def gen(self, rng, tier, index):
        n_items = weighted(rng, [(0, 1), (1, 2), (2, 3), (3, 3), (4, 3), (5, 3), (6, 2), (8, 2), (10, 1), (14, 1)])
        n_procs = weighted(rng, [(1, 2), (2, 4), (3, 3), (4, 2), (5, 1)])
        mtpc = weighted(rng, [(0, 4), (1, 3), (2, 3), (3, 1), (4, 1)])
        if n_procs == 1 and mtpc == 0 and rng.random() < 0.8:
            mtpc = 1 + rng.randrange(3)           # the in-process shortcut is not the interesting part
        coba_mp = rng.random() < 0.4
        faulty = index % 2 == 1                    # fault-free and fault-injecting configurations alternate
        outs = [weighted(rng, [(0, 1), (1, 4), (2, 2), (3, 1)]) for _ in range(n_items)]
        plain = [i for i in range(n_items) if rng.random() < 0.15]
        falsy = [i for i in range(n_items) if i not in plain and rng.random() < 0.12]
        # in 3 % of the fault-free runs one item's outputs are None - a legal value for a filter to yield, and the queue protocol's poison pill
        none_out = [rng.randrange(n_items)] if (not faulty and n_items > 0 and rng.random() < 0.06) else []
        none_out = [i for i in none_out if i not in plain and i not in falsy and outs[i] > 0]
        fail, fail_after, consumer = [], {}, {"mode": "all"}
        if faulty and n_items > 0:
            kind = weighted(rng, [("raise", 5), ("abandon", 3), ("both", 1)])
            if kind in ("raise", "both"):
                k = 1 if rng.random() < 0.6 else min(n_items, 1 + rng.randrange(3))
                fail = sorted(rng.sample(range(n_items), k))
                for i in fail:
                    fail_after[str(i)] = rng.randrange(0, outs[i] + 1)
            if kind in ("abandon", "both"):
                tot = sum(outs)
                consumer = {"mode": "abandon", "k": rng.randrange(0, max(1, tot)), "how": weighted(rng, [("close", 2), ("ctrl_c", 1)])}
        # one run in seven first makes an EARLIER call on the same Multiprocessor instance (which fails or completes); the call that is
        # judged is the second one: "every call" of the statement includes calls on an instance that has been used before.
        # (Not generated: an earlier call that was ABANDONED. Its workers stay blocked on the input queue for good - daemons, by design - and
        # their late callbacks share self._n_procs/_exceptions with the next call; the property quantifies over the schedules of one call,
        # not over histories of calls with live stragglers. See DESIGN 10.8.)
        prior = None
        if rng.random() < 0.15 and not coba_mp:
            pn = 1 + rng.randrange(5)
            pk = weighted(rng, [("raise", 4), ("all", 1)])
            prior = {"n": pn, "fail": sorted(rng.sample(range(pn), 1 + rng.randrange(min(2, pn)))) if pk == "raise" else [], "abandon": None}
        return {
            "prior": prior,
            "n_items": n_items, "n_procs": n_procs, "mtpc": mtpc, "read_wait": rng.random() < 0.3 and not coba_mp,
            "coba_mp": coba_mp, "outs": outs, "plain": plain, "falsy": falsy, "none_out": none_out,
            # an output that cannot travel between processes: it must never vanish without an error
            "bad_out": [rng.choice([i for i in range(n_items) if i not in plain] or [0]), rng.choice(["unloadable", "unpicklable"])]
            if (not faulty and not none_out and n_items > 0 and n_items > len(plain) and rng.random() < 0.05) else None,
            "none_item": weighted(rng, [(0, 2), (rng.randrange(n_items), 1)]) if n_items > 0 and rng.random() < 0.05 else None,
            "fail": fail, "fail_after": fail_after,
            "consumer": consumer, "items_as": weighted(rng, [("list", 3), ("iter", 1)]),
            # the type of the error the user's filter raises (an assert in user code is an AssertionError ...)
            "exc": weighted(rng, [("Exception", 4), ("ValueError", 2), ("AssertionError", 2), ("EOFError", 1), ("TypeError", 1), ("BrokenPipeError", 1),
                                  ("StopIteration", 0 if coba_mp else 1.5), ("Unloadable", 1.5), ("Unpicklable", 1.5), ("Huge", 1.5), ("Plugin", 1.5), ("Falsy", 1)]),
            "knobs": {"feeder_delay": rng.random() < 0.5, "pipe_cap": weighted(rng, [(None, 4), (1, 1), (3, 1)]),
                      "p_stay": weighted(rng, [(0.0, 2), (0.5, 2), (0.9, 1)]),
                      "slow_main": rng.random() < 0.25, "log_lines": coba_mp and rng.random() < 0.7,
                      # the parent's logger writes to a file (a DiskSink, as a ~/.coba configuration can ask for) instead of to a list
                      "disk_log": coba_mp and rng.random() < 0.3,
                      # bytecode-level pre-emption of the parent's threads (callbacks, loader, consumer) at planned opcode counts
                      "opcode_plan": sorted(rng.randrange(1, 700) for _ in range(1 + rng.randrange(4))) if rng.random() < 0.2 else None,
                      # ... and at the k-th bytecode of the n-th invocation of a chosen function (hits short critical sections far more often)
                      "opcode_points": [[weighted(rng, [("filter_finished_or_failed", 4), ("loader_finished_or_failed", 1), ("__init__", 3), ("start", 2),
                                                        ("stop", 1), ("join_and_call", 1), ("_get_result", 1), ("filter", 1), ("run", 1)]),
                                         1 + rng.randrange(6), rng.randrange(0, weighted(rng, [(12, 2), (40, 2), (120, 1)]))]
                                        for _ in range(1 + rng.randrange(5))] if rng.random() < 0.3 else None,
                      # dense mode: every bytecode of two consecutive invocations of one function is a pre-emption point
                      "opcode_dense": [weighted(rng, [("filter_finished_or_failed", 4), ("__init__", 3), ("start", 2), ("loader_finished_or_failed", 1),
                                                      ("join_and_call", 1), ("_get_result", 1), ("stop", 1)]), 1 + rng.randrange(8)] if rng.random() < 0.12 else None},
        }

    # ------------------------------------------------------------------ one simulated run
    def run(self, cfg, seed, choices=None):
        from coba.pipes.multiprocessing import Multiprocessor
        from coba.multiprocessing import CobaMultiprocessor
        kn = cfg["knobs"]
        sim = make_sim(seed, choices=choices, p_stay=kn["p_stay"], max_steps=30000)
        sim.user["feeder_delay"] = kn["feeder_delay"]
        sim.user["pipe_cap"] = kn["pipe_cap"]
        sim.user["c08_seen"] = []
        sim.sig_fn = _sig
        _instrument()
        if kn.get("opcode_plan"):
            sim.opcode_plan = list(kn["opcode_plan"])
        if kn.get("opcode_points"):
            sim.opcode_points = {tuple(p) for p in kn["opcode_points"]}
        if kn.get("opcode_dense"):
            f_, k_ = kn["opcode_dense"]
            sim.opcode_points = (sim.opcode_points or set()) | {(f_, k_ + d, o) for d in (0, 1) for o in range(0, 160)}
        if kn["slow_main"]:
            sim.slow_bias = 0.7
        log_sink = ListSinkH()
        quiet_context(log_sink)
        log_dir = None
        if kn.get("disk_log"):
            import tempfile
            from coba.context import CobaContext, BasicLogger
            from coba.pipes import DiskSink
            log_dir = tempfile.mkdtemp(prefix="c08log_", dir="/dev/shm" if os.path.isdir("/dev/shm") else None)
            CobaContext.logger = BasicLogger(DiskSink(os.path.join(log_dir, "log.txt")))
            sim.count("reach.parent_logger_writes_to_a_file")
        fail_after = {int(k): v for k, v in cfg["fail_after"].items()}
        f = HFilter(cfg["outs"], set(cfg["plain"]), set(cfg["fail"]), fail_after, kn["log_lines"], cfg.get("falsy", ()), cfg.get("exc", "Exception"))
        f.none_out = set(cfg.get("none_out", ()))
        f.none_item = cfg.get("none_item")
        f.bad_out = cfg.get("bad_out")
        got, obs = [], {}

        def main():
            if kn["slow_main"]:
                sim.main.slow = True
            items = list(range(cfg["n_items"]))
            if cfg.get("none_item") is not None:
                items[cfg["none_item"]] = None
            if cfg["items_as"] == "iter":
                items = iter(items)
            if cfg["coba_mp"]:
                mp = CobaMultiprocessor(f, *_trim_defaults([cfg["n_procs"], cfg["mtpc"]], [1, 0]))
            else:
                mp = Multiprocessor(f, *_trim_defaults([cfg["n_procs"], cfg["mtpc"], cfg["read_wait"]], [1, 0, False]))
            pr = cfg.get("prior")
            if pr:
                f.prior_fail = set(pr["fail"])
                sim.count("reach.earlier_call_on_same_instance")
                try:
                    pit = iter(mp.filter([PRIOR + i for i in range(pr["n"])]))
                    if pr["abandon"] is None:
                        obs["prior_got"] = list(pit)
                    else:
                        obs["prior_got"] = [next(pit) for _ in range(pr["abandon"])]
                        pit.close()
                except Exception as e:
                    obs["prior_exc"] = e
                sim.user["c08_seen"].clear()
            g = mp.filter(items)
            try:
                if cfg["consumer"]["mode"] == "all":
                    for x in g:
                        got.append(x)
                    obs["finished"] = True
                else:
                    it = iter(g)
                    for _ in range(cfg["consumer"]["k"]):
                        try:
                            got.append(next(it))
                        except StopIteration:
                            obs["short"] = True
                            break
                    sim.count("fault.consumer_abandon")
                    try:
                        if cfg["consumer"].get("how") == "ctrl_c" and hasattr(it, "throw"):
                            # the consumer is hit by a Ctrl-C while it handles an output: the interrupt reaches the suspended call
                            sim.count("fault.consumer_ctrl_c")
                            try:
                                it.throw(KeyboardInterrupt())
                                obs["close_exc"] = RuntimeError("the KeyboardInterrupt thrown into the call was swallowed")
                            except KeyboardInterrupt:
                                pass
                            except StopIteration:
                                obs["close_exc"] = RuntimeError("the KeyboardInterrupt thrown into the call was swallowed (the call just ended)")
                        elif hasattr(it, "close"):
                            it.close()
                        obs["closed"] = True
                    except Exception as e:          # close() must not raise
                        obs["close_exc"] = e
            except Exception as e:
                obs["exc"] = e

        try:
            outcome = run_sim(sim, main)
        finally:
            if log_dir:
                import shutil
                shutil.rmtree(log_dir, ignore_errors=True)
        res = {"digest": sim.digest(), "trace": sim.trace, "decisions": sim.n_decisions, "switches": sim.n_switches,
               "sim_s": sim.now, "counters": dict(sim.counters), "states": list(sim.state_sigs)}
        started = sim.counters.get("process_started", 0)
        res["nontrivial"] = started > 0 and sim.n_switches > 0
        if started > cfg["n_procs"]:
            res["counters"]["reach.worker_restarted_after_retirement"] = 1
        if sim.counters.get("get_nowait_rlock_busy"):
            res["counters"]["reach.get_nowait_hit_held_reader_lock"] = 1
        if sim.counters.get("put_blocked_on_full_queue"):
            res["counters"]["reach.loader_blocked_on_full_input_queue"] = 1
        res["counters"]["leaked_daemon_tasks"] = getattr(sim, "leaked", 0)
        if "exc" in sim.result:
            obs["exc"] = sim.result["exc"]
        res["violation"] = self._oracle(cfg, sim, outcome, got, obs, log_sink)
        res["sample"] = {"cfg": cfg, "outcome": outcome, "n_outputs": len(got), "first_choices": sim.trace[:30],
                         "processes_started": started, "decisions": sim.n_decisions}
        return res

    # ------------------------------------------------------------------ oracle
    def _oracle(self, cfg, sim, outcome, got, obs, log_sink):
        from collections import Counter
        if outcome in ("deadlock", "livelock"):
            return vio(outcome, f"{outcome}: the call never terminates; blocked tasks: {sim.outcome_info}")
        exp = Counter(expected_outputs(cfg))
        pos = Counter(possible_outputs(cfg))
        got = [g for g in got if not isinstance(g, (OutUnloadable, OutUnpicklable))]      # (the marker output itself, when it did arrive)
        gotc = Counter(got)
        dup = [x for x, n in gotc.items() if n > pos.get(x, 0) and x in pos]
        inv = [x for x in gotc if x not in pos]
        if inv:
            return vio("invented_output", f"outputs that the filter never produced: {inv[:5]}")
        if dup:
            return vio("duplicated_output", f"outputs delivered more than once: {dup[:5]}")
        m = cfg["mtpc"]
        if m > 0 and not (cfg["n_procs"] == 1 and m == 0):
            per = Counter(pid for pid, _ in sim.user["c08_seen"])
            over = {p: n for p, n in per.items() if n > m and p != 1000}
            if over:
                return vio("maxtasksperchild_exceeded", f"maxtasksperchild={m} but pid->items {over}")
        seen_items = Counter(it for _, it in sim.user["c08_seen"])
        twice = [it for it, n in seen_items.items() if n > 1]
        if twice:
            return vio("item_processed_twice", f"items handed to the filter more than once: {twice}")
        exc = obs.get("exc")
        if cfg["consumer"]["mode"] == "abandon":
            if "close_exc" in obs:
                return vio("close_raised", f"closing the output early raised {obs['close_exc']!r}")
            if exc is not None and not (isinstance(exc, tuple(BOOMS.values())) and exc.tag in cfg["fail"]) \
                    and not (cfg.get("exc") in ("Unloadable", "Unpicklable", "Plugin") and any(f"boom:{t}:" in str(exc) for t in cfg["fail"])) \
                    and not (cfg.get("exc") == "Plugin" and "background process failed" in str(exc)) \
                    and not (cfg.get("exc") == "StopIteration" and isinstance(exc, RuntimeError)):
                return vio("unexpected_exception", f"abandoning raised {exc!r}")
            return None
        if cfg.get("bad_out") and not (cfg["n_procs"] == 1 and cfg["mtpc"] == 0):
            # (in-process nothing is pickled: handled by the ordinary comparison below, minus the marker object)
            if exc is None:
                return vio("output_silently_lost", f"item {cfg['bad_out'][0]} yields an output that is {cfg['bad_out'][1]}; the call returned normally with "
                                                   f"{len(got)} of {sum(exp.values()) + 1} outputs and raised nothing", key=f"output_silently_lost:{cfg['bad_out'][1]}")
            return None
        if cfg["fail"]:
            if exc is None:
                # only acceptable if the failing item was really never reached - impossible with full consumption
                return vio("error_swallowed", f"filter raised {cfg.get('exc', 'Exception')} for items {cfg['fail']} but the call returned normally "
                                              f"with {len(got)} outputs", key=f"error_swallowed:{cfg.get('exc', 'Exception')}")
            if cfg.get("exc") == "StopIteration" and isinstance(exc, RuntimeError) and "StopIteration" in str(exc):
                return None       # Python itself reports a StopIteration that escapes into a generator as this RuntimeError
            if cfg.get("exc") in ("Unloadable", "Unpicklable", "Plugin") and any(f"boom:{t}:" in str(exc) for t in cfg["fail"]):
                return None       # an error that cannot travel between processes may arrive as a stand-in that carries its text
            if cfg.get("exc") == "Plugin" and "background process failed" in str(exc):
                return None       # ... and one whose class the parent cannot even import as a stand-in that says so
            if not (isinstance(exc, BOOMS[cfg.get("exc", "Exception")]) and exc.tag in cfg["fail"]):
                return vio("wrong_exception", f"expected {cfg.get('exc', 'Exception')} for one of {cfg['fail']}, got {exc!r}")
            return None
        if exc is not None:
            return vio("unexpected_exception", f"no failure injected but the call raised {exc!r}")
        if gotc != exp:
            missing = list((exp - gotc).elements())
            if cfg.get("none_out"):
                return vio("lost_output", f"the filter yields None for item {cfg['none_out']}; outputs never delivered: {missing[:6]} (got {len(got)} of "
                                          f"{sum(exp.values())})", key="none_output_ends_the_stream")
            return vio("lost_output", f"outputs never delivered: {missing[:6]} (got {len(got)} of {sum(exp.values())})")
        return None

    # ------------------------------------------------------------------ shrinking
    def shrink(self, cfg):
        import copy
        n = cfg["n_items"]
        if n > 0:
            for drop in range(n - 1, -1, -1):
                if drop in cfg["fail"] and len(cfg["fail"]) == 1:
                    continue
                c = copy.deepcopy(cfg)
                c["n_items"] = n - 1
                del c["outs"][drop]
                ren = lambda i: i if i < drop else i - 1
                c["plain"] = [ren(i) for i in cfg["plain"] if i != drop]
                c["falsy"] = [ren(i) for i in cfg.get("falsy", ()) if i != drop]
                c["none_out"] = [ren(i) for i in cfg.get("none_out", ()) if i != drop]
                if cfg.get("none_item") is not None:
                    c["none_item"] = None if cfg["none_item"] == drop else ren(cfg["none_item"])
                if cfg.get("bad_out"):
                    c["bad_out"] = None if cfg["bad_out"][0] == drop else [ren(cfg["bad_out"][0]), cfg["bad_out"][1]]
                c["fail"] = [ren(i) for i in cfg["fail"] if i != drop]
                c["fail_after"] = {str(ren(int(k))): v for k, v in cfg["fail_after"].items() if int(k) != drop}
                if c["consumer"]["mode"] == "abandon":
                    c["consumer"]["k"] = min(c["consumer"]["k"], max(0, sum(c["outs"]) - 1))
                yield c
        if cfg.get("prior"):
            c = copy.deepcopy(cfg); c["prior"] = None; yield c
            if cfg["prior"]["n"] > 1 and cfg["prior"]["abandon"] is None:
                c = copy.deepcopy(cfg); c["prior"]["n"] -= 1
                c["prior"]["fail"] = [i for i in c["prior"]["fail"] if i < c["prior"]["n"]] or ([0] if cfg["prior"]["fail"] else []); yield c
        if cfg["n_procs"] > 1:
            c = copy.deepcopy(cfg); c["n_procs"] -= 1; yield c
        if cfg["mtpc"] > 1:
            c = copy.deepcopy(cfg); c["mtpc"] -= 1; yield c
        for flag in ("read_wait", "coba_mp"):
            if cfg[flag]:
                c = copy.deepcopy(cfg); c[flag] = False; c["knobs"]["log_lines"] = False; yield c
        if cfg["knobs"].get("opcode_dense"):
            c = copy.deepcopy(cfg); c["knobs"]["opcode_dense"] = None; yield c
        if cfg["knobs"].get("opcode_points"):
            pts = cfg["knobs"]["opcode_points"]
            c = copy.deepcopy(cfg); c["knobs"]["opcode_points"] = None; yield c
            for i in range(len(pts)):
                if len(pts) > 1:
                    c = copy.deepcopy(cfg); c["knobs"]["opcode_points"] = pts[:i] + pts[i + 1:]; yield c
        if cfg["knobs"].get("opcode_plan"):
            pl = cfg["knobs"]["opcode_plan"]
            c = copy.deepcopy(cfg); c["knobs"]["opcode_plan"] = None; yield c
            for i in range(len(pl)):
                if len(pl) > 1:
                    c = copy.deepcopy(cfg); c["knobs"]["opcode_plan"] = pl[:i] + pl[i + 1:]; yield c
        for k, v in (("feeder_delay", False), ("pipe_cap", None), ("slow_main", False), ("log_lines", False), ("disk_log", False), ("p_stay", 0.9)):
            if cfg["knobs"][k] != v:
                c = copy.deepcopy(cfg); c["knobs"][k] = v; yield c
        for i, o in enumerate(cfg["outs"]):
            if o > 1 and not (str(i) in cfg["fail_after"] and cfg["fail_after"][str(i)] >= o):
                c = copy.deepcopy(cfg); c["outs"][i] = o - 1; yield c
        if cfg["plain"]:
            c = copy.deepcopy(cfg); c["plain"] = []; yield c
        if cfg.get("falsy"):
            c = copy.deepcopy(cfg); c["falsy"] = []; yield c
        if cfg.get("none_out"):
            c = copy.deepcopy(cfg); c["none_out"] = []; yield c
        if cfg.get("none_item") is not None:
            c = copy.deepcopy(cfg); c["none_item"] = None; yield c
        if cfg.get("bad_out"):
            c = copy.deepcopy(cfg); c["bad_out"] = None; yield c
        if cfg["consumer"]["mode"] == "abandon" and cfg["consumer"]["k"] > 0:
            c = copy.deepcopy(cfg); c["consumer"]["k"] -= 1; yield c
        if len(cfg["fail"]) > 1:
            c = copy.deepcopy(cfg); c["fail"] = cfg["fail"][:1]
            c["fail_after"] = {k: v for k, v in cfg["fail_after"].items() if int(k) in c["fail"]}; yield c
        if cfg["items_as"] != "list":
            c = copy.deepcopy(cfg); c["items_as"] = "list"; yield c


def make():
    return C08()


if __name__ == "__main__":
    from sim.runner import main
    main("checks.c08", "make")
