"""Experiment simulator shared by C01 / C02 / C03 / C07: builds experiments from JSON specs,
runs the real Experiment.run in-process or on the simulated multiprocessing layer, and
normalises Results for comparison."""
import json
import math

from checks.common import quiet_context, ListSinkH, weighted
from checks import components as K
from sim.world import make_sim, run_sim

TIMING = ("predict_time", "learn_time")


# ----------------------------------------------------------------------------- building
def build_envs(group):
    """One env group spec -> list of environment pipelines (public Environments API only)."""
    import coba as cb
    kind, kw = group["src"]
    if kind == "linear":
        envs = cb.Environments.from_linear_synthetic(**kw)
    elif kind == "neighbors":
        envs = cb.Environments.from_neighbors_synthetic(**kw)
    elif kind == "bandit":
        envs = cb.Environments.from_bandit_synthetic(**kw)
    elif kind == "tagged":
        envs = cb.Environments(K.TaggedEnv(**kw))
    elif kind == "cached":
        # the cache entry is named after the key AND the size of the data set: two environments may share an entry (and contend for it), but two
        # different data sets under one name would be the spec's own error - whichever is read first would win, in any configuration
        # (the generator draws key and n independently, and the shrinker halves n per environment)
        envs = cb.Environments(K.CachedEnv(**{**kw, "key": f"{kw['key']}n{kw['n']}"}))
    elif kind == "supervised":
        X = [tuple(r) for r in kw["X"]]
        if kw.get("via") == "source":
            envs = cb.Environments.from_supervised(_SupSource(X, kw["Y"], kw.get("interrupt_at")), label_col=len(X[0]), label_type=kw.get("label_type", "c"))
        else:
            envs = cb.Environments.from_supervised(X, list(kw["Y"]), label_type=kw.get("label_type", "c"))
    else:
        # richer sources / filter chains shared with the C04 generator (lambda, CSV / LibSVM supervised, result-based, ...)
        from checks import c04
        return list(c04.apply_ops(c04.build_source(group["src"], {}), group["ops"], {}))
    for name, a in group["ops"]:
        if name == "materialize":
            envs = envs.materialize()
        elif name == "logged":
            envs = envs.logged(build_learner(a["learner"]), seed=a.get("seed", 1.23))
        elif name == "shuffle_n":
            envs = envs.shuffle(n=a["n"])
        elif name == "shuffle_seeds":
            envs = envs.shuffle(a["seeds"])
        elif name == "ope_rewards":
            envs = envs.ope_rewards(a["rewards_type"])
        elif name == "params":
            envs = envs.params(K.dec(a["params"]))
        else:
            envs = getattr(envs, name)(**a)
    return list(envs)


class _SupSource:
    def __init__(self, X, Y, interrupt_at=None):
        self.X, self.Y = X, Y
        # fault: the first read that reaches row `interrupt_at` is hit by a Ctrl-C (only while K.INTERRUPTS_ENABLED)
        self.interrupt_at, self.interrupted = interrupt_at, False

    def read(self):
        for i, (x, y) in enumerate(zip(self.X, self.Y)):
            if self.interrupt_at is not None and i == self.interrupt_at and not self.interrupted and K.INTERRUPTS_ENABLED:
                self.interrupted = True
                raise KeyboardInterrupt()
            yield (*x, y)


def build_learner(spec):
    import coba as cb
    kind, kw = spec
    if kind == "random":
        return cb.RandomLearner(**kw)
    if kind == "fixed":
        return cb.FixedLearner(**kw)
    if kind == "eps":
        return cb.BanditEpsilonLearner(**kw)
    if kind == "ucb":
        return cb.BanditUCBLearner(**kw)
    if kind == "corral":
        kw = dict(kw)
        kw["learners"] = [build_learner(s) for s in kw["learners"]]
        return cb.CorralLearner(**kw)
    if kind == "misguided":
        return cb.MisguidedLearner(build_learner(kw["learner"]), kw.get("shifter", 1), kw.get("scaler", -1))
    if kind == "counter":
        return K.CounterLearner(**kw)
    if kind == "pmf":
        return K.PMFLearner(**kw)
    if kind == "kwargs":
        return K.KwargsLearner(**kw)
    if kind == "lowbits":
        return K.LowBitsLearner(**kw)
    if kind == "modrng":
        return K.ModuleRandomLearner(**kw)
    if kind == "initdraw":
        return K.InitDrawLearner(**kw)
    if kind == "faulty":
        return K.FaultyLearner(**kw)
    if kind == "recording":
        return K.RecordingLearner(**kw)
    if kind == "info":
        return K.InfoLearner(**kw)
    if kind == "plearner":
        return K.ParamLearner(**kw)
    if kind == "plearnerB":
        return K.ParamLearnerB(**kw)
    raise ValueError(kind)


def build_evaluator(spec):
    import coba as cb
    kind, kw = spec
    if kind == "seqcb":
        return cb.SequentialCB(**kw)
    if kind == "rejection":
        return cb.RejectionCB(**kw)
    if kind == "igl":
        return cb.SequentialIGL(**kw)
    if kind == "fn":
        return K.fn_evaluator
    if kind == "rows":
        kw = dict(kw)
        single = kw.pop("single_mapping", False)
        ev = K.RowsEvaluator(**kw)
        ev.single_mapping = single
        return ev
    if kind == "tap":
        return K.TapEvaluator(build_evaluator(kw["inner"]), kw.get("tag", "tap"))
    if kind == "counting":
        return K.CountingEvaluator(build_evaluator(kw["inner"]), kw.get("tag", "cnt"))
    if kind == "faultyval":
        return K.FaultyEvaluator(build_evaluator(kw["inner"]), kw["fail_after"], kw.get("tag", "fv"), kw.get("params_raise", False))
    raise ValueError(kind)


def build_experiment(spec):
    """Fresh objects every time.  Returns (Experiment, objs) where objs holds the component lists."""
    import coba as cb
    envs = []
    for g in spec["envs"]:
        envs.extend(build_envs(g))
    for name, a in spec.get("joint_ops", []):
        # one call on the Environments object that holds ALL groups: every pipeline receives the same filter object
        envs = list(getattr(cb.Environments(envs), name)(**a))
    lrns = [build_learner(s) for s in spec["learners"]]
    shared = {}
    for l in lrns:
        if getattr(l, "share", None) is not None:
            l._shared = shared.setdefault(l.share, dict(l._params))      # ONE dict object for all learners of the group (per build)
    vals = [build_evaluator(s) for s in spec["evaluators"]]
    if spec["shape"] == "product":
        if spec.get("default_evaluator"):
            exp = cb.Experiment(envs, lrns, description=spec.get("description"))
        else:
            exp = cb.Experiment(envs, lrns, vals if len(vals) > 1 else vals[0], description=spec.get("description"))
        triples = [(e, l, v) for e in range(len(envs)) for l in range(len(lrns)) for v in range(len(vals))]
    else:
        tl = []
        for t in spec["tuples"]:
            e, l = envs[t[0] % len(envs)], lrns[t[1] % len(lrns)]
            if len(t) > 2 and t[2] is not None:
                tl.append((e, l, vals[t[2] % len(vals)]))
            else:
                tl.append((e, l))
        exp = cb.Experiment(tl, description=spec.get("description"))
        triples = [(t[0] % len(envs), t[1] % len(lrns), (t[2] % len(vals)) if len(t) > 2 and t[2] is not None else None)
                   for t in spec["tuples"]]
    return exp, {"envs": envs, "lrns": lrns, "vals": vals, "triples": triples}


# ----------------------------------------------------------------------------- normalisation
def _norm(v):
    from coba.results.core import Missing
    if v is Missing:
        return None
    if isinstance(v, float):
        if math.isnan(v):
            return "NaN"
        return v
    if isinstance(v, (list, tuple)):
        return tuple(_norm(x) for x in v)
    if isinstance(v, dict):
        return tuple(sorted((str(k), _norm(x)) for k, x in v.items()))
    return v


def tables(result, drop=TIMING):
    """Result -> comparable structure: per table a list of row dicts (None-valued fields dropped,
    timing columns dropped), plus .experiment."""
    out = {}
    for name in ("environments", "learners", "evaluators", "interactions"):
        t = getattr(result, name)
        rows = []
        for d in t.to_dicts():
            rows.append({k: _norm(v) for k, v in d.items() if k not in drop and _norm(v) is not None})
        out[name] = rows
    out["experiment"] = _norm(dict(result.experiment))
    return out


def state_sig(obj, depth=0):
    """Comparable abstraction of an object's learned state (generator state of CobaRandom excluded)."""
    if depth > 6:
        return "..."
    if obj is None or isinstance(obj, (int, float, str, bool, bytes)):
        return obj
    if isinstance(obj, dict):
        return ("dict", tuple(sorted(((repr(k), state_sig(v, depth + 1)) for k, v in obj.items()), key=repr)))
    if isinstance(obj, (list, tuple)):
        return (type(obj).__name__, tuple(state_sig(v, depth + 1) for v in obj))
    if isinstance(obj, (set, frozenset)):
        return ("set", tuple(sorted(map(repr, obj))))
    if type(obj).__name__ == "CobaRandom":
        return ("CobaRandom", getattr(obj, "_seed", None))
    d = getattr(obj, "__dict__", None)
    if d is not None:
        return (type(obj).__name__, state_sig(d, depth + 1))
    return type(obj).__name__


def diff_tables(a, b, limit=3):
    """Human-readable first differences (None when equal)."""
    msgs = []
    for name in ("experiment", "environments", "learners", "evaluators", "interactions"):
        x, y = a[name], b[name]
        if x == y:
            continue
        if name == "experiment":
            msgs.append(f"experiment: {x!r} != {y!r}")
            continue
        if len(x) != len(y):
            msgs.append(f"{name}: {len(x)} rows vs {len(y)} rows")
        for i, (r, s) in enumerate(zip(x, y)):
            if r != s:
                keys = sorted(set(r) | set(s))
                d = {k: (r.get(k), s.get(k)) for k in keys if r.get(k) != s.get(k)}
                ident = {k: r.get(k) for k in ("environment_id", "learner_id", "evaluator_id", "index") if k in r}
                msgs.append(f"{name} row {i} {ident}: {d}")
                break
        if len(msgs) >= limit:
            break
    return "; ".join(msgs) if msgs else None


# ----------------------------------------------------------------------------- running
def run_inproc(spec, result_file=None, seed_kw=True, log=None, config=(1, 0, 0)):
    """Reference execution: real Experiment.run, in-process, outside any simulation."""
    sink = log if log is not None else ListSinkH()
    from sim.world import install, reset_coba_globals
    install()
    reset_coba_globals()        # a reference run models a fresh interpreter: no process-global leftovers from earlier runs
    quiet_context(sink)
    cache_dir = _maybe_disk_cacher(spec)
    try:
        return _run_inproc(spec, result_file, config, sink)
    finally:
        if cache_dir:
            import shutil
            shutil.rmtree(cache_dir, ignore_errors=True)


def _maybe_disk_cacher(spec):
    """Specs with cache-backed environments run with a DiskCacher on a private directory (fresh for every execution)."""
    if not any(g["src"][0] == "cached" for g in spec["envs"]):
        return None
    import os, tempfile
    from coba.context import CobaContext, DiskCacher
    d = tempfile.mkdtemp(prefix="expc_", dir="/dev/shm" if os.path.isdir("/dev/shm") else None)
    CobaContext.cacher = DiskCacher(d)
    return d


def _run_inproc(spec, result_file, config, sink):
    exp, objs = build_experiment(spec)
    kw = dict(processes=config[0], maxchunksperchild=config[1], maxtasksperchunk=config[2], quiet=spec.get("quiet", True))
    if "seed" in spec:
        kw["seed"] = spec["seed"]
    with _logger_setup(spec, sink):
        res = exp.run(result_file, **kw)
    return res, objs, sink


def _logger_setup(spec, sink):
    """spec["logger"] == "indent": coba's default logger (IndentLogger) instead of the BasicLogger the harness normally installs; with
    spec["outer_time"] the whole run additionally happens inside a `with CobaContext.logger.time(...)` block of the caller."""
    from contextlib import nullcontext
    from coba.context import CobaContext
    if spec.get("logger") == "indent":
        from coba.context import IndentLogger
        CobaContext.logger = IndentLogger(sink)
    return CobaContext.logger.time("my benchmark") if spec.get("outer_time") else nullcontext()


class InvalidSpec(Exception):
    """The generated experiment cannot even be constructed (e.g. materialize() of an unreadable pipeline)."""


def run_simulated(spec, config, seed, choices=None, result_file=None, knobs=None, prebuilt=None, max_steps=60000):
    """Real Experiment.run on the simulated multiprocessing layer under one seeded schedule."""
    knobs = knobs or {}
    sim = make_sim(seed, choices=choices, p_stay=knobs.get("p_stay", 0.5), max_steps=max_steps)
    sim.user["feeder_delay"] = knobs.get("feeder_delay", False)
    sim.user["pipe_cap"] = knobs.get("pipe_cap")
    from checks.c08 import _instrument, _sig
    sim.sig_fn = _sig
    _instrument()                      # bytecode-level pre-emption points in the parent's callback / loader / consumer code
    if knobs.get("opcode_plan"):
        sim.opcode_plan = list(knobs["opcode_plan"])
    if knobs.get("opcode_points"):
        sim.opcode_points = {tuple(p) for p in knobs["opcode_points"]}
    if knobs.get("opcode_dense"):
        f_, k_ = knobs["opcode_dense"]
        sim.opcode_points = (sim.opcode_points or set()) | {(f_, k_ + d, o) for d in (0, 1) for o in range(0, 160)}
    sink = ListSinkH()
    quiet_context(sink)
    cache_dir = _maybe_disk_cacher(spec)
    try:
        exp, objs = prebuilt if prebuilt is not None else build_experiment(spec)
    except Exception as e:
        raise InvalidSpec(repr(e))
    kw = dict(processes=config[0], maxchunksperchild=config[1], maxtasksperchunk=config[2], quiet=spec.get("quiet", True))
    if "seed" in spec:
        kw["seed"] = spec["seed"]
    out = {}

    def main():
        with _logger_setup(spec, sink):
            out["result"] = exp.run(result_file, **kw)

    try:
        outcome = run_sim(sim, main, wall_timeout=300.0)
    finally:
        if cache_dir:
            import shutil
            shutil.rmtree(cache_dir, ignore_errors=True)
    return sim, outcome, out.get("result"), objs, sink


def refused_to_pickle(sink):
    """True when the multi-process run explicitly refused the experiment because a component cannot be pickled with
    the standard pickler (cloudpickle is absent in this sandbox) - documented behaviour, outside the properties' scope."""
    return any("unable to do so due to a pickle error" in str(x) for x in sink.items)


def sim_summary(sim):
    return {"digest": sim.digest(), "trace": sim.trace, "decisions": sim.n_decisions, "switches": sim.n_switches,
            "sim_s": sim.now, "counters": dict(sim.counters), "states": list(sim.state_sigs)}


# ----------------------------------------------------------------------------- spec generation
def gen_env_group(rng, idx, allow=("linear", "neighbors", "bandit", "tagged", "supervised", "supervised"), small=False):
    if not small and rng.random() < 0.25:
        # a source + filter chain from the read-history generator (wider alphabet of filters); a chunk() is often appended
        from checks import c04
        src = c04.gen_src(rng)
        if src[0] not in ("linear", "neighbors", "bandit", "tagged"):
            ops = c04.gen_ops(rng, src)
            if rng.random() < 0.4:
                ops.append(["chunk", {"cache": rng.random() < 0.8}])
            return {"src": src, "ops": ops}
    if not small and rng.random() < 0.12:
        # data that comes through the shared cache: several environments (and so several workers) want the same entry
        n = weighted(rng, [(3, 1), (8, 2), (20, 1)])
        key = f"ck{rng.randrange(2)}"
        ops = [["shuffle_n", {"n": 1 + rng.randrange(3)}]] if rng.random() < 0.6 else []
        return {"src": ["cached", {"tag": f"C{idx}", "key": key, "n": n, "n_actions": 2 + rng.randrange(2)}], "ops": ops}
    kind = weighted(rng, [(k, 1) for k in allow])
    n = weighted(rng, [(5, 1), (12, 2), (24, 2), (26, 2), (40, 2), (55, 1), (70, 1)]) if not small else weighted(rng, [(3, 1), (6, 2), (10, 1)])
    if kind == "linear":
        src = ["linear", {"n_interactions": n, "n_actions": 2 + rng.randrange(3), "n_context_features": 1 + rng.randrange(3),
                          "n_action_features": rng.randrange(3), "seed": rng.randrange(1, 50)}]
    elif kind == "neighbors":
        src = ["neighbors", {"n_interactions": n, "n_actions": 2 + rng.randrange(3), "n_context_features": 1 + rng.randrange(2),
                             "n_action_features": 1 + rng.randrange(2), "n_neighborhoods": 5, "seed": rng.randrange(1, 50)}]
    elif kind == "bandit":
        src = ["bandit", {"n_interactions": n, "n_actions": 2 + rng.randrange(3), "seed": rng.randrange(1, 50)}]
    elif kind == "supervised":
        m = max(2, n)
        reg = rng.random() < 0.25
        Xs = [[rng.randrange(5), round(rng.random(), 3)] for _ in range(m)]
        Ys = [round(rng.random(), 2) if reg else rng.choice(["a", "b", "c"]) for _ in range(m)]
        src = ["supervised", {"X": Xs, "Y": Ys, "label_type": "r" if reg else "c", "via": weighted(rng, [("xy", 2), ("source", 1)])}]
    else:
        src = ["tagged", {"tag": f"T{idx}", "n": n, "n_actions": 2 + rng.randrange(3), "extra": rng.random() < 0.3,
                          "nested_run": rng.random() < 0.05}]
        # (not generated: "mod_rng", an ENVIRONMENT whose data is drawn with the module-level coba.random functions.  Behind a cache its first
        #  slice is produced by the experiment's peek and the rest lazily inside whichever evaluation reads on first, so what it yields depends
        #  on how tasks are spread over processes; the per-evaluation seeding of 6b3b7fc covers learners, not this.  See DESIGN 10.8.)
    ops = []
    # shared prefix / fan-out structure
    r = rng.random()
    if r < 0.35:
        ops.append(["chunk", {"cache": rng.random() < 0.8}])
    elif r < 0.5:
        ops.append(["cache", {}])
    if rng.random() < 0.5:
        if rng.random() < 0.6:
            ops.append(["shuffle_n", {"n": 1 + rng.randrange(3)}])
        else:
            ops.append(["shuffle_seeds", {"seeds": sorted(rng.sample(range(10), 1 + rng.randrange(2)))}])
    for _ in range(rng.randrange(3)):
        o = weighted(rng, [("take", 3), ("slice", 1), ("scale", 1), ("noise", 1), ("params", 1), ("batch", 1), ("reservoir", 1), ("where", 1), ("sort", 1)])
        if o == "take":
            ops.append(["take", {"n_interactions": max(1, n - rng.randrange(0, max(1, n // 2)))}])
        elif o == "slice":
            ops.append(["slice", {"start": rng.randrange(3), "stop": None if rng.random() < 0.5 else max(4, n - 2)}])
        elif o == "scale" and kind in ("linear", "neighbors", "supervised"):
            ops.append(["scale", {"shift": "min", "scale": "minmax", "using": None if rng.random() < 0.5 else 10}])
        elif o == "noise" and kind in ("linear", "neighbors"):
            ops.append(["noise", {"seed": rng.randrange(1, 9)}])
        elif o == "params":
            ops.append(["params", {"params": {"p": rng.choice([0, 1, 2, "\u00fc\u6587", "x"])}}])
        elif o == "batch" and not any(x[0] == "batch" for x in ops):
            ops.append(["batch", {"batch_size": 1 + rng.randrange(3)}])
        elif o == "reservoir" and not any(x[0] == "batch" for x in ops):
            ops.append(["reservoir", {"n_interactions": max(2, n // 2), "seeds": rng.randrange(1, 5)}])
        elif o == "where" and not any(x[0] == "batch" for x in ops):
            ops.append(["where", {"n_interactions": (None if rng.random() < 0.5 else 3, None)}])
        elif o == "sort" and kind in ("linear", "neighbors") and not any(x[0] == "batch" for x in ops):
            ops.append(["sort", {}])
    if rng.random() < 0.15 and not any(x[0] == "chunk" for x in ops):
        ops.append(["chunk", {"cache": rng.random() < 0.5}])
    if rng.random() < 0.08 and not any(x[0] == "batch" for x in ops):
        ops.append(["materialize", {}])
    return {"src": src, "ops": ops}


def gen_learner(rng, idx, initdraw=False):
    k = weighted(rng, [("random", 2), ("eps", 3), ("ucb", 2), ("counter", 3), ("pmf", 3), ("kwargs", 1), ("corral", 1), ("info", 1.5), ("misguided", 2), ("lowbits", 1.5), ("modrng", 1.5), ("initdraw", 0.6 if initdraw else 0)])
    if k == "initdraw":
        return ["initdraw", {"seed": rng.randrange(1, 9), "tag": f"id{idx}"}]
    if k == "modrng":
        return ["modrng", {"tag": f"mr{idx}"}]
    if k == "lowbits":
        return ["lowbits", {"tag": f"lb{idx}"}]
    if k == "misguided":
        # a wrapper class whose capabilities (score) depend on the wrapped instance
        inner = weighted(rng, [(["eps", {"epsilon": 0.1, "seed": rng.randrange(1, 9)}], 2), (["random", {"seed": rng.randrange(1, 9)}], 1),
                               (["counter", {"k": 2, "tag": f"m{idx}"}], 2), (["pmf", {"tag": f"mp{idx}"}], 1)])
        return ["misguided", {"learner": inner, "shifter": rng.choice([0, 1]), "scaler": rng.choice([1, -1])}]
    if k == "info":
        # publishes through CobaContext.learning_info; sometimes fails right after publishing (what it published must not leak)
        return ["info", {"tag": f"i{idx}", "every": 1 + rng.randrange(3), "raise_at": weighted(rng, [(None, 2), (rng.randrange(8), 1)])}]
    if k == "random":
        return ["random", {"seed": rng.randrange(1, 9)}]
    if k == "eps":
        return ["eps", {"epsilon": weighted(rng, [(0.0, 1), (0.1, 2), (0.5, 1)]), "seed": rng.randrange(1, 9)}]
    if k == "ucb":
        return ["ucb", {"seed": rng.randrange(1, 9)}]
    if k == "counter":
        # (non-ASCII tags end up in params and rows; a lone surrogate is what errors='surrogateescape' gives for an undecodable file name)
        return ["counter", {"k": 1 + rng.randrange(4), "tag": f"c{idx}" + weighted(rng, [("", 6), ("\u00e9", 3), ("\udc80", 1)])}]
    if k == "pmf":
        return ["pmf", {"tag": f"p{idx}"}]
    if k == "kwargs":
        return ["kwargs", {"tag": f"k{idx}"}]
    base2 = weighted(rng, [(["random", {"seed": 3}], 1), (["pmf", {"tag": f"cp{idx}"}], 1)])
    return ["corral", {"learners": [["eps", {"epsilon": 0.1, "seed": 2}], base2], "eta": 0.1,
                       "mode": weighted(rng, [("importance", 1), ("off-policy", 1)]), "seed": rng.randrange(1, 9)}]


def gen_evaluator(rng):
    k = weighted(rng, [("seqcb", 6), ("fn", 1)])
    if k == "fn":
        return ["fn", {}]
    rec = weighted(rng, [(["reward", "action", "probability"], 3), (["reward"], 1), (["reward", "action", "probability", "time"], 1),
                         (["reward", "context", "actions", "rewards"], 1)])
    return ["seqcb", {"record": rec, "learn": weighted(rng, [("on", 5), (None, 1)]), "eval": "on",
                      "seed": weighted(rng, [(None, 3), (7, 1)])}]


def _flavour_ops(rng, group, flavour):
    """Insert the flavour's transforming filter (logged / grounded) at a random legal position."""
    ops = [o for o in group["ops"] if o[0] not in ("batch",)]
    if flavour == "logged":
        new = ["logged", {"learner": weighted(rng, [(["random", {"seed": 2}], 2), (["eps", {"epsilon": 0.2, "seed": 3}], 1)]),
                          "seed": weighted(rng, [(1.23, 2), (4, 1)])}]
    else:
        new = ["grounded", {"n_users": 4, "n_normal": 2, "n_words": 4, "n_good": 2, "seed": rng.randrange(1, 6)}]
    pos = rng.randrange(len(ops) + 1)
    ops.insert(pos, new)
    group["ops"] = ops
    return group


def gen_spec(rng, max_groups=3, small=False, flavours=(("sim", 5), ("logged", 2), ("grounded", 1)), initdraw=False):
    n_groups = 1 + rng.randrange(max_groups)
    flavour = weighted(rng, list(flavours))
    if flavour == "sim":
        groups = [gen_env_group(rng, i, small=small) for i in range(n_groups)]
        evals = [gen_evaluator(rng) for _ in range(weighted(rng, [(1, 4), (2, 1)]))]
    elif flavour == "logged":
        groups = [_flavour_ops(rng, gen_env_group(rng, i, small=small), "logged") for i in range(n_groups)]
        evals = []
        for _ in range(weighted(rng, [(1, 3), (2, 1)])):
            k = weighted(rng, [("rej", 2), ("off", 2), ("ips", 2), ("on", 1)])
            if k == "rej":
                evals.append(["rejection", {"seed": weighted(rng, [(None, 2), (3, 1)])}])
            elif k == "off":
                evals.append(["seqcb", {"learn": "off", "eval": weighted(rng, [("ips", 2), ("on", 1)]), "seed": None}])
            elif k == "ips":
                evals.append(["seqcb", {"learn": "ips", "eval": "ips", "seed": None}])
            else:
                evals.append(["seqcb", {"learn": "on", "eval": "on", "seed": None}])
    else:
        groups = [_flavour_ops(rng, gen_env_group(rng, i, allow=("bandit", "tagged"), small=small), "grounded") for i in range(n_groups)]
        evals = [["igl", {"seed": weighted(rng, [(None, 2), (5, 1)])}]]
    spec = {"envs": groups, "flavour": flavour,
            "learners": [gen_learner(rng, i, initdraw) for i in range(1 + rng.randrange(3))],
            "evaluators": evals,
            "seed": weighted(rng, [(1, 2), (rng.randrange(2, 99), 1)]),
            "quiet": rng.random() < 0.8,
            # non-ASCII text ends up in the transaction log (description, params, tags)
            "description": weighted(rng, [(None, 2), ("sim", 1), ("d\u00e9scr \u65e5\u672c \U0001F600", 1)])}
    if n_groups > 1 and flavour == "sim" and rng.random() < 0.25:
        spec["joint_ops"] = [weighted(rng, [(["scale", {"shift": weighted(rng, [("min", 2), ("mean", 1), (0, 1)]), "scale": weighted(rng, [("minmax", 2), ("std", 1), ("maxabs", 1)]),
                                                      "using": weighted(rng, [(None, 2), (5, 1)])}], 3),
                                           (["impute", {"stats": ["mean"], "indicator": False, "using": None}], 1),
                                           (["noise", {"seed": rng.randrange(1, 9)}], 1)])]
    if "modrng" in json.dumps(spec["learners"]):
        # (a run nested inside an environment's read seeds the module-level generator - as every run does for its own evaluations - in the
        #  middle of the outer evaluation; together with a learner that draws from that generator the outcome depends on where the read
        #  happens.  Two rarities at once; not combined)
        for g in spec["envs"]:
            g["src"][1].pop("nested_run", None)
    if rng.random() < 0.6:
        spec["shape"] = "product"
        spec["default_evaluator"] = len(spec["evaluators"]) == 1 and spec["evaluators"][0][0] == "seqcb" and rng.random() < 0.2
    else:
        spec["shape"] = "tuples"
        n = 2 + rng.randrange(7)
        spec["tuples"] = [[rng.randrange(8), rng.randrange(4), weighted(rng, [(None, 1), (rng.randrange(3), 3)])] for _ in range(n)]
        # de-duplicate exact repeats half of the time (repeated triples are legal and interesting)
        if rng.random() < 0.5:
            seen, tl = set(), []
            for t in spec["tuples"]:
                if tuple(t) not in seen:
                    seen.add(tuple(t))
                    tl.append(t)
            spec["tuples"] = tl
    return spec


def gen_config(rng):
    p = weighted(rng, [(1, 2), (2, 4), (3, 3), (4, 1)])
    mc = weighted(rng, [(0, 3), (1, 3), (2, 2), (3, 1)])
    mt = weighted(rng, [(0, 3), (1, 3), (2, 2), (3, 1)])
    if p == 1 and mc == 0:
        mc = 1 + rng.randrange(2)
    return [p, mc, mt]


def gen_knobs(rng):
    return {"feeder_delay": rng.random() < 0.4, "pipe_cap": weighted(rng, [(None, 5), (2, 1)]),
            "p_stay": weighted(rng, [(0.0, 1), (0.5, 2), (0.9, 2)]),
            "opcode_plan": sorted(rng.randrange(1, 1500) for _ in range(1 + rng.randrange(4))) if rng.random() < 0.15 else None,
            "opcode_dense": [weighted(rng, [("filter_finished_or_failed", 4), ("__init__", 1), ("start", 2), ("loader_finished_or_failed", 1),
                                            ("join_and_call", 1), ("_get_result", 1)]), 1 + rng.randrange(8)] if rng.random() < 0.12 else None}
