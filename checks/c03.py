"""C03 - Each evaluation is isolated from every other evaluation.

together-run (sampled configuration + schedule, component failures injected) versus, for
every triple, the alone-run of that triple built from pristine objects."""
import copy
import json

from checks.common import vio, weighted
from checks import expsim as X
from checks.c01 import shrink_spec_cfg


def triple_ids(exp):
    """Replicates MakeTasks' id assignment (order of first appearance)."""
    envs, lrns, vals, out = {}, {}, {}, []
    for env, lrn, val in exp._triples:
        envs.setdefault(env, len(envs))
        lrns.setdefault(lrn, len(lrns))
        vals.setdefault(val, len(vals))
        out.append((envs[env], lrns[lrn], vals[val]))
    return out


def rows_of(tabs, ids):
    e, l, v = ids
    rows = [dict(r) for r in tabs["interactions"] if (r["environment_id"], r["learner_id"], r["evaluator_id"]) == (e, l, v)]
    for r in rows:
        for k in ("environment_id", "learner_id", "evaluator_id"):
            r.pop(k)
    return rows


def snapshot(obj):
    try:
        return copy.deepcopy(getattr(obj, "__dict__", None))
    except Exception:
        return None


def gen_lookahead_spec(rng):
    """A pattern the general generator reaches too rarely: one logged, cached environment that is longer than what an off-policy
    evaluator reads ahead (RejectionCB: 100), a learner that reports through learning_info judged by that evaluator, and other
    triples on the same environment judged by an evaluator that copies the interactions' extra fields into its rows."""
    n = weighted(rng, [(110, 1), (130, 2), (160, 2)])
    env = {"src": ["tagged", {"tag": "T0", "n": n, "n_actions": 2 + rng.randrange(2), "extra": False, "ctx_list": False}],
           "ops": [["logged", {"learner": ["random", {"seed": 2}], "seed": 1.23}], weighted(rng, [(["chunk", {"cache": True}], 2), (["cache", {}], 1)])]}
    learners = [["info", {"tag": "i0", "every": 1 + rng.randrange(3), "raise_at": None}], ["random", {"seed": 1 + rng.randrange(5)}]]
    if rng.random() < 0.5:
        learners.append(X.gen_learner(rng, 2))
    rng.shuffle(learners)
    evaluators = [["rejection", {"seed": weighted(rng, [(None, 1), (3, 1)])}], ["seqcb", {"learn": "off", "eval": "ips", "seed": None}]]
    info_idx = next(i for i, l in enumerate(learners) if l[0] == "info")
    tuples = [[0, info_idx, 0]] + [[0, i, 1] for i in range(len(learners)) if i != info_idx]
    rng.shuffle(tuples)
    return {"envs": [env], "learners": learners, "evaluators": evaluators, "seed": weighted(rng, [(1, 2), (rng.randrange(2, 50), 1)]),
            "quiet": True, "description": None, "flavour": "sim", "shape": "tuples", "tuples": tuples}


def gen_fault_spec(rng):
    """Experiment with sharing patterns and (for odd indices) injected component failures."""
    if rng.random() < 0.04:
        return gen_lookahead_spec(rng)
    n_env = 1 + rng.randrange(3)
    groups = []
    for i in range(n_env):
        n = weighted(rng, [(4, 1), (12, 2), (26, 2), (30, 2), (45, 2), (60, 1), (130, 0.5), (160, 0.5)])      # (RejectionCB looks 100 interactions ahead)
        g = {"src": ["tagged", {"tag": f"T{i}", "n": n, "n_actions": 2 + rng.randrange(2), "extra": rng.random() < 0.2,
                               "ctx_list": rng.random() < 0.4, "nested_run": rng.random() < 0.04}], "ops": []}
        r = rng.random()
        if r < 0.45:
            g["ops"].append(["chunk", {"cache": rng.random() < 0.85}])
        elif r < 0.6:
            g["ops"].append(["cache", {}])
        if rng.random() < 0.4:
            g["ops"].append(["shuffle_n", {"n": 1 + rng.randrange(2)}])
        if rng.random() < 0.3:
            g["ops"].append(["take", {"n_interactions": max(2, n - rng.randrange(n // 2 + 1))}])
        if rng.random() < 0.2:
            g["ops"].append(["batch", {"batch_size": 1 + rng.randrange(3)}])     # batched and unbatched environments in one experiment
        groups.append(g)
    learners = []
    for i in range(1 + rng.randrange(3)):
        learners.append(X.gen_learner(rng, i))
    if rng.random() < 0.35:
        learners.append(["info", {"tag": f"i{len(learners)}", "every": 1 + rng.randrange(3),
                                  "raise_at": weighted(rng, [(None, 1), (rng.randrange(6), 2)])}])
    evaluators = [X.gen_evaluator(rng) for _ in range(weighted(rng, [(1, 3), (2, 1)]))]
    if rng.random() < 0.18:
        # logged flavour: every environment is turned into logged data (different action counts and logging policies give different
        # logged probabilities) and the triples are judged by off-policy evaluators - one (stateless!) evaluator object for all triples
        groups = [X._flavour_ops(rng, g, "logged") for g in groups]
        evaluators = [weighted(rng, [(["rejection", {"seed": weighted(rng, [(None, 2), (3, 1)])}], 3),
                                     (["seqcb", {"learn": "off", "eval": "ips", "seed": None}], 1),
                                     (["seqcb", {"learn": "ips", "eval": "ips", "seed": None}], 1)])
                      for _ in range(weighted(rng, [(1, 3), (2, 1)]))]
    spec = {"envs": groups, "learners": learners, "evaluators": evaluators, "seed": weighted(rng, [(1, 2), (rng.randrange(2, 50), 1)]),
            "quiet": True, "description": None, "flavour": "sim"}
    if n_env > 1 and rng.random() < 0.2:
        # ONE filter object in every environment's pipeline (what Environments(...).scale() gives), environments with different statistics
        for i, g in enumerate(groups):
            if g["src"][0] == "tagged":
                g["src"][1]["ctx_shift"] = i
        spec["joint_ops"] = [weighted(rng, [(["scale", {"shift": weighted(rng, [("min", 2), ("mean", 1), (0, 1)]),
                                                       "scale": weighted(rng, [("minmax", 2), ("std", 1), ("maxabs", 1)]),
                                                       "using": weighted(rng, [(None, 2), (5, 1)])}], 3),
                                            (["impute", {"stats": ["mean"], "indicator": False, "using": None}], 1)])]
    if "modrng" in json.dumps(spec["learners"]):
        # (a run nested inside an environment's read seeds the module-level generator - as every run does for its own evaluations - in the
        #  middle of the outer evaluation; together with a learner that draws from that generator the outcome depends on where the read
        #  happens.  Two rarities at once; not combined)
        for g in spec["envs"]:
            g["src"][1].pop("nested_run", None)
    if rng.random() < 0.5:
        spec["shape"] = "product"
        spec["default_evaluator"] = False
    else:
        spec["shape"] = "tuples"
        spec["tuples"] = [[rng.randrange(8), rng.randrange(4), weighted(rng, [(None, 1), (rng.randrange(3), 3)])]
                          for _ in range(2 + rng.randrange(6))]
    return spec


def add_faults(rng, spec):
    kinds = []
    for _ in range(1 + (rng.random() < 0.3)):
        k = weighted(rng, [("env_read", 4), ("lrn_predict", 3), ("lrn_learn", 3), ("lrn_params", 1), ("lrn_copy", 1.5), ("evaluator", 2), ("env_params", 1), ("val_params", 1)])
        kinds.append(k)
        if k == "env_read":
            g = spec["envs"][rng.randrange(len(spec["envs"]))]
            n = g["src"][1]["n"]
            g["src"][1]["fail_at"] = weighted(rng, [(0, 1), (1, 1), (min(n - 1, 24), 1), (min(n - 1, 25), 2), (min(n - 1, 26), 1),
                                                     (rng.randrange(n), 3), (n - 1, 1)])
        elif k == "env_params":
            # (Environments.shuffle looks at params while the pipeline is being built: only groups without a shuffle)
            gs = [g for g in spec["envs"] if not any(o[0].startswith("shuffle") for o in g["ops"])]
            if gs:
                gs[rng.randrange(len(gs))]["src"][1]["params_raise"] = True
        elif k == "val_params":
            vi = rng.randrange(len(spec["evaluators"]))
            spec["evaluators"][vi] = ["faultyval", {"inner": spec["evaluators"][vi], "fail_after": 10 ** 6, "tag": f"v{vi}", "params_raise": True}]
        elif k in ("lrn_predict", "lrn_learn", "lrn_params", "lrn_copy"):
            where = k.split("_")[1]
            tagged = [g["src"][1]["tag"] for g in spec["envs"]]
            spec["learners"].insert(rng.randrange(len(spec["learners"]) + 1),
                                    ["faulty", {"where": where, "k": weighted(rng, [(0, 2), (1, 1), (rng.randrange(30), 3)]),
                                                "env_tag": weighted(rng, [(None, 1), (tagged[rng.randrange(len(tagged))], 2)]),
                                                "tag": f"f{len(spec['learners'])}", "same_obj": rng.random() < 0.25}])
        else:
            vi = rng.randrange(len(spec["evaluators"]))
            spec["evaluators"][vi] = ["faultyval", {"inner": spec["evaluators"][vi], "fail_after": weighted(rng, [(0, 1), (rng.randrange(30), 2)]),
                                                    "tag": f"v{vi}"}]
    return kinds


class C03:
    prop = "C03"
    state_measure = ("of the simulated multi-process run(s): per queue (pipe length, outstanding count) x per live task (task kind, kind of "
                     "thing it is blocked on), sampled at every scheduler decision; hashed; distinct values counted")
    level = "exploration"
    design_ref = "DESIGN.md 3.3"
    tiers = {"quick": {"runs": 4000, "budget_s": 80, "chunk": 10, "twice_every": 8, "shrink_s": 60},
             "thorough": {"runs": 250000, "budget_s": 840, "chunk": 8, "twice_every": 16, "shrink_s": 180}}
    rule = ("one run = one experiment with a sampled sharing pattern (learner / environment / evaluator objects listed in several "
            "triples, shared chunk()/cache() prefixes, shuffle fan-out, cross product or tuple list; simulated or logged data with off-policy evaluators), component failures injected at "
            "sampled positions (environment read at index k incl. around the 25-item cache slice, learner predict/learn at its k-th "
            "call for a chosen environment, learner params, deep copy of a shared learner, optionally the very same exception object every time, evaluator after k rows; none in even-indexed runs), executed under a "
            "sampled configuration and seeded schedule, compared triple by triple with the alone-run of each triple on pristine "
            "objects; non-trivial = at least two triples with rows or a fired failure; distinct = distinct event-log digest + spec")
    assumptions = ["injected failures are functions of the component's own local history, so alone and together are comparable",
                   "worker processes are simulated", "optional packages absent"]
    real_components = ["Experiment.run", "MakeTasks", "ChunkTasks", "ProcessTasks (deepcopy / per-task try-except)", "CobaMultiprocessor",
                       "Multiprocessor", "environments.Cache / pipes.Cache / Chunk / Shuffle / Take", "SequentialCB", "SafeLearner",
                       "TransactionEncode/Decode/Result", "loggers (ExceptionLogger, stdlog queue)"]
    stub_components = ["multiprocessing spawn context and threading as in C01", "harness components (FaultyLearner, TaggedEnv, FaultyEvaluator, InfoLearner)"]

    def gen(self, rng, tier, index):
        spec = gen_fault_spec(rng)
        if rng.random() < 0.15:
            # coba's default logger, not quiet, possibly with the whole run inside a timing block of the caller's
            spec["logger"], spec["quiet"], spec["outer_time"] = "indent", False, rng.random() < 0.6
        kinds = add_faults(rng, spec) if index % 2 == 1 else []
        config = X.gen_config(rng) if rng.random() < 0.7 else [1, 0, 0]
        return {"spec": spec, "config": config, "knobs": X.gen_knobs(rng), "faults": kinds,
                "result_file": weighted(rng, [(None, 3), ("plain", 1), ("gz", 0.5)])}

    def run(self, cfg, seed, choices=None):
        import hashlib, json
        spec, config = cfg["spec"], cfg["config"]
        out = {"counters": {}, "trace": [], "decisions": 0, "switches": 0, "sim_s": 0.0}
        # ---- together
        if config == [1, 0, 0]:
            rf_dir = None
            try:
                X.build_experiment(spec)
            except Exception:
                return {"digest": "invalid", "trace": [], "nontrivial": False, "violation": None, "counters": {"invalid_spec": 1}, "sample": None}
            try:
                if cfg.get("result_file"):
                    # the together-run writes a result file (the recording stage is part of "every other triple still completes and is recorded")
                    import os, tempfile
                    rf_dir = tempfile.mkdtemp(prefix="c03_", dir="/dev/shm" if os.path.isdir("/dev/shm") else None)
                    res, objs, log = X.run_inproc(spec, result_file=os.path.join(rf_dir, "r.log" + (".gz" if cfg["result_file"] == "gz" else "")), config=tuple(config))
                    out["counters"]["reach.together_run_with_result_file"] = 1
                else:
                    res, objs, log = X.run_inproc(spec, config=tuple(config))
            except BaseException as e:
                if type(e).__name__ in ("SimKill", "KeyboardInterrupt"):
                    raise
                # (CobaExit is a BaseException: Experiment.run gave up on the whole experiment)
                import hashlib, json
                return {"digest": hashlib.blake2b(json.dumps(cfg, sort_keys=True).encode(), digest_size=16).hexdigest(), "trace": [], "nontrivial": True,
                        "violation": vio("run_raised", f"Experiment.run (in-process) raised {type(e).__name__}: {str(e)[:300]}"),
                        "counters": {}, "sample": {"spec": spec, "config": config}}
            finally:
                if rf_dir:
                    import shutil
                    shutil.rmtree(rf_dir, ignore_errors=True)
            exp_ids = None
            outcome = "done"
            digest_src = "inproc"
            sim = None
            shared_before = None
        if config != [1, 0, 0]:
            try:
                exp, objs = X.build_experiment(spec)
            except Exception:
                return {"digest": "invalid", "trace": [], "nontrivial": False, "violation": None, "counters": {"invalid_spec": 1}, "sample": None}
            sim, outcome, res, objs, log = X.run_simulated(spec, config, seed, choices, knobs=cfg["knobs"], prebuilt=(exp, objs))
            out.update(X.sim_summary(sim))
            digest_src = out["digest"]
            if outcome in ("deadlock", "livelock"):
                out["violation"] = vio(outcome, f"{outcome} under {config}: {sim.outcome_info}")
                out["nontrivial"] = True
                out["sample"] = {"spec": spec, "config": config}
                return out
            if "exc" in sim.result:
                out["violation"] = vio("run_raised", f"Experiment.run raised: {sim.result['exc']!r} {sim.result.get('tb', '')[-1200:]}")
                out["nontrivial"] = True
                out["sample"] = {"spec": spec, "config": config}
                return out
            if X.refused_to_pickle(log):
                out.update(violation=None, violations=[], nontrivial=False, sample=None)
                out["counters"]["skipped_not_picklable_without_cloudpickle"] = 1
                return out
        # a second, untouched build gives the ids and the pre-run snapshots (objects are rebuilt identically)
        from checks import components as K
        tog_calls = list(sim.user.get("calls", [])) if sim is not None else K.take_outside_calls()
        tog_injected = {c[1] for c in tog_calls if c[0] == "injected"}
        exp2, objs2 = X.build_experiment(spec)
        ids = triple_ids(exp2)
        t_tog = X.tables(res)
        log_text = "\n".join(map(str, log.items))
        # ---- alone runs
        vios = []
        n_with_rows = 0
        n_failed_alone = 0
        seen = set()
        for i, tid in enumerate(ids):
            if tid in seen:
                continue
            seen.add(tid)
            exp_a, objs_a = X.build_experiment(spec)
            env, lrn, val = exp_a._triples[i]
            import coba as cb
            from checks.common import quiet_context, ListSinkH
            sink = ListSinkH()
            quiet_context(sink)
            kw = {"quiet": True}
            if "seed" in spec:
                kw["seed"] = spec["seed"]
            K.take_outside_calls()
            from sim.world import reset_coba_globals
            reset_coba_globals()       # "alone" = a fresh interpreter
            r_alone = cb.Experiment([(env, lrn, val)]).run(**kw)
            alone_calls = K.take_outside_calls()
            eval_injected = {c[1] for c in alone_calls if c[0] == "injected" and c[2] == "eval"}
            t_alone = X.tables(r_alone)
            rows_a = rows_of(t_alone, (0, 0, 0))
            rows_t = rows_of(t_tog, tid)
            alone_log = "\n".join(map(str, sink.items))
            if rows_a:
                n_with_rows += 1
            l2 = exp2._triples[i][1]
            lspec = next((spec["learners"][j] for j, l in enumerate(objs2["lrns"]) if l is l2 or getattr(l2, "learner", None) is l), ["?", {}])
            if lspec[0] == "faulty" and lspec[1]["where"] == "copy" and f"copy:{lspec[1]['tag']}" in tog_injected:
                # the learner cannot be deep-copied: alone it is not copied at all, listed for several triples the copy raises - which is
                # this triple's failure (reported, no rows) and nobody else's
                out["counters"]["fault.shared_learner_copy_raise_fired"] = out["counters"].get("fault.shared_learner_copy_raise_fired", 0) + 1
                if rows_t:
                    vios.append(vio("failed_triple_recorded", f"triple #{i} ids={tid}: its learner's deep copy raised, yet {len(rows_t)} rows were recorded"))
                if f"copy:{lspec[1]['tag']}" not in log_text:
                    vios.append(vio("exception_not_logged", f"triple #{i} ids={tid}: the learner's deep copy raised but the log does not mention it"))
                continue
            if eval_injected:
                n_failed_alone += 1
                # independent of the alone/together comparison: a failing triple yields nothing
                if rows_a or rows_of(t_tog, tid):
                    vios.append(vio("failing_triple_has_rows", f"triple #{i} ids={tid}: {sorted(eval_injected)} was raised while it was "
                                                               f"evaluated, yet {len(rows_of(t_tog, tid))} rows (alone: {len(rows_a)}) were recorded"))
            if rows_t != rows_a:
                if rows_a and not rows_t:
                    cls, what = "triple_lost", f"alone it yields {len(rows_a)} rows, in the experiment none"
                elif rows_t and not rows_a:
                    cls, what = "failed_triple_recorded", f"alone it fails and yields nothing, in the experiment {len(rows_t)} rows were recorded"
                else:
                    d = next((j for j, (a, b) in enumerate(zip(rows_t, rows_a)) if a != b), min(len(rows_t), len(rows_a)))
                    cls, what = "rows_depend_on_other_triples", (f"{len(rows_t)} rows together vs {len(rows_a)} alone; first difference at row {d}: "
                                                                 f"{rows_t[d] if d < len(rows_t) else None} vs {rows_a[d] if d < len(rows_a) else None}")
                vios.append(vio(cls, f"triple #{i} ids={tid} config={config}: {what}"))
            # an exception raised while this triple was evaluated must be reported in the experiment's log
            for tag in sorted(eval_injected & tog_injected):
                if tag not in log_text:
                    vios.append(vio("exception_not_logged", f"triple #{i} ids={tid}: {tag!r} was raised during its evaluation but the "
                                                            f"experiment log does not mention it"))
        # ---- shared learner objects untouched (in-process together run only: workers get pickled copies anyway)
        if config == [1, 0, 0]:
            from collections import Counter
            cnt = Counter(l for _, l, _ in objs["triples"])
            for li, n in cnt.items():
                if n > 1 and X.state_sig(objs["lrns"][li]) != X.state_sig(objs2["lrns"][li]):
                    vios.append(vio("shared_learner_mutated", f"learner #{li} ({spec['learners'][li]}) is listed in {n} triples and "
                                                               f"was changed by run(): {X.state_sig(objs['lrns'][li])} vs pristine "
                                                               f"{X.state_sig(objs2['lrns'][li])}"))
                    break
            out["counters"]["reach.shared_learner_checked"] = sum(1 for n in cnt.values() if n > 1)
        out["counters"]["alone_runs"] = len(seen)
        out["counters"]["triples_with_rows"] = n_with_rows
        out["counters"]["fault.component_raise_fired"] = n_failed_alone
        out["counters"]["reach.failure_at_or_after_cache_slice"] = int(any(
            g["src"][1].get("fail_at") is not None and g["src"][1]["fail_at"] >= 25 and any(o[0] in ("chunk", "cache") for o in g["ops"])
            for g in spec["envs"]))
        if "digest" not in out:
            out["digest"] = hashlib.blake2b(json.dumps(cfg, sort_keys=True).encode(), digest_size=16).hexdigest()
        else:
            out["digest"] = hashlib.blake2b((out["digest"] + json.dumps(spec, sort_keys=True)).encode(), digest_size=16).hexdigest()
        out["nontrivial"] = n_with_rows >= 2 or n_failed_alone > 0
        out["violations"] = vios
        out["violation"] = vios[0] if vios else None
        out["sample"] = {"spec": spec, "config": config, "faults": cfg.get("faults"), "alone_runs": len(seen),
                         "triples_with_rows_alone": n_with_rows, "triples_failing_alone": n_failed_alone}
        return out

    def shrink(self, cfg):
        yield from shrink_spec_cfg(cfg)
        spec = cfg["spec"]
        for gi, g in enumerate(spec["envs"]):
            fa = g["src"][1].get("fail_at")
            if fa is not None and fa > 0:
                c = copy.deepcopy(cfg); c["spec"]["envs"][gi]["src"][1]["fail_at"] = fa - 1 if fa <= 26 else 26; yield c
        if cfg["config"] != [1, 0, 0]:
            c = copy.deepcopy(cfg); c["config"] = [1, 0, 0]; yield c


def _tags(text):
    import re
    return re.findall(r"Injected: ([a-z]+:[A-Za-z0-9:]+)", text)


def _triples_of(objs):
    return [(objs["envs"][e], objs["lrns"][l], objs["vals"][v] if v is not None else None) for e, l, v in objs["triples"]]


def make():
    return C03()
