"""C07 - The result log faithfully records what evaluators produced.

Recording evaluators yield generated rows; components carry generated params.  Each experiment is
executed (a) without a file on the simulated multiprocessing layer, (b) with a plain file,
(c) with a .gz file, (d) interrupted at a record boundary and resumed; conservation of rows and
params is checked over the recorded history and all Results / Result.from_file must agree."""
import copy
import math
import os
import shutil
import tempfile

from checks.common import vio, weighted, quiet_context, ListSinkH
from checks import expsim as X
from checks import components as K

TMP_ROOT = "/dev/shm" if os.path.isdir("/dev/shm") else tempfile.gettempdir()
RESERVED = {"environment_id", "learner_id", "evaluator_id", "index", "_packed"}


# ----------------------------------------------------------------------------- JSON codec for generated values
dec = K.dec


def gen_scalar(rng):
    k = weighted(rng, [("int", 3), ("float", 4), ("str", 3), ("none", 1), ("bool", 1), ("special", 1)])
    if k == "int":
        return rng.choice([0, 1, -1, 7, 10 ** 6, rng.randrange(-50, 50)])
    if k == "float":
        if rng.random() < 0.06:
            # finite floats at the ends of the range ("unbounded" sentinels such as sys.float_info.max, subnormals)
            return rng.choice([1.7976931348623157e308, -1.7976931348623157e308, 1e305, 5e-324, -2.5e-310, 9007199254740993.0])
        return rng.choice([0.5, 1.0, -2.0, 0.123456789, 1e-7, 123456.7890123, 2.5e-6, rng.random(), round(rng.random(), 3), 1 / 3])
    if k == "str":
        return rng.choice(["", "a", "hello world", "quo\"te", "back\\slash", "new\nline", "tab\t", "unié日本", "\U0001F600", "1", "null", "NaN", " ", "lone\ud83dsurrogate", "\u2028"])
    if k == "none":
        return None
    if k == "bool":
        return rng.random() < 0.5
    return {"__float__": rng.choice(["nan", "inf", "-inf"])}


def gen_value(rng, depth=0):
    r = rng.random()
    if depth >= 2 or r < 0.6:
        return gen_scalar(rng)
    if r < 0.75:
        return [gen_value(rng, depth + 1) for _ in range(rng.randrange(4))]
    if r < 0.88:
        return {"__tuple__": [gen_value(rng, depth + 1) for _ in range(rng.randrange(4))]}
    if rng.random() < 0.3:
        # a mapping whose only key is a name that coba.json knows as a registered type tag
        return {rng.choice(["L1", "BR", "HR", "DR", "zip", "__tuple"]): gen_scalar(rng)}
    return {f"k{i}": gen_value(rng, depth + 1) for i in range(rng.randrange(3))}


def gen_key(rng, used):
    for _ in range(20):
        k = weighted(rng, [("str", 8), ("int", 1), ("float", 1), ("none", 0.3), ("eqint", 0.6)])
        if k == "str":
            key = rng.choice(["reward", "action", "probability", "a", "b", "c", "x y", "ké", "rewards", "z", "Z", "0", "L1", "BR", "zip"])
        elif k == "int":
            key = rng.randrange(1, 5)
        elif k == "float":
            key = rng.choice([0.5, 2.25])
        elif k == "eqint":
            key = rng.choice([1.0, True, 2.0, 0.0, False])      # equal to (and hashing like) an int, but printing differently
        elif k == "bool":
            key = True
        else:
            key = None
        # within one set of rows two names must neither print the same nor compare equal (1, 1.0 and True are one dict key)
        clash = str(key) in used or str(key) in RESERVED or any((not isinstance(u, str)) and u == key for u in used)
        if not clash:
            used.add(str(key))
            if key is not None and not isinstance(key, str):
                used.add(key)
            return key
    return None if "None" not in used and not used.add("None") else f"k{len(used)}"


def gen_rows(rng, homogeneous):
    n = weighted(rng, [(0, 1), (1, 2), (2, 3), (3, 2), (5, 1)])
    used = set()
    keys = [gen_key(rng, used) for _ in range(1 + rng.randrange(4))]
    rows = []
    col_kind = {}
    for _ in range(n):
        row = []
        for k in keys:
            if not homogeneous and rng.random() < 0.25:
                continue            # ragged key sets
            if homogeneous:
                kind = col_kind.setdefault(str(k), rng.choice(["scalar", "list", "any"]))
                if kind == "scalar":
                    v = gen_scalar(rng)
                elif kind == "list":
                    v = [gen_scalar(rng) for _ in range(rng.randrange(3))]
                else:
                    v = gen_value(rng)
            else:
                v = gen_value(rng)
            row.append([k, v])
        if rng.random() < 0.4:
            rng.shuffle(row)          # same keys, filled in a different order
        rows.append({"__row__": row})
    return rows


def gen_params(rng):
    return {f"p{i}": gen_value(rng, 1) for i in range(rng.randrange(4))}


# ----------------------------------------------------------------------------- comparison up to the documented normalisation
def _sr(v):
    """repr that cannot fail (a value read back under a changed tree may be an object whose own repr raises)."""
    try:
        return repr(v)
    except Exception as e:
        return f"<{type(v).__name__}: repr raised {type(e).__name__}>"


def same(exp, got):
    """exp: value produced by the component; got: value read from the Result."""
    from coba.results.core import Missing
    if got is Missing:
        got = None
    if isinstance(exp, bool) or isinstance(got, bool):
        return exp == got and type(exp) == type(got) or (exp == got and isinstance(exp, (int, bool)) and isinstance(got, (int, bool)))
    if isinstance(exp, (int, float)) and isinstance(got, (int, float)):
        if isinstance(exp, float) and math.isnan(exp):
            return isinstance(got, float) and math.isnan(got)
        if isinstance(exp, float) and math.isinf(exp):
            return got == exp
        return abs(exp - got) <= 1.0000001e-5
    if isinstance(exp, (list, tuple)):
        return isinstance(got, (list, tuple)) and len(exp) == len(got) and all(same(a, b) for a, b in zip(exp, got))
    if isinstance(exp, dict):
        if not isinstance(got, dict):
            return False
        e = {str(k): v for k, v in exp.items()}
        g = {str(k): v for k, v in got.items()}
        return set(k for k, v in e.items() if v is not None) <= set(g) and all(same(e.get(k), g.get(k)) for k in set(e) | set(g))
    return exp == got and (exp is None) == (got is None)


def same_row(exp_row, got_row):
    e = {str(k): v for k, v in exp_row.items()}
    g = {k: v for k, v in got_row.items() if k not in ("environment_id", "learner_id", "evaluator_id", "index")}
    for k in set(e) | set(g):
        if not same(e.get(k), g.get(k)):
            return k
    # the documented normalisation itself: a top-level sequence is read back as a tuple (the 'rewards' column is exempt in the decoder)
    for k in e:
        if isinstance(e[k], (list, tuple)) and k != "rewards" and not isinstance(g.get(k), tuple):
            return k
    return None


class C07:
    prop = "C07"
    state_measure = ("of the simulated multi-process run(s): per queue (pipe length, outstanding count) x per live task (task kind, kind of "
                     "thing it is blocked on), sampled at every scheduler decision; hashed; distinct values counted")
    level = "exploration"
    design_ref = "DESIGN.md 3.6"
    tiers = {"quick": {"runs": 4000, "budget_s": 80, "chunk": 10, "twice_every": 12, "shrink_s": 60},
             "thorough": {"runs": 200000, "budget_s": 840, "chunk": 12, "twice_every": 24, "shrink_s": 180}}
    rule = ("one run = one experiment whose recording evaluators yield PRNG-generated rows (ragged or homogeneous key sets, nested "
            "lists/tuples/dicts, None, NaN/inf, unicode, newlines, quotes, non-string keys) and whose components carry generated params, "
            "executed without a file on simulated workers under a seeded schedule, with a plain file, with a .gz file, and interrupted "
            "at a record boundary then resumed; non-trivial = at least one triple with >= 1 row; distinct = digest of (spec, event log)")
    assumptions = ["row values are JSON-representable (plus tuples); nested dict keys are strings; top-level keys have distinct str()",
                   "reserved column names (ids, index, _packed) are not used as row keys",
                   "float comparison allows 1e-5 (either rounding direction of the documented 5-decimals normalisation)",
                   "the type of nested sequences (list vs tuple) and int-vs-float representation never decide a violation; top-level sequences must be read back as tuples (the rewards column aside)",
                   "interruption after the experiment record, at a record boundary or inside the next record (exhaustive torn-tail offsets belong to C02)"]
    real_components = ["Experiment.run", "TransactionEncode/Decode/Result", "coba.json", "minimize", "DiskSink/DiskSource (plain and .gz, real files)",
                       "ListSink/ListSource", "MakeTasks (restore path)", "ProcessTasks", "CobaMultiprocessor/Multiprocessor", "Table.insert"]
    stub_components = ["multiprocessing/threading primitives (as C01)", "recording evaluators / learners / environments (harness)"]

    def gen(self, rng, tier, index):
        homogeneous = rng.random() < 0.5
        n_env, n_lrn = 1 + rng.randrange(2), 1 + rng.randrange(2)
        envs = [{"src": ["tagged", {"tag": f"T{i}", "n": 2, "n_actions": 2}],
                 "ops": ([["params", {"params": gen_params(rng)}]] if rng.random() < 0.5 else [])
                        # (a chunked environment keeps all its tasks - and one copy of their evaluator - together on one worker)
                        + ([["chunk", {"cache": rng.random() < 0.5}]] if rng.random() < 0.4 else [])} for i in range(n_env)]
        lrns = [["plearner", {"tag": f"l{i}", "params": gen_params(rng)}] for i in range(n_lrn)]
        if n_lrn == 2 and rng.random() < 0.15:
            # two learners of different classes that were given one and the same config dict (which names no family)
            lrns[0][1]["share"] = lrns[1][1]["share"] = "cfg"
            lrns[1][0] = "plearnerB"
            lrns[1][1]["params"] = lrns[0][1]["params"]
        rows_by = {}
        for i in range(n_env):
            for j in range(n_lrn):
                rows_by[f"T{i}/l{j}"] = gen_rows(rng, homogeneous)
        vals = [["rows", {"rows_by_env": rows_by, "params": gen_params(rng), "tag": "rv", "reuse_list": rng.random() < 0.3, "readonly_params": rng.random() < 0.1,
                          "single_mapping": rng.random() < 0.15}]]
        if rng.random() < 0.3:
            vals.append(["tap", {"inner": ["seqcb", {"record": ["reward", "action", "probability", "context", "actions", "rewards"]}], "tag": "tap"}])
            # (not generated: a grounded environment under the ordinary evaluator.  SequentialCB copies the interaction's 'feedbacks' function into
            #  every row - SequentialIGL relies on that - and a record with a value JSON cannot encode is logged and skipped as a whole, so such a
            #  triple has no rows.  Reported by a bug-hunt sub-agent; see DESIGN 10.8.)
        spec = {"envs": envs, "learners": lrns, "evaluators": vals, "shape": "product", "seed": 1, "quiet": True,
                "description": weighted(rng, [(None, 1), ("désc \"q\"\nnl", 1)]), "homogeneous": homogeneous}
        return {"spec": spec, "config": X.gen_config(rng), "knobs": X.gen_knobs(rng), "cut": rng.random(),
                "resume_sim": rng.random() < 0.4, "file_sim": rng.random() < 0.5,
                "torn_cut": weighted(rng, [(None, 1), (rng.random(), 1)]), "stale_partial": weighted(rng, [(None, 2), (rng.random(), 1)])}

    # ------------------------------------------------------------------
    def run(self, cfg, seed, choices=None):
        try:
            return self._run(cfg, seed, choices)
        except X.InvalidSpec:
            import hashlib as _h, json as _j
            return {"digest": _h.blake2b(_j.dumps(cfg, sort_keys=True).encode(), digest_size=16).hexdigest(), "trace": [], "nontrivial": False,
                    "violation": None, "violations": [], "counters": {"invalid_spec": 1}, "sample": None}

    def _run(self, cfg, seed, choices=None):
        import hashlib, json
        from coba.results import Result
        spec = cfg["spec"]
        tmp = tempfile.mkdtemp(prefix="c07_", dir=TMP_ROOT)
        out = {"counters": {}, "trace": [], "decisions": 0, "switches": 0, "sim_s": 0.0}
        vios = []
        try:
            # (a) no file, simulated workers
            sim, outcome, res_a, objs, log_a = X.run_simulated(spec, cfg["config"], seed, choices, knobs=cfg["knobs"])
            out.update(X.sim_summary(sim))
            if outcome in ("deadlock", "livelock"):
                out.update(violation=vio(outcome, f"{outcome}: {sim.outcome_info}"), nontrivial=True, sample={"spec": spec})
                return out
            if "exc" in sim.result:
                out.update(violation=vio("run_raised", f"Experiment.run raised {sim.result['exc']!r}: {sim.result.get('tb', '')[-1500:]}"),
                           nontrivial=True, sample={"spec": spec, "config": cfg["config"]})
                return out
            tap_rows = {}
            for c in sim.user.get("calls", []):
                if c[0] == "tap.row":
                    tap_rows.setdefault((c[1], c[2]), []).append(c[3])
            t_a = X.tables(res_a)
            vios += self._conservation(spec, res_a, tap_rows, "no file / simulated workers")

            def guarded(label, fn):
                try:
                    return fn()
                except Exception as e:
                    import traceback
                    vios.append(vio("run_raised", f"{label} raised {e!r}: {traceback.format_exc()[-1200:]}"))
                    return None

            # (b) plain file, in-process
            fb = os.path.join(tmp, "b.log")
            if cfg.get("file_sim"):
                # written by simulated workers: the record order in the file depends on the schedule
                sim_b, oc_b, res_b, _, _ = X.run_simulated(spec, cfg["config"], seed ^ 0xB0B, None, result_file=fb, knobs=cfg["knobs"])
                if oc_b != "done" or "exc" in sim_b.result:
                    vios.append(vio("run_raised", f"run with a plain result file on simulated workers: {oc_b} {sim_b.result.get('exc')!r}"))
                    res_b = None
            else:
                res_b = guarded("run with a plain result file", lambda: X.run_inproc(spec, result_file=fb)[0])
            # (c) gz file, in-process
            fc = os.path.join(tmp, "c.log.gz")
            res_c = guarded("run with a .gz result file", lambda: X.run_inproc(spec, result_file=fc)[0])
            results = {"plain file": res_b, ".gz file": res_c}
            if res_b is not None:
                results["from_file(plain)"] = guarded("Result.from_file(plain)", lambda: Result.from_file(fb))
            if res_c is not None:
                results["from_file(.gz)"] = guarded("Result.from_file(.gz)", lambda: Result.from_file(fc))
            if res_b is not None and cfg.get("readonly_file", True):
                # the finished log on a medium this user may only read (an archive, a shared directory, a read-only mount): loading it must
                # not ask for more than the right to read
                import coba.pipes.sources as S

                def ro_open(file, mode="r", *a_, **k_):
                    if str(file) == str(fb) and any(c in mode for c in "+wax"):
                        raise PermissionError(13, "Permission denied (read-only file)")
                    return open(file, mode, *a_, **k_)
                S.open = ro_open
                try:
                    out["counters"]["fault.result_file_is_read_only"] = 1
                    results["from_file(read-only plain)"] = guarded("Result.from_file of a read-only file", lambda: Result.from_file(fb))
                finally:
                    del S.open
            # (d) interrupted at a record boundary (after the experiment record) and resumed
            if res_b is not None:
                data = open(fb, "rb").read()
                ends = [i + 1 for i, b in enumerate(data) if b == 10]
                if len(ends) > 2:
                    k = 2 + int(cfg["cut"] * (len(ends) - 2))
                    fd = os.path.join(tmp, "d.log")
                    cut_at = ends[k - 1]
                    if cfg.get("torn_cut") and k < len(ends):
                        # inside the next record (a torn tail is repaired by the restore path)
                        cut_at = ends[k - 1] + 1 + int(cfg["torn_cut"] * max(0, ends[k] - ends[k - 1] - 2))
                        out["counters"]["fault.crash_inside_record"] = 1
                        if cfg.get("stale_partial") is not None:
                            # ... and an earlier repair was killed too, leaving a stale '<file>.partial'
                            keep = data[:ends[k - 1]]
                            with open(fd + ".partial", "wb") as f:
                                f.write(keep[:int(cfg["stale_partial"] * len(keep))])
                            out["counters"]["fault.crash_during_repair_stale_partial"] = 1
                    else:
                        out["counters"]["fault.crash_at_record_boundary"] = 1
                    with open(fd, "wb") as f:
                        f.write(data[:cut_at])
                    if cfg["resume_sim"]:
                        sim2, oc2, res_d, _, _ = X.run_simulated(spec, cfg["config"], seed ^ 0x5A5A, None, result_file=fd, knobs=cfg["knobs"])
                        if oc2 != "done" or "exc" in sim2.result:
                            vios.append(vio("run_raised", f"resumed run: {oc2} {sim2.result.get('exc')!r} {sim2.result.get('tb', '')[-800:]}"))
                            res_d = None
                    else:
                        res_d = guarded("resumed run", lambda: X.run_inproc(spec, result_file=fd)[0])
                    results["resumed after interruption"] = res_d
                    if res_d is not None:
                        results["from_file(resumed)"] = guarded("Result.from_file(resumed)", lambda: Result.from_file(fd))
            # (e) the .gz file interrupted inside a gzip member (torn tail) and resumed: the repair path rewrites a gz file
            if res_c is not None and cfg.get("torn_cut"):
                gz = open(fc, "rb").read()
                fe = os.path.join(tmp, "e.log.gz")
                with open(fe, "wb") as f:
                    f.write(gz[:max(1, int(len(gz) * (0.15 + 0.8 * cfg["cut"])))])
                out["counters"]["fault.crash_inside_gz_member"] = 1
                res_e = guarded("resumed run (.gz, torn member)", lambda: X.run_inproc(spec, result_file=fe)[0])
                results["resumed after interruption (.gz)"] = res_e
                if res_e is not None:
                    results["from_file(resumed .gz)"] = guarded("Result.from_file(resumed .gz)", lambda: Result.from_file(fe))
            for label, r in results.items():
                if r is None:
                    continue
                d = X.diff_tables(t_a, X.tables(r))
                if d:
                    vios.append(vio("results_differ", f"Result without a file vs {label}: {d}"))
        finally:
            shutil.rmtree(tmp, ignore_errors=True)
        n_rows = len(t_a["interactions"])
        out["counters"]["interaction_rows"] = n_rows
        out["nontrivial"] = n_rows > 0
        out["digest"] = hashlib.blake2b((out["digest"] + json.dumps(spec, sort_keys=True)).encode(), digest_size=16).hexdigest()
        # one violation per class
        seen, uniq = set(), []
        for v in vios:
            if v["cls"] not in seen:
                seen.add(v["cls"])
                uniq.append(v)
        out["violations"] = uniq
        out["violation"] = uniq[0] if uniq else None
        out["sample"] = {"spec": spec, "config": cfg["config"], "rows_recorded": n_rows}
        return out

    def _conservation(self, spec, res, tap_rows, label):
        from coba.safety import SafeLearner, SafeEnvironment, SafeEvaluator
        vios = []
        exp, objs = X.build_experiment(spec)
        from checks.c03 import triple_ids
        ids = triple_ids(exp)
        inter = list(res.interactions.to_dicts())
        by = {}
        for r in inter:
            by.setdefault((r["environment_id"], r["learner_id"], r["evaluator_id"]), []).append(r)
        for (env, lrn, val), tid in zip(exp._triples, ids):
            etag = env.params.get("tag")
            ltag = getattr(lrn, "tag", None)
            if isinstance(val, K.RowsEvaluator):
                expected = [dec(r) for r in val.rows_by_env.get(f"{etag}/{ltag}", [])]
            elif isinstance(val, K.TapEvaluator):
                expected = tap_rows.get((etag, ltag), [])
            else:
                continue
            got = sorted(by.get(tid, []), key=lambda r: r["index"])
            if [r["index"] for r in got] != list(range(1, len(got) + 1)):
                vios.append(vio("index_not_1_to_N", f"{label}: triple {tid} has indexes {[r['index'] for r in got]}"))
            exp_nonempty = [r for r in expected if r]      # an empty row is not recorded by SequentialCB; RowsEvaluator may yield {}
            if len(got) != len(expected):
                if expected and not got and all(not r for r in expected):
                    vios.append(vio("empty_rows_lost", f"{label}: triple {tid} evaluator yielded {len(expected)} rows without any field, "
                                                       f"the table has none", key="all_rows_of_a_triple_empty"))
                else:
                    vios.append(vio("row_count", f"{label}: triple {tid} evaluator yielded {len(expected)} rows, the table has {len(got)}"))
                continue
            for i, (e, g) in enumerate(zip(expected, got)):
                k = same_row(e, g)
                if k is not None:
                    ek = {str(a): b for a, b in e.items()}
                    vios.append(vio("row_value", f"{label}: triple {tid} row {i + 1} field {k!r}: evaluator yielded {_sr(ek.get(k))}, table has {_sr(g.get(k))}"))
                    break
        # parameter tables
        def check_params(table, idcol, comps, safe, what):
            rows = {r[idcol]: r for r in table.to_dicts()}
            seen = {}
            for c in comps:
                if c in seen:
                    continue
                seen[c] = len(seen)
                # expected: what the component itself says (asked on this untouched build), plus the type name the wrapper adds when missing
                try:
                    raw = c.params
                    raw = raw() if callable(raw) else raw
                except Exception:
                    continue
                from collections.abc import Mapping as _Mapping
                if what == "learner" and not isinstance(raw, dict):
                    p = {"params": str(raw)}
                elif isinstance(raw, _Mapping):
                    p = dict(raw)
                else:
                    continue
                tkey = {"environment": "env_type", "learner": "family", "evaluator": "eval_type"}[what]
                if what == "evaluator" or tkey not in p:
                    p[tkey] = type(c).__name__ if type(c).__name__ != "function" else c.__name__
                g = rows.get(seen[c])
                if g is None:
                    vios.append(vio("params_row_missing", f"{label}: no {what} row for id {seen[c]}"))
                    continue
                g = {k: v for k, v in g.items() if k != idcol}
                for k in set(map(str, p)) | set(g):
                    if not same({str(a): b for a, b in p.items()}.get(k), g.get(k)):
                        vios.append(vio("params_value", f"{label}: {what} {seen[c]} param {k!r}: component says "
                                                        f"{_sr({str(a): b for a, b in p.items()}.get(k))}, table has {_sr(g.get(k))}"))
                        return
                for k, v in p.items():
                    if isinstance(v, (list, tuple)) and not isinstance(g.get(str(k)), tuple):
                        vios.append(vio("params_value", f"{label}: {what} {seen[c]} param {k!r}: a top-level sequence is read back as "
                                                        f"{type(g.get(str(k))).__name__} {_sr(g.get(str(k)))}, not as a tuple"))
                        return
        check_params(res.environments, "environment_id", [e for e, _, _ in exp._triples], SafeEnvironment, "environment")
        check_params(res.learners, "learner_id", [l for _, l, _ in exp._triples], SafeLearner, "learner")
        check_params(res.evaluators, "evaluator_id", [v for _, _, v in exp._triples], SafeEvaluator, "evaluator")
        return vios

    def shrink(self, cfg):
        spec = cfg["spec"]
        for vi in range(len(spec["evaluators"]) - 1, -1, -1):
            if len(spec["evaluators"]) > 1:
                c = copy.deepcopy(cfg); del c["spec"]["evaluators"][vi]; yield c
        for li in range(len(spec["learners"]) - 1, -1, -1):
            if len(spec["learners"]) > 1:
                c = copy.deepcopy(cfg); del c["spec"]["learners"][li]; yield c
        for gi in range(len(spec["envs"]) - 1, -1, -1):
            if len(spec["envs"]) > 1:
                c = copy.deepcopy(cfg); del c["spec"]["envs"][gi]; yield c
        for vi, v in enumerate(spec["evaluators"]):
            if v[0] != "rows":
                continue
            for key, rows in v[1]["rows_by_env"].items():
                for ri in range(len(rows) - 1, -1, -1):
                    c = copy.deepcopy(cfg); del c["spec"]["evaluators"][vi][1]["rows_by_env"][key][ri]; yield c
                for ri, row in enumerate(rows):
                    for ci in range(len(row["__row__"]) - 1, -1, -1):
                        c = copy.deepcopy(cfg); del c["spec"]["evaluators"][vi][1]["rows_by_env"][key][ri]["__row__"][ci]; yield c
                    for ci, (k, val) in enumerate(row["__row__"]):
                        if val != 1:
                            c = copy.deepcopy(cfg); c["spec"]["evaluators"][vi][1]["rows_by_env"][key][ri]["__row__"][ci][1] = 1; yield c
            if v[1]["params"]:
                c = copy.deepcopy(cfg); c["spec"]["evaluators"][vi][1]["params"] = {}; yield c
        for li, l in enumerate(spec["learners"]):
            if l[1].get("params"):
                c = copy.deepcopy(cfg); c["spec"]["learners"][li][1]["params"] = {}; yield c
        for gi, g in enumerate(spec["envs"]):
            if g["ops"]:
                c = copy.deepcopy(cfg); c["spec"]["envs"][gi]["ops"] = []; yield c
        if spec.get("description"):
            c = copy.deepcopy(cfg); c["spec"]["description"] = None; yield c
        p, mc, mt = cfg["config"]
        if p > 1:
            c = copy.deepcopy(cfg); c["config"] = [p - 1, max(mc, 1) if p - 1 == 1 else mc, mt]; yield c
        if mt > 0:
            c = copy.deepcopy(cfg); c["config"][2] = 0; yield c
        if cfg["resume_sim"]:
            c = copy.deepcopy(cfg); c["resume_sim"] = False; yield c
        if cfg.get("file_sim"):
            c = copy.deepcopy(cfg); c["file_sim"] = False; yield c


def make():
    return C07()
