"""C19 - Shared caches never expose partial entries and always release their locks.

The real ConcurrentCacher runs over (a) the real MemoryCacher or (b) the real DiskCacher on a
per-run directory, with a simulated lock, a simulated shared array whose every element access
is a yield point, virtual time for the 1 s retry sleeps and a gzip shim that injects disk-write
errors.  Callers are simulated threads (one shared ConcurrentCacher) or simulated processes (one
ConcurrentCacher each, sharing only array, lock and storage - what CobaMultiprocessor sets up).
"""
import gc as _gc
import gzip as _gzip
import io
import os
import shutil
import tempfile
from hashlib import blake2b

from checks.common import quiet_context, vio, weighted
from sim.world import make_sim, run_sim
from sim.sched import cur_sim, HarnessError
from sim import prims


class GcLock:
    """The table lock, plus the fault: the at-th time the abandoner enters the critical section (after it has abandoned a reader inside a
    reference cycle) the cyclic collector runs right there - which closes that reader, whose `finally` gives the read lock back through
    the very lock that this thread holds."""

    def __init__(self, inner, st, array):
        self.inner, self.st, self.array = inner, st, array

    def acquire(self, *a, **k):
        return self.inner.acquire(*a, **k)

    def release(self):
        return self.inner.release()

    def __enter__(self):
        self.inner.acquire()
        st = self.st
        sim = st["sim"]
        if st["armed"] and sim.current is not None and sim.current.id == st["task"]:
            if st["n"] == st["at"]:
                before = sum(1 for v in self.array._core.data if v > 0)
                sim.count("fault.gc_inside_table_lock")
                _gc.collect()
                if sum(1 for v in self.array._core.data if v > 0) < before:
                    sim.count("reach.gc_closed_an_abandoned_reader_inside_the_critical_section")
            st["n"] += 1
        return self

    def __exit__(self, *exc):
        self.inner.release()
        return False

TMP_ROOT = "/dev/shm" if os.path.isdir("/dev/shm") else tempfile.gettempdir()


def _index(key):
    return int.from_bytes(blake2b(str(key).encode("utf-8"), digest_size=2).digest(), "big")


def _find_keys():
    seen = {}
    pairs = []
    for i in range(4000):
        k = f"k{i}"
        ix = _index(k)
        if ix in seen:
            pairs.append((seen[ix], k))
            if len(pairs) >= 3:
                break
        else:
            seen[ix] = k
    return pairs


COLLIDING = _find_keys()          # [(ka, kb), ...] with equal 16 bit lock index


class Inj(Exception):
    """An injected getter / body failure, tagged with the operation it belongs to."""

    def __init__(self, opid, where):
        super().__init__(opid, where)
        self.opid, self.where = opid, where


class InjBase(KeyboardInterrupt):
    """The same failure as a BaseException that is not an Exception (the user presses Ctrl-C while the getter downloads, a worker
    calls sys.exit()): a getter "that fails part-way" in the property's words just as well."""

    def __init__(self, opid, where):
        super().__init__(opid, where)
        self.opid, self.where = opid, where


def _inj(g, opid, where):
    return (InjBase if g.get("base_exc") else Inj)(opid, where)


class Monitor:
    """Invariant monitor fed by the instrumented inner cache."""

    def __init__(self):
        self.readers = {}       # key -> {caller: count}
        self.writers = {}       # key -> {caller: count}
        self.cached = {}        # key -> bool
        self.cur_pop = {}       # key -> population id of the value currently stored
        self.pops = {}          # pop id -> {"key","lines","done"}
        self.n_pops = 0
        self.vios = []
        self.getter_calls = {}
        self.torn = set()
        self.reach = {}

    def bad(self, cls, msg):
        if len(self.vios) < 5:
            self.vios.append(vio(cls, msg))

    def hit(self, k):
        self.reach[k] = self.reach.get(k, 0) + 1

    def others(self, table, key, caller):
        return {c: n for c, n in table.get(key, {}).items() if c != caller and n > 0}

    def read_enter(self, key, caller):
        w = self.others(self.writers, key, caller)
        if w:
            self.bad("read_during_write", f"caller {caller} reads {key!r} while {sorted(w)} is writing/removing it")
        d = self.readers.setdefault(key, {})
        d[caller] = d.get(caller, 0) + 1
        if len([c for c, n in d.items() if n > 0]) > 1:
            self.hit("reach.concurrent_readers")

    def read_exit(self, key, caller):
        self.readers[key][caller] -= 1

    def write_enter(self, key, caller, what):
        w = self.others(self.writers, key, caller)
        r = self.others(self.readers, key, caller)
        if w:
            self.bad("two_writers", f"caller {caller} {what} {key!r} while {sorted(w)} is writing/removing it")
        if r:
            self.bad("write_during_read", f"caller {caller} {what} {key!r} while {sorted(r)} is reading it")
        d = self.writers.setdefault(key, {})
        d[caller] = d.get(caller, 0) + 1

    def write_exit(self, key, caller):
        self.writers[key][caller] -= 1

    def new_pop(self, key, n):
        self.n_pops += 1
        pid = self.n_pops
        self.pops[pid] = {"key": key, "lines": [f"{key}|{pid}|{i}" for i in range(n)], "done": False}
        return pid


def _caller():
    return cur_sim().current.id


class _MonCM:
    def __init__(self, cm, mon, key, caller):
        self.cm, self.mon, self.key, self.caller = cm, mon, key, caller
        self.open = True

    def __enter__(self):
        return self.cm.__enter__()

    def __exit__(self, *exc):
        try:
            return self.cm.__exit__(*exc)
        finally:
            if self.open:
                self.open = False
                self.mon.read_exit(self.key, self.caller)


class MonCache:
    """Instrumented inner cache: wraps the real MemoryCacher / DiskCacher."""

    def __init__(self, base, mon):
        self.base, self.mon = base, mon

    def __contains__(self, key):
        s = cur_sim()
        s.yield_("inner.contains")
        return key in self.base

    def rmv(self, key):
        s, mon, me = cur_sim(), self.mon, _caller()
        mon.write_enter(key, me, "removes")
        try:
            s.yield_("inner.rmv")
            plan = s.user.get("c19_rmv_fault", {}).pop(s.current.id, None)
            if plan is not None and plan["fail"] == "before":
                s.count("fault.inner_rmv_raise_before")
                raise Inj(plan["id"], "rmv")
            self.base.rmv(key)
            mon.cached[key] = False
            if plan is not None:
                s.count("fault.inner_rmv_raise_after")
                raise Inj(plan["id"], "rmv")
            s.yield_("inner.rmv.done")
        finally:
            mon.write_exit(key, me)

    def get_set(self, key, getter):
        s, mon, me = cur_sim(), self.mon, _caller()
        if getter is None:
            if s.user["c19_cells"].get(_index(key)) == -1:
                mon.hit("reach.double_check_branch_after_write_lock")
            mon.read_enter(key, me)
            try:
                s.yield_("inner.read")
                cm = self.base.get_set(key, None)
            except BaseException:
                mon.read_exit(key, me)
                raise
            return _MonCM(cm, mon, key, me)
        mon.write_enter(key, me, "populates")
        ok = False
        try:
            s.yield_("inner.populate")
            cm = self.base.get_set(key, getter)
            ok = True
        finally:
            if ok:
                st = s.user["c19_pending_pop"].pop(me, None)
                if st is not None:
                    mon.pops[st]["done"] = True
                    mon.cur_pop[key] = st
                    mon.cached[key] = not getattr(self, "never_stores", False)
            else:
                s.user["c19_pending_pop"].pop(me, None)
                mon.cached[key] = False
            mon.write_exit(key, me)
        mon.read_enter(key, me)
        return _MonCM(cm, mon, key, me)


class _WFile:
    """Writable gzip text file with yield points and an injectable write error."""

    def __init__(self, f, plan):
        self.f, self.plan, self.n = f, plan, 0

    def write(self, s_):
        s = cur_sim()
        self.n += 1
        if self.plan is not None and self.n >= self.plan["at_write"]:
            s.count("fault.disk_write_error")
            e = IOError(f"injected disk write error op={self.plan['opid']}")
            e.opid = self.plan["opid"]
            raise e
        if s is not None and not s.closed and s.user.get("disk_yields"):
            s.yield_("disk.write")
        return self.f.write(s_)

    def __enter__(self):
        self.f.__enter__()
        return self

    def __exit__(self, *exc):
        return self.f.__exit__(*exc)

    def __getattr__(self, name):
        return getattr(self.f, name)


class GzipShim:
    def __init__(self, real):
        self._real = real

    def open(self, path, mode="rb", *a, **k):
        f = self._real.open(path, mode, *a, **k)
        s = cur_sim()
        if s is not None and not s.closed and "w" in mode and s.current is not None:
            plan = s.user.get("c19_disk_fault", {}).pop(s.current.id, None)
            return _WFile(f, plan)
        return f

    def __getattr__(self, name):
        return getattr(self._real, name)


def _install_gzip_shim():
    import coba.context.cachers as CC
    if not isinstance(CC.gzip, GzipShim):
        CC.gzip = GzipShim(CC.gzip)


def _sig(sim):
    arr = sim.user.get("c19_array")
    cells = tuple(sorted((i, v) for i, v in sim.user.get("c19_cells", {}).items() if v != 0))
    ts = tuple((t.id, (t.why or "").split(" ")[0]) for t in sim.tasks if not t.done)
    return (cells, ts)


class C19:
    prop = "C19"
    state_measure = ("abstraction sampled at every scheduler decision: the non-zero cells of the shared lock array x per live task "
                     "(task id, kind of thing it is blocked on); hashed; distinct values counted")
    level = "exploration"
    design_ref = "DESIGN.md 3.9"
    tiers = {"quick": {"runs": 16000, "budget_s": 80, "chunk": 80, "twice_every": 20, "shrink_s": 40},
             "thorough": {"runs": 600000, "budget_s": 840, "chunk": 80, "twice_every": 40, "shrink_s": 120}}
    rule = ("one run = 2-5 callers (threads sharing one ConcurrentCacher, or processes with one each) x 1-6 operations "
            "(get_set with list/iterator/generator/value getters, nested same-key or higher-ranked-key get_set, rmv) on "
            "2-4 keys incl. hash-colliding pairs, over MemoryCacher or DiskCacher, with a fault plan (getter raises before / "
            "after j lines - an Exception or a KeyboardInterrupt-like BaseException -, body raises, gzip write IOError at write n, torn files + restart phase) and one seeded "
            "schedule with virtual time; non-trivial = at least two callers touched a common lock index and the baton "
            "moved between tasks; distinct = distinct event-log digest.  One run in five is the OpenML workload instead: 2-5 worker processes "
            "x 1-3 reads (data id / task id, complete or abandoned after k rows) of 1-2 generated datasets through the real OpenmlSource / "
            "HttpSource / ConcurrentCacher(DiskCacher|MemoryCacher) / request semaphore (1-3), against a simulated HTTP server with a per-request "
            "fault plan (HTTP 500/412/404, timeout before the first byte, timeout / reset / silently closed connection / Ctrl-C after the first "
            "piece of the body) and a final fault-free reader; non-trivial there = two callers read the same dataset")
    assumptions = [
        "callers always enter the with-block of the context manager get_set returns",
        "a single caller never nests get_set on two different keys with colliding 16-bit hashes, and nested keys are "
        "taken in increasing lock-index order (no lock-order cycles between callers)",
        "interleaving granularity: lock acquire/release, every shared-array element access, inner-cache operations, "
        "getter lines, disk writes, sleeps",
        "a system crash leaves any prefix of the gzip file that the interrupted populate would have written",
        "OpenML workload: a body that arrives in two pieces stands for a body larger than HttpSource's 10 MB chunk; a closed connection makes "
        "read(size) return b'' with response.length > 0 (http.client of Python 3.12, checked against a real HTTPResponse); a reader may only "
        "raise when a fault was delivered to one of its own requests",
    ]
    real_components = ["coba.context.cachers.ConcurrentCacher", "MemoryCacher", "DiskCacher (real files on tmpfs)",
                       "gzip (real, behind a fault shim)", "coba.environments.openml.OpenmlSource (incl. its retry, semaphore and clear-cache logic)",
                       "coba.pipes.sources.HttpSource", "ArffReader / DropRows / LabelRows"]
    stub_components = ["lock (SimLock)", "shared array (SimArray)", "request semaphore (SimSemaphore)", "time.sleep (virtual clock)",
                       "callers / getters / with-bodies (harness)", "urllib.request.urlopen + HTTP response (simulated OpenML server)"]

    # ------------------------------------------------------------------ generation
    def gen(self, rng, tier, index):
        if rng.random() < 0.2:
            # second workload: OpenML downloads through the shared cache, end to end (checks/c19_openml.py)
            from checks.c19_openml import gen_openml
            return gen_openml(rng, index)
        n_callers = weighted(rng, [(2, 4), (3, 4), (4, 2), (5, 1)])
        # ("null": caching is switched off - CobaMultiprocessor still wraps the NullCacher in a ConcurrentCacher; nothing is ever stored)
        backend = weighted(rng, [("memory", 4), ("disk", 4), ("null", 1)])
        shape = weighted(rng, [("threads", 1), ("procs", 1)])
        faulty = index % 2 == 1
        pool = []
        if rng.random() < 0.6:
            pool.extend(COLLIDING[rng.randrange(len(COLLIDING))])
        while len(pool) < weighted(rng, [(1, 2), (2, 3), (3, 2), (4, 1)]):
            k = f"x{rng.randrange(6)}"
            if k not in pool:
                pool.append(k)
        if rng.random() < 0.25:
            # two distinct keys that differ only in case (distinct entries, distinct lock slots)
            k = pool[rng.randrange(len(pool))].upper()
            if k not in pool and _index(k) not in {_index(x) for x in pool}:
                pool.append(k)
        opid = [0]

        def mk_get(key, depth=0):
            opid[0] += 1
            me = opid[0]
            kind = weighted(rng, [("list", 3), ("iter", 2), ("gen", 3), ("value", 1)])
            g = {"kind": kind, "n": 1 + rng.randrange(4), "raise_at": None}
            op = {"op": "get_set", "id": me, "key": key, "getter": g,
                  "body": {"yields": rng.randrange(3), "nest": None, "raise": False}, "disk_fault": None}
            if faulty:
                r = rng.random()
                if r < 0.22 and kind != "value":
                    g["raise_at"] = rng.randrange(0, g["n"] + 1) if kind == "gen" else 0
                    g["base_exc"] = rng.random() < 0.3      # KeyboardInterrupt-like instead of Exception
                elif r < 0.34:
                    op["body"]["raise"] = True
                elif r < 0.5 and backend == "disk":
                    op["disk_fault"] = 1 + rng.randrange(2 * g["n"])
            if depth == 0 and rng.random() < 0.3:
                same = rng.random() < 0.5
                if same:
                    op["body"]["nest"] = mk_get(key, 1)
                else:
                    higher = [k for k in pool if _index(k) > _index(key)]
                    if higher:
                        op["body"]["nest"] = mk_get(higher[rng.randrange(len(higher))], 1)
            return op

        callers = []
        for _ in range(n_callers):
            ops = []
            for _ in range(1 + rng.randrange(5)):
                key = pool[rng.randrange(len(pool))]
                if rng.random() < 0.2:
                    opid[0] += 1
                    ops.append({"op": "rmv", "id": opid[0], "key": key})
                    if faulty and rng.random() < 0.2:
                        # the inner cache's own rmv fails (the file cannot be unlinked: EACCES / EIO), before or after the entry is gone
                        ops[-1]["fail"] = "before" if rng.random() < 0.5 else "after"
                else:
                    ops.append(mk_get(key))
            callers.append(ops)
        gcf = None
        if faulty and backend != "null" and rng.random() < 0.15:
            # an abandoned reader inside a reference cycle, and a cyclic collection that starts INSIDE ConcurrentCacher's critical section
            # (in CPython 3.12 the collector runs at the eval breaker, e.g. at the current_thread() call under `with self._lock:`)
            k1 = pool[rng.randrange(len(pool))]
            rest = [k for k in pool if _index(k) != _index(k1)]
            if rest:
                opid[0] += 1
                ops = [{"op": "get_set", "id": opid[0], "key": k1, "abandon": True,
                        "getter": {"kind": weighted(rng, [("list", 2), ("gen", 2)]), "n": 2 + rng.randrange(3), "raise_at": None},
                        "body": {"yields": 0, "nest": None, "raise": False}, "disk_fault": None}]
                for _ in range(1 + rng.randrange(3)):
                    opid[0] += 1
                    ops.append({"op": "get_set", "id": opid[0], "key": rest[rng.randrange(len(rest))],
                                "getter": {"kind": "list", "n": 1 + rng.randrange(3), "raise_at": None},
                                "body": {"yields": rng.randrange(2), "nest": None, "raise": False}, "disk_fault": None})
                ci = rng.randrange(len(callers))
                callers[ci] = ops
                gcf = {"caller": ci, "at": rng.randrange(5)}
        torn = []
        if faulty and backend == "disk" and rng.random() < 0.6:
            for k in rng.sample(pool, 1 + rng.randrange(min(2, len(pool)))):
                # a quarter of the torn files are cut at byte 0 (an empty file, which DiskCacher treats as absent)
                torn.append({"key": k, "n": 1 + rng.randrange(4), "cut": 0.0 if rng.random() < 0.25 else rng.random()})
        return {"backend": backend, "shape": shape, "keys": pool, "callers": callers, "torn": torn, "gc": gcf,
                "restart_readers": 1 + rng.randrange(3),
                "knobs": {"array_yields": rng.random() < 0.7, "disk_yields": rng.random() < 0.6,
                          "p_stay": weighted(rng, [(0.0, 2), (0.5, 2), (0.85, 1)]),
                          "p_clock": weighted(rng, [(0.0, 1), (0.3, 2), (0.6, 1)])}}

    # ------------------------------------------------------------------ run
    def run(self, cfg, seed, choices=None):
        from coba.context.cachers import ConcurrentCacher, MemoryCacher, DiskCacher
        import coba.context.cachers as _cachers
        if cfg.get("kind") == "openml":
            from checks.c19_openml import run_openml
            return run_openml(cfg, seed, choices, make_sim, run_sim, _install_gzip_shim, _sig)
        _install_gzip_shim()
        kn = cfg["knobs"]
        sim = make_sim(seed, choices=choices, p_stay=kn["p_stay"], p_clock=kn["p_clock"], max_steps=4000)
        sim.user["array_yields"] = kn["array_yields"]
        sim.user["disk_yields"] = kn["disk_yields"]
        sim.user["c19_pending_pop"] = {}
        sim.user["c19_disk_fault"] = {}
        sim.user["c19_cells"] = {}
        sim.sig_fn = _sig
        quiet_context()
        mon = Monitor()
        tmpdir = tempfile.mkdtemp(prefix="c19_", dir=TMP_ROOT) if cfg["backend"] == "disk" else None
        records = []      # (phase, caller, opid, 'value'|'exc', payload, key, pop_at_open)
        state = {}

        gcst = {"armed": False, "task": None, "n": 0, "at": (cfg.get("gc") or {}).get("at"), "sim": sim}
        if cfg.get("gc"):
            _gc.collect()       # (garbage of earlier runs must not be finalised by this run's forced collections)

        def make_base():
            if cfg["backend"] == "null":
                from coba.context import NullCacher
                return NullCacher()
            return DiskCacher(tmpdir) if cfg["backend"] == "disk" else state.setdefault("mem", MemoryCacher())

        def do_get(cc, op, phase, cidx):
            key, g = op["key"], op["getter"]
            me = sim.current.id

            def build():
                pid = mon.new_pop(key, g["n"])
                sim.user["c19_pending_pop"][me] = pid
                return pid, mon.pops[pid]["lines"]

            def getter():
                mon.getter_calls[key] = mon.getter_calls.get(key, 0) + 1
                if mon.cached.get(key):
                    mon.bad("getter_ran_while_cached", f"getter for {key!r} invoked by caller {cidx} although the entry is cached")
                if mon.others(mon.writers, key, me):
                    mon.bad("two_getters", f"getter for {key!r} invoked while another caller populates it")
                if g["raise_at"] == 0 and g["kind"] != "gen":
                    sim.count("fault.getter_raise_baseexception" if g.get("base_exc") else "fault.getter_raise")
                    raise _inj(g, op["id"], "getter")
                pid, lines = build()
                sim.yield_("getter")
                if g["kind"] == "list":
                    return list(lines)
                if g["kind"] == "iter":
                    return iter(list(lines))

                def gen():
                    for i, l in enumerate(lines):
                        if g["raise_at"] == i:
                            sim.count("fault.getter_raise_partway_baseexception" if g.get("base_exc") else "fault.getter_raise_partway")
                            raise _inj(g, op["id"], "getter")
                        sim.yield_("getter.line")
                        yield l
                    if g["raise_at"] == len(lines):
                        sim.count("fault.getter_raise_partway_baseexception" if g.get("base_exc") else "fault.getter_raise_partway")
                        raise _inj(g, op["id"], "getter")
                return gen()

            if g["kind"] == "value":
                # a ready value instead of a callable (allowed by the interface); attribution is
                # prepared up-front and discarded if the entry turns out to be cached already
                pid = mon.new_pop(key, g["n"])
                arg = list(mon.pops[pid]["lines"])
                sim.user["c19_pending_pop"][me] = pid
            else:
                arg = getter
            if op.get("disk_fault"):
                sim.user["c19_disk_fault"][me] = {"at_write": op["disk_fault"], "opid": op["id"]}
            if op.get("abandon"):
                def rows():
                    with cc.get_set(key, arg) as v:
                        sim.user["c19_pending_pop"].pop(me, None)
                        yield from v
                try:
                    it = rows()
                    first = next(it)
                    cell = [it]
                    cell.append(cell)          # only the cyclic collector will ever close this reader
                    del it, cell
                    gcst["armed"], gcst["task"] = True, me
                    sim.count("fault.reader_abandoned_in_a_cycle")
                    records.append((phase, cidx, op["id"], "abandoned", first, key, None))
                except Exception as e:
                    records.append((phase, cidx, op["id"], "exc", e, key, None))
                finally:
                    sim.user["c19_pending_pop"].pop(me, None)
                return
            try:
                with cc.get_set(key, arg) as v:
                    sim.user["c19_pending_pop"].pop(me, None)
                    sim.user["c19_disk_fault"].pop(me, None)
                    pop_at_open = mon.cur_pop.get(key)
                    got = []
                    for line in v:
                        got.append(line.rstrip("\n") if isinstance(line, str) else line)
                        sim.yield_("body.line")
                    for _ in range(op["body"]["yields"]):
                        sim.yield_("body")
                    if op["body"]["nest"] is not None:
                        do_get(cc, op["body"]["nest"], phase, cidx)
                    if op["body"]["raise"]:
                        sim.count("fault.body_raise")
                        raise Inj(op["id"], "body")
                records.append((phase, cidx, op["id"], "value", got, key, pop_at_open))
            except (Inj, InjBase) as e:
                records.append((phase, cidx, op["id"], "inj", (e.opid, e.where), key, None))
            except Exception as e:
                records.append((phase, cidx, op["id"], "exc", e, key, None))
            finally:
                sim.user["c19_pending_pop"].pop(me, None)
                sim.user["c19_disk_fault"].pop(me, None)

        def caller_body(cc, ops, phase, cidx):
            try:
                _caller_body(cc, ops, phase, cidx)
            finally:
                if gcst["armed"] and gcst["task"] == sim.current.id:
                    # "until the collector runs": the abandoner's own thread collects, outside every critical section
                    gcst["armed"] = False
                    _gc.collect()

        def _caller_body(cc, ops, phase, cidx):
            for op in ops:
                if op["op"] == "rmv":
                    try:
                        if op.get("fail"):
                            sim.user.setdefault("c19_rmv_fault", {})[sim.current.id] = op
                        cc.rmv(op["key"])
                        records.append((phase, cidx, op["id"], "rmv", None, op["key"], None))
                    except Inj as e:
                        records.append((phase, cidx, op["id"], "inj", (e.opid, e.where), op["key"], None))
                    except Exception as e:
                        records.append((phase, cidx, op["id"], "exc", e, op["key"], None))
                    finally:
                        sim.user.get("c19_rmv_fault", {}).pop(sim.current.id, None)
                else:
                    do_get(cc, op, phase, cidx)

        def run_phase(phase, scripts):
            array = prims.SimArray(None, [0] * 2 ** 16)
            cells = sim.user["c19_cells"]
            cells.clear()
            array._core.on_write = lambda i, v: cells.__setitem__(i, v)
            inner = MonCache(make_base(), mon)
            inner.never_stores = cfg["backend"] == "null"
            if cfg.get("gc") and phase == "p1":
                # the lock is the one the code itself would make: ConcurrentCacher's default (threads) / CobaMultiprocessor's (processes)
                made = []
                if cfg["shape"] == "threads":
                    saved = {n: getattr(_cachers, n) for n in ("Lock", "RLock") if hasattr(_cachers, n)}
                    for n, cls in (("Lock", prims.SimLock), ("RLock", prims.SimRLock)):
                        if n in saved:
                            setattr(_cachers, n, lambda cls=cls: made.append(GcLock(cls(), gcst, array)) or made[-1])
                    try:
                        shared = ConcurrentCacher(inner, array)
                    finally:
                        for n, v in saved.items():
                            setattr(_cachers, n, v)
                    lock = shared._lock
                    if not made or lock is not made[-1]:
                        raise HarnessError("ConcurrentCacher did not build its default lock through the seam")
                else:
                    import inspect
                    import coba.multiprocessing as _cmp
                    src = inspect.getsource(_cmp.CobaMultiprocessor.filter)
                    cls = prims.SimRLock if "spawn_context.RLock()" in src else prims.SimLock
                    lock = GcLock(cls(), gcst, array)
                    shared = ConcurrentCacher(inner, array, lock)
            else:
                lock = prims.SimLock()
                shared = ConcurrentCacher(inner, array, lock)
            ccs, tasks = [], []
            for cidx, ops in enumerate(scripts):
                if cfg["shape"] == "threads":
                    cc = shared
                    pid = None
                else:
                    mc = MonCache(make_base(), mon)
                    mc.never_stores = cfg["backend"] == "null"
                    cc = ConcurrentCacher(mc, array, lock)
                    pid = sim.new_pid()
                ccs.append(cc)
                tasks.append(sim.spawn(lambda cc=cc, ops=ops, cidx=cidx: caller_body(cc, ops, phase, cidx),
                                       f"caller{cidx}", pid=pid))
            sim.block(lambda: all(t.done for t in tasks), "join callers")
            # release invariant
            held = {i: v for i, v in enumerate(array._core.data) if v != 0}
            if held:
                mon.bad("lock_cell_leaked", f"after all callers left ({phase}) array cells are {held}")
            for cc in {id(c): c for c in ccs}.values():
                bad = {k[1]: v for k, v in cc._locks.items() if v != 0}
                if bad:
                    mon.bad("lock_table_leaked", f"after all callers left ({phase}) _locks has {bad}")
            for t in tasks:
                if t.exc is not None:
                    mon.bad("caller_died", f"caller task died with {t.exc!r}")

        def main():
            run_phase("p1", cfg["callers"])
            if cfg["torn"] and tmpdir is not None:
                # whole-system death during cache writes: torn files, then a restart
                for t in cfg["torn"]:
                    key = t["key"]
                    pid = mon.new_pop(key, t["n"])
                    buf = io.BytesIO()
                    with _gzip.GzipFile(fileobj=buf, mode="wb", compresslevel=6, mtime=0) as f:
                        f.write(("\n".join(mon.pops[pid]["lines"]) + "\n").encode())
                    full = buf.getvalue()
                    cut = min(len(full) - 1, int(t["cut"] * len(full)))
                    with open(os.path.join(tmpdir, key + ".gz"), "wb") as f:
                        f.write(full[:cut])
                    mon.torn.add(key)
                    mon.cached[key] = False
                    mon.cur_pop[key] = None
                    state.setdefault("torn_cuts", []).append((key, cut, len(full)))
                    sim.count("fault.torn_file")
                    if cut == 0:
                        mon.hit("reach.torn_zero_length")
                opid = 10_000
                scripts = []
                for r in range(cfg["restart_readers"]):
                    ops = []
                    for key in cfg["keys"]:
                        opid += 1
                        ops.append({"op": "get_set", "id": opid, "key": key,
                                    "getter": {"kind": "list", "n": 2, "raise_at": None},
                                    "body": {"yields": 0, "nest": None, "raise": False}, "disk_fault": None})
                    scripts.append(ops)
                run_phase("p2", scripts)

        try:
            outcome = run_sim(sim, main)
        finally:
            if tmpdir is not None:
                shutil.rmtree(tmpdir, ignore_errors=True)

        res = {"digest": sim.digest(), "trace": sim.trace, "decisions": sim.n_decisions, "switches": sim.n_switches,
               "sim_s": sim.now, "counters": dict(sim.counters), "states": list(sim.state_sigs)}
        idx_users = {}
        for ci, ops in enumerate(cfg["callers"]):
            for op in ops:
                idx_users.setdefault(_index(op["key"]), set()).add(ci)
        res["nontrivial"] = sim.n_switches > 0 and any(len(u) > 1 for u in idx_users.values())
        if sim.counters.get("sleep"):
            res["counters"]["reach.caller_slept_waiting_for_lock"] = 1
        res["violations"] = self._oracle(cfg, sim, outcome, mon, records)
        res["violation"] = res["violations"][0] if res["violations"] else None
        for k, v in mon.reach.items():
            res["counters"][k] = v
        res["sample"] = {"cfg": cfg, "outcome": outcome, "records": [(r[0], r[1], r[2], r[3], repr(r[4])[:80]) for r in records[:12]],
                         "sim_seconds": sim.now, "first_choices": sim.trace[:30]}
        return res

    # ------------------------------------------------------------------ oracle
    def _oracle(self, cfg, sim, outcome, mon, records):
        out = list(mon.vios)
        if outcome in ("deadlock", "livelock"):
            out.append(vio(outcome, f"{outcome}: callers wait forever; {sim.outcome_info}"))
            return out
        if "exc" in sim.result:
            out.append(vio("harness_main_exception", f"{sim.result['exc']!r} {sim.result.get('tb', '')[-800:]}"))
            return out
        ops = {}

        same_key_nesting = set()      # ids of operations that nest (or are nested in) a get_set on the SAME key

        def walk(op):
            ops[op["id"]] = op
            if op.get("body", {}).get("nest"):
                if op["body"]["nest"]["key"] == op["key"]:
                    same_key_nesting.update((op["id"], op["body"]["nest"]["id"]))
                walk(op["body"]["nest"])
        for c in cfg["callers"]:
            for op in c:
                walk(op)
        for phase, cidx, opid, kind, payload, key, pop_at_open in records:
            op = ops.get(opid)
            if kind == "value":
                got = payload
                if not got:
                    out.append(vio("short_value", f"caller {cidx} op {opid} received an empty value for {key!r}"))
                    continue
                try:
                    k, pid, _ = got[0].split("|")
                    pid = int(pid)
                except Exception:
                    out.append(vio("garbled_value", f"caller {cidx} op {opid} received {got!r}"))
                    continue
                pop = mon.pops.get(pid)
                if pop is None or pop["key"] != key:
                    out.append(vio("wrong_value", f"caller {cidx} op {opid} asked {key!r} got {got!r}"))
                elif got != pop["lines"]:
                    out.append(vio("short_value", f"caller {cidx} op {opid} received {got!r}, the complete value is {pop['lines']!r}"))
                elif not pop["done"]:
                    out.append(vio("served_failed_population", f"caller {cidx} op {opid} was served population {pid} of {key!r} which never completed"))
                elif pop_at_open is not None and pop_at_open != pid:
                    out.append(vio("stale_value", f"caller {cidx} op {opid} read population {pid} of {key!r} but {pop_at_open} was current"))
            elif kind == "abandoned":
                pop = None
                try:
                    pop = mon.pops.get(int(payload.rstrip("\n").split("|")[1]))
                except Exception:
                    pass
                if pop is None or pop["key"] != key or payload.rstrip("\n") != pop["lines"][0]:
                    out.append(vio("wrong_value", f"caller {cidx} op {opid} asked {key!r}, its first line was {payload!r}"))
            elif kind == "inj":
                # an injected failure may only surface in the operation it was planted in (or its outer operation)
                e_op, where = payload
                okk = e_op == opid or (op is not None and op["body"]["nest"] is not None and op["body"]["nest"]["id"] == e_op)
                if not okk:
                    out.append(vio("foreign_exception", f"caller {cidx} op {opid} received the failure injected into op {e_op}"))
            elif kind == "exc":
                e = payload
                allowed = False
                if op is not None and op.get("disk_fault") and getattr(e, "opid", None) == opid:
                    allowed = True
                if op is not None and op.get("body", {}).get("nest") and op["body"]["nest"].get("disk_fault") \
                        and getattr(e, "opid", None) == op["body"]["nest"]["id"]:
                    allowed = True
                if cfg["backend"] == "null" and opid in same_key_nesting and "unrecoverable state" in str(e):
                    # a cache that stores nothing cannot serve a get_set nested inside a get_set on the same key: the inner call would have
                    # to take the write lock while its own thread reads.  ConcurrentCacher refuses that, loudly and by design
                    allowed = True
                    mon.hit("reach.nested_same_key_refused_on_non_storing_cache")
                if phase == "p2" and key in mon.torn:
                    # a torn file may yield an exception, never a short value.  (That includes the zero-length file: behind a ConcurrentCacher
                    # its first caller gets a TypeError - the hit path asks DiskCacher without a getter - and the file is gone afterwards.
                    # Making DiskCacher report an empty file as absent would contradict the pinned test_overwrite_empty_cache.)
                    allowed = True
                    mon.hit("reach.torn_file_raised_on_read")
                if not allowed:
                    out.append(vio("unexpected_exception", f"caller {cidx} op {opid} on {key!r} raised {e!r}"))
        return out

    # ------------------------------------------------------------------ shrinking
    def shrink(self, cfg):
        if cfg.get("kind") == "openml":
            from checks.c19_openml import shrink_openml
            yield from shrink_openml(cfg)
            return
        import copy
        for ci in range(len(cfg["callers"]) - 1, -1, -1):
            if len(cfg["callers"]) > 1:
                c = copy.deepcopy(cfg); del c["callers"][ci]; yield c
        for ci, ops in enumerate(cfg["callers"]):
            for oi in range(len(ops) - 1, -1, -1):
                if len(ops) > 1:
                    c = copy.deepcopy(cfg); del c["callers"][ci][oi]; yield c
        for ci, ops in enumerate(cfg["callers"]):
            for oi, op in enumerate(ops):
                if op["op"] != "get_set":
                    continue
                if op["body"]["nest"] is not None:
                    c = copy.deepcopy(cfg); c["callers"][ci][oi]["body"]["nest"] = None; yield c
                if op["body"]["yields"]:
                    c = copy.deepcopy(cfg); c["callers"][ci][oi]["body"]["yields"] = 0; yield c
                if op["getter"]["n"] > 1 and op["getter"]["raise_at"] is None and not op["disk_fault"]:
                    c = copy.deepcopy(cfg); c["callers"][ci][oi]["getter"]["n"] = 1; yield c
                if op["getter"]["kind"] != "list" and op["getter"]["raise_at"] in (None, 0):
                    c = copy.deepcopy(cfg); c["callers"][ci][oi]["getter"]["kind"] = "list"; yield c
                for f in ("disk_fault",):
                    if op[f]:
                        c = copy.deepcopy(cfg); c["callers"][ci][oi][f] = None; yield c
                if op["body"]["raise"]:
                    c = copy.deepcopy(cfg); c["callers"][ci][oi]["body"]["raise"] = False; yield c
                if op["getter"]["raise_at"] is not None:
                    c = copy.deepcopy(cfg); c["callers"][ci][oi]["getter"]["raise_at"] = None; yield c
                    if op["getter"].get("base_exc"):
                        c = copy.deepcopy(cfg); c["callers"][ci][oi]["getter"]["base_exc"] = False; yield c
        if cfg["torn"]:
            c = copy.deepcopy(cfg); c["torn"] = []; yield c
            if len(cfg["torn"]) > 1:
                c = copy.deepcopy(cfg); c["torn"] = cfg["torn"][:1]; yield c
        if cfg["restart_readers"] > 1:
            c = copy.deepcopy(cfg); c["restart_readers"] = 1; yield c
        if cfg["backend"] == "disk" and not cfg["torn"] and not any(
                op.get("disk_fault") for ops in cfg["callers"] for op in ops):
            c = copy.deepcopy(cfg); c["backend"] = "memory"; yield c
        if cfg["shape"] == "procs":
            c = copy.deepcopy(cfg); c["shape"] = "threads"; yield c
        for k, v in (("array_yields", False), ("disk_yields", False), ("p_clock", 0.0), ("p_stay", 0.85)):
            if cfg["knobs"][k] != v:
                c = copy.deepcopy(cfg); c["knobs"][k] = v; yield c


def make():
    return C19()
