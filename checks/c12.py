"""C12 (delivery and disk clauses) - what coba reads does not depend on how the bytes are delivered.

Transport simulator: coba.pipes.sources.request.urlopen is replaced by a fake server whose response
serves the payload through read(size).  For every payload the check enumerates EVERY chunk_size from
1 to len(bytes)+1 for each content encoding (none, gzip, deflate) - the whole delivery space of the
public API - plus a seeded sample of short-read schedules.  The grammar clause of C12 is not decided."""
import copy
import gzip
import hashlib
import io
import json
import os
import random
import shutil
import tempfile
import zlib

from checks.common import vio, weighted, quiet_context

TMP_ROOT = "/dev/shm" if os.path.isdir("/dev/shm") else tempfile.gettempdir()


# ----------------------------------------------------------------------------- simulated transport
class _Headers:
    def __init__(self, enc, charset):
        self._enc, self._charset = enc, charset

    def get(self, name, default=None):
        return self._enc if name == "Content-Encoding" else default

    def get_charsets(self):
        return [self._charset] if self._charset else []


class SimResponse:
    """What urlopen returns: read(size) is served from the wire bytes by the transport; with a
    short-read plan read(size) may return fewer bytes than asked (legal for a raw stream)."""

    def __init__(self, wire, enc, charset, short_plan=None):
        self._buf = io.BytesIO(wire)
        self.headers = _Headers(enc, charset)
        self._plan = list(short_plan or [])
        self.reads = 0
        self.closed = False

    def info(self):
        return self.headers

    def read(self, size=-1):
        self.reads += 1
        if size is None or size < 0:
            return self._buf.read()
        if self._plan:
            cut = self._plan.pop(0)
            size = max(1, min(size, cut))
        return self._buf.read(size)

    def __enter__(self):
        return self

    def __exit__(self, *a):
        self.closed = True
        return False


class SimServer:
    def __init__(self):
        self.wire, self.enc, self.charset, self.plan = b"", None, "utf-8", None
        self.requests = 0

    def urlopen(self, req, timeout=None):
        self.requests += 1
        return SimResponse(self.wire, self.enc, self.charset, self.plan)


class _RequestShim:
    def __init__(self, real, server):
        self._real, self._server = real, server

    def urlopen(self, req, timeout=None):
        return self._server.urlopen(req, timeout)

    def __getattr__(self, name):
        return getattr(self._real, name)


_SERVER = SimServer()


def install_transport():
    import coba.pipes.sources as S
    if not isinstance(S.request, _RequestShim):
        S.request = _RequestShim(S.request, _SERVER)
    return _SERVER


def encode_wire(raw, enc):
    if enc == "gzip":
        buf = io.BytesIO()
        with gzip.GzipFile(fileobj=buf, mode="wb", mtime=0) as f:
            f.write(raw)
        return buf.getvalue()
    if enc == "deflate":
        c = zlib.compressobj(6, zlib.DEFLATED, -zlib.MAX_WBITS)
        return c.compress(raw) + c.flush()
    return raw


# ----------------------------------------------------------------------------- payloads
WORDS = ["a", "bc", "1.5", "x,y", "é", "日本", "😀", "ü", "value", "?", "'q'", "€", " ", "»", "¿x", "naïve", "，", "\ufeff", "ÿ", "\ufffd"]
SEPS = [("\n", 6), ("\r\n", 5), ("\r", 2), ("\n\n", 1), ("\r\n\r\n", 1)]
EXOTIC = ["\x0b", "\x0c", "\x1c", "\x85", " ", " "]


def gen_text(rng, exotic):
    n_lines = 1 + rng.randrange(6)
    out = []
    for i in range(n_lines):
        line = "".join(rng.choice(WORDS) for _ in range(rng.randrange(5)))
        if exotic and rng.random() < 0.3:
            line += rng.choice(EXOTIC) + rng.choice(WORDS)
        out.append(line)
        if i < n_lines - 1 or rng.random() < 0.6:
            out.append(weighted(rng, SEPS))
    return "".join(out)


def gen_repetitive(rng):
    """Highly compressible text: a few compressed bytes inflate into hundreds of characters (the shape of real
    datasets with long runs of identical rows)."""
    row = "".join(rng.choice(WORDS) for _ in range(2 + rng.randrange(6))) or "0,0,0"
    eol = weighted(rng, [("\n", 2), ("\r\n", 1)])
    n = weighted(rng, [(40, 2), (150, 2), (400, 1)])
    lines = [row] * n
    for _ in range(rng.randrange(4)):
        lines[rng.randrange(n)] = row + rng.choice(WORDS)
    return eol.join(lines) + (eol if rng.random() < 0.7 else "")


def gen_table(rng):
    fmt = weighted(rng, [("csv", 3), ("arff", 3), ("libsvm", 2), ("manik", 1), ("arff_sparse", 1.5)])
    n_rows, n_cols = 1 + rng.randrange(4), 1 + rng.randrange(3)
    eol = weighted(rng, [("\n", 1), ("\r\n", 1)])
    if fmt == "csv":
        strs = ["a", "b c", "x,y", 'q"t', "é日", "5"]
        rows = [[rng.choice(strs) if (c % 2) else str(rng.randrange(100)) for c in range(n_cols)] for _ in range(n_rows)]
        buf = io.StringIO()
        import csv
        w = csv.writer(buf, lineterminator=eol, quoting=csv.QUOTE_MINIMAL)
        header = [f"h{c}" for c in range(n_cols)]
        w.writerow(header)
        for r in rows:
            w.writerow(r)
        return {"fmt": fmt, "text": buf.getvalue(), "header": header, "rows": rows}
    if fmt == "arff_sparse":
        # sparse ARFF in the plain Weka dialect: numeric attributes, a numeric label column, rows as {index value, ...}; an instance
        # whose values are all zero is written as {} (also as the first row); read through the labelled pipeline the environments use
        names = [f"a{c}" for c in range(n_cols)] + ["y"]
        lines = ["@relation r"] + [f"@attribute {n} numeric" for n in names] + ["@data"]
        rows = []
        for ri in range(n_rows):
            empty = rng.random() < (0.4 if ri == 0 else 0.15)
            vals = {} if empty else {c: float(rng.choice([1, 2.5, -3, 10])) for c in range(n_cols + 1) if rng.random() < 0.6}
            lines.append("{" + ", ".join(f"{c} {v}" for c, v in sorted(vals.items())) + "}")
            rows.append([{names[c]: v for c, v in vals.items() if c < n_cols}, vals.get(n_cols, 0)])
        return {"fmt": fmt, "text": eol.join(lines) + eol, "rows": rows}
    if fmt == "arff":
        kinds = [rng.choice(["numeric", "nominal", "string"]) for _ in range(n_cols)]
        pool = ["A", "B b", "C", "d,e", "0", "1"]
        q = lambda v: f"'{v}'" if (" " in v or "," in v) else v
        lines = ["@relation r"]
        col_levels = []
        for c, k in enumerate(kinds):
            # every nominal column declares its own levels: a sample of the pool in its own order (two columns may well declare the
            # same levels in a different order, or the same list); what is read back must carry the column's own declaration
            lv = rng.sample(pool, 2 + rng.randrange(3)) if rng.random() < 0.7 else ["A", "B b", "C"]
            col_levels.append(lv if k == "nominal" else None)
            if k == "numeric":
                lines.append(f"@attribute n{c} numeric")
            elif k == "nominal":
                lines.append(f"@attribute c{c} {{{','.join(map(q, lv))}}}")
            else:
                lines.append(f"@attribute s{c} string")
        lines.append("@data")
        rows = []
        for _ in range(n_rows):
            row, cells = [], []
            for c, k in enumerate(kinds):
                if k == "numeric":
                    v = rng.choice([0, 1, 2.5, -3, 10])
                    row.append(float(v)); cells.append(str(v))
                elif k == "nominal":
                    v = rng.choice(col_levels[c])
                    row.append(v); cells.append(q(v))
                else:
                    v = rng.choice(["é", "x y", "plain"])
                    row.append(v); cells.append(f"'{v}'")
            rows.append(row); lines.append(",".join(cells))
        return {"fmt": fmt, "text": eol.join(lines) + eol, "kinds": kinds, "rows": rows, "levels": col_levels}
    rows, lines = [], []
    for _ in range(n_rows):
        lab = str(rng.randrange(3))
        feats = {k: float(rng.choice([1, 2.5, 3])) for k in sorted(rng.sample(range(1, 6), 1 + rng.randrange(3)))}
        rows.append([feats, [lab]])
        lines.append(lab + " " + " ".join(f"{k}:{v}" for k, v in feats.items()))
    if fmt == "manik":
        lines.insert(0, f"{n_rows} 6 3")
    return {"fmt": fmt, "text": eol.join(lines) + eol, "rows": rows}


def parse_table(fmt, lines):
    from coba.pipes.readers import CsvReader, ArffReader, LibsvmReader, ManikReader
    if fmt == "csv":
        return [list(r) for r in CsvReader(has_header=True).filter(lines)]
    if fmt == "arff_sparse":
        from coba.pipes import Pipes
        from coba.pipes.rows import LabelRows
        return [[{k: v for k, v in dict(r).items() if k != "y"}, r.label] for r in Pipes.join(ArffReader(), LabelRows("y", "r")).filter(lines)]
    if fmt == "arff":
        out = []
        for r in ArffReader().filter(lines):
            out.append(list(r))
        return out
    rd = LibsvmReader() if fmt == "libsvm" else ManikReader()
    return [[dict(x), list(y)] for x, y in rd.filter(lines)]


class C12:
    prop = "C12"
    level = "fault_enumeration"
    design_ref = "DESIGN.md 3.8"
    tiers = {"quick": {"runs": 50000, "budget_s": 80, "chunk": 250, "twice_every": 0, "shrink_s": 30},
             "thorough": {"runs": 2000000, "budget_s": 840, "chunk": 400, "twice_every": 0, "shrink_s": 60}}
    rule = ("delivery: one evaluation = one payload (adversarial text with LF/CRLF/lone CR/blank lines/unterminated last line, 2-4 byte "
            "UTF-8 characters, occasionally other Unicode line boundaries; or a small table serialised as RFC-4180 CSV / dense ARFF / sparse numeric ARFF read through LabelRows / "
            "LibSVM / Manik; nominal ARFF columns each declare their own level list and the cells' levels/as_int/as_onehot are compared) delivered through the real HttpSource path for EVERY chunk_size 1..len(bytes)+1 x {identity, gzip, deflate} "
            "plus 6 seeded short-read schedules; disk: one evaluation = one list of lines written with the real DiskSink (plain/.gz, every "
            "batch setting, several writes) and read back with DiskSource. non-trivial = payload has a multi-byte character or a CR; "
            "distinct = distinct payload digest")
    assumptions = ["the format-grammar clause of C12 (alternative spellings of ARFF/CSV/LibSVM/Manik) is NOT decided by this check",
                   "the HTTP layer is simulated at urlopen(): read(size) returns exactly size bytes unless a short-read plan is active",
                   "short-read schedules are reported only if the full-read enumeration of the same payload is clean",
                   "disk clause: lines do not contain CR or LF (the line framing cannot carry them)"]
    real_components = ["coba.pipes.sources.HttpSource.read/_resp_it_/_byte_it_", "DelimSource", "IterableSource", "zlib decompressobj",
                       "DiskSink / DiskSource on real files", "CsvReader / ArffReader / LibsvmReader / ManikReader (common dialect only)"]
    stub_components = ["urllib.request.urlopen and the HTTP response object (SimServer / SimResponse)"]

    def gen(self, rng, tier, index):
        kind = weighted(rng, [("text", 6), ("table", 2), ("disk", 2), ("repetitive", 0.6)])
        if kind == "text":
            cs = weighted(rng, [("utf-8", 8), ("latin-1", 1), ("utf-16", 1)])
            t = gen_text(rng, exotic=rng.random() < 0.25)
            if cs == "latin-1":
                t = "".join(ch if ord(ch) < 256 else "\u00ef\u00bb\u00bf"[ord(ch) % 3] for ch in t)
            return {"kind": kind, "text": t, "short_seed": rng.randrange(1 << 30), "charset": cs}
        if kind == "repetitive":
            return {"kind": "text", "text": gen_repetitive(rng), "short_seed": rng.randrange(1 << 30)}
        if kind == "table":
            t = gen_table(rng)
            t.update(kind=kind, short_seed=rng.randrange(1 << 30))
            return t
        chars = ["a", "b", " ", "é", "日", "😀", "\t", "\x0b", " ", ",", '"']
        lines = ["".join(rng.choice(chars) for _ in range(weighted(rng, [(0, 1), (1, 2), (5, 3), (300, 0.3)]))) for _ in range(rng.randrange(7))]
        return {"kind": kind, "lines": lines, "gz": rng.random() < 0.5, "batch": weighted(rng, [(None, 2), (1, 2), (2, 1), (3, 1), (5, 1)]),
                "writes": 1 + rng.randrange(3), "reopen": rng.random() < 0.4}

    # ------------------------------------------------------------------
    def run(self, cfg, seed, choices=None):
        out = {"counters": {}, "extra": {}, "trace": [], "decisions": 0, "switches": 0, "sim_s": 0.0}
        quiet_context()
        if cfg["kind"] == "disk":
            v = self._disk(cfg, out)
            text = "\n".join(cfg["lines"])
        else:
            v = self._delivery(cfg, out)
            text = cfg["text"]
        out["digest"] = hashlib.blake2b(json.dumps(cfg, sort_keys=True).encode(), digest_size=16).hexdigest()
        out["nontrivial"] = any(ord(c) > 127 for c in text) or "\r" in text
        out["violations"] = v
        out["violation"] = v[0] if v else None
        out["sample"] = {k: (val if k != "rows" else len(val)) for k, val in cfg.items()}
        return out

    def _delivery(self, cfg, out):
        from coba.pipes.sources import HttpSource
        srv = install_transport()
        text = cfg["text"]
        charset = cfg.get("charset", "utf-8")
        raw = text.encode(charset)
        expected = text.splitlines()
        vios = {}
        n = 0
        clean_full = True
        for enc in (None, "gzip", "deflate"):
            wire = encode_wire(raw, enc)
            srv.wire, srv.enc, srv.charset, srv.plan = wire, enc, charset, None
            sizes = range(1, len(wire) + 2)
            if len(wire) > 700:
                # long uncompressed payloads: all small sizes, the sizes around the length, and a seeded sample of the rest
                rs = random.Random(cfg["short_seed"] ^ len(wire))
                sizes = sorted(set(range(1, 97)) | {len(wire) - 1, len(wire), len(wire) + 1} | {rs.randrange(97, len(wire)) for _ in range(60)})
                out["extra"]["payloads_with_sampled_chunk_sizes"] = 1
            for size in sizes:
                n += 1
                v = self._one(HttpSource("http://sim/x", chunk_size=size), expected, f"encoding={enc or 'identity'} chunk_size={size}", text, size, raw if enc is None else None)
                if v is not None:
                    clean_full = False
                    vios.setdefault(v["key"], v)
        out["extra"]["deliveries_enumerated"] = n
        out["extra"]["payload_bytes"] = len(raw)
        out["counters"]["fault.segmentation_full_read"] = n
        # chunk_size None (whole text at once) is the reference itself: must agree as well
        srv.wire, srv.enc, srv.plan = raw, None, None
        try:
            whole = HttpSource("http://sim/x").read()
            if whole.splitlines() != expected:
                vios.setdefault("whole_text", vio("whole_text_differs", f"chunk_size=None returned {whole!r} for {text!r}", key="whole_text"))
        except Exception as e:
            vios.setdefault("whole_text", vio("whole_text_raised", f"chunk_size=None raised {type(e).__name__}: {e} for {text!r}", key=f"whole_text_raised:{type(e).__name__}"))
        if clean_full:
            r = random.Random(cfg["short_seed"])
            for k in range(6):
                enc = r.choice((None, "gzip", "deflate"))
                wire = encode_wire(raw, enc)
                size = r.randrange(2, max(3, len(wire)))
                plan = [r.randrange(1, size + 1) for _ in range(len(wire) + 2)]
                srv.wire, srv.enc, srv.plan = wire, enc, plan
                out["counters"]["fault.segmentation_short_read"] = out["counters"].get("fault.segmentation_short_read", 0) + 1
                v = self._one(HttpSource("http://sim/x", chunk_size=size), expected, f"encoding={enc or 'identity'} chunk_size={size} short reads {plan[:8]}", text, None, None)
                if v is not None:
                    v["key"] = "short_read:" + v["key"]
                    vios.setdefault(v["key"], v)
        # end-to-end through the real reader (common dialect only)
        if cfg["kind"] == "table" and not vios:
            r = random.Random(cfg["short_seed"] + 1)
            enc = r.choice((None, "gzip", "deflate"))
            wire = encode_wire(raw, enc)
            srv.wire, srv.enc, srv.plan = wire, enc, None
            size = r.randrange(1, len(wire) + 1)
            try:
                got = parse_table(cfg["fmt"], list(HttpSource("http://sim/x", chunk_size=size).read()))
                want = cfg["rows"] if cfg["fmt"] != "csv" else cfg["rows"]
                if cfg["fmt"] in ("libsvm", "manik"):
                    want = [[{int(k): v for k, v in x.items()}, y] for x, y in want]
                if got == want and cfg["fmt"] == "arff":
                    # "categorical levels": a nominal cell carries its column's declared levels, in the declared order, and its index in them
                    for ri, r_ in enumerate(got):
                        for ci, (cell, lv) in enumerate(zip(r_, cfg.get("levels") or [])):
                            if lv is None:
                                continue
                            out["counters"]["nominal_cells_checked"] = out["counters"].get("nominal_cells_checked", 0) + 1
                            oh = tuple(int(j == lv.index(str(cell))) for j in range(len(lv)))
                            if list(getattr(cell, "levels", [])) != lv or getattr(cell, "as_int", None) != lv.index(str(cell)) or getattr(cell, "as_onehot", None) != oh:
                                vios["table"] = vio("nominal_levels_misread", f"arff row {ri} column {ci}: value {str(cell)!r} declared levels {lv} but the cell "
                                                    f"carries levels={getattr(cell, 'levels', None)} as_int={getattr(cell, 'as_int', None)} as_onehot={getattr(cell, 'as_onehot', None)}",
                                                    key="nominal_levels_misread")
                if got != want:
                    vios["table"] = vio("table_misread", f"{cfg['fmt']} table delivered with chunk_size={size} encoding={enc}: parsed {got!r}, written {want!r}",
                                        key=f"table_misread:{cfg['fmt']}")
                out["counters"]["tables_parsed_end_to_end"] = 1
            except Exception as e:
                vios["table"] = vio("table_rejected", f"{cfg['fmt']} table in the common dialect raised {type(e).__name__}: {e}", key=f"table_rejected:{cfg['fmt']}:{type(e).__name__}")
        return list(vios.values())

    def _one(self, src, expected, label, text, size, raw):
        try:
            got = list(src.read())
        except Exception as e:
            cause = ""
            if isinstance(e, UnicodeDecodeError):
                cause = ":multibyte_char_split_across_chunks"
            return vio("delivery_raised", f"{label}: {type(e).__name__}: {e} (text {text!r})", key=f"delivery_raised:{type(e).__name__}{cause}")
        if got != expected:
            cause = "other"
            if raw is not None and size is not None:
                # which boundary feature does this chunk size hit?
                cuts = range(size, len(raw), size)
                if any(raw[c - 1:c] == b"\r" and raw[c:c + 1] == b"\n" for c in cuts):
                    cause = "crlf_split_across_chunks"
                elif any(raw[c - 1:c] == b"\r" for c in cuts):
                    cause = "chunk_ends_with_cr"
            if any(ch in text for ch in EXOTIC) and cause == "other":
                cause = "unicode_line_boundary_at_chunk_end"
            return vio("lines_differ", f"{label}: got {got!r}, whole text gives {expected!r}", key=f"lines_differ:{cause}")
        return None

    def _disk(self, cfg, out):
        from coba.pipes import DiskSink, DiskSource
        tmp = tempfile.mkdtemp(prefix="c12_", dir=TMP_ROOT)
        try:
            path = os.path.join(tmp, "f.txt" + (".gz" if cfg["gz"] else ""))
            lines = cfg["lines"]
            sink = DiskSink(path, batch=cfg["batch"])
            k = cfg["writes"]
            parts = [lines[i::k] for i in range(k)]
            written = []
            for p in parts:
                if cfg["reopen"]:
                    sink = DiskSink(path, batch=cfg["batch"])
                if len(p) == 1 and cfg["batch"] is None:
                    sink.write(p[0])       # a single string is accepted too
                else:
                    sink.write(iter(p))
                written.extend(p)
            got = list(DiskSource(path).read())
            out["counters"]["disk_roundtrips"] = 1
            if got != written:
                return [vio("disk_roundtrip_differs", f"DiskSink(batch={cfg['batch']}, gz={cfg['gz']}) wrote {written!r}, DiskSource read {got!r}",
                            key="disk_roundtrip_differs")]
            return []
        except Exception as e:
            return [vio("disk_roundtrip_raised", f"{type(e).__name__}: {e}", key=f"disk_roundtrip_raised:{type(e).__name__}")]
        finally:
            shutil.rmtree(tmp, ignore_errors=True)

    def extra_coverage(self, tier, agg):
        return {"exhaustive": True,
                "explanation": "exhaustive over chunk_size x content-encoding for every explored payload (deliveries_enumerated); payloads are sampled"}

    def shrink(self, cfg):
        if cfg["kind"] == "disk":
            for i in range(len(cfg["lines"]) - 1, -1, -1):
                c = copy.deepcopy(cfg); del c["lines"][i]; yield c
            for i, l in enumerate(cfg["lines"]):
                if len(l) > 1:
                    c = copy.deepcopy(cfg); c["lines"][i] = l[:len(l) // 2]; yield c
                    c = copy.deepcopy(cfg); c["lines"][i] = l[1:]; yield c
            return
        if cfg["kind"] == "text":
            t = cfg["text"]
            for i in range(len(t)):
                c = copy.deepcopy(cfg); c["text"] = t[:i] + t[i + 1:]; yield c


def make():
    return C12()
