"""Harness components for the experiment simulator: deterministic, picklable learners,
evaluators and environments (importable by name so that they cross the simulated spawn
boundary exactly as user classes do)."""
from sim.sched import cur_sim


def _yield(why):
    s = cur_sim()
    if s is not None and not s.closed and s.current is not None and not s.killing:
        s.yield_(why)


def _record(kind, *payload):
    """Side channel to the harness (lives outside every pickled object)."""
    s = cur_sim()
    if s is not None:
        s.user.setdefault("calls", []).append((kind,) + payload)
    else:
        _OUTSIDE.setdefault("calls", []).append((kind,) + payload)


_OUTSIDE = {}


def take_outside_calls():
    c = _OUTSIDE.pop("calls", [])
    return c


class Injected(Exception):
    """An injected component failure.  Raising one is recorded in the harness side channel
    together with the phase it happened in (inside an evaluator's evaluate() or not)."""

    def __init__(self, tag, _replay=False):
        super().__init__(tag)
        self.tag = tag
        if not _replay:
            import sys
            f, phase = sys._getframe(1), "other"
            while f is not None:
                if f.f_code.co_name == "evaluate":
                    phase = "eval"
                    break
                f = f.f_back
            _record("injected", tag, phase)

    def __reduce__(self):
        return (Injected, (self.tag, True))


# ----------------------------------------------------------------------------- JSON codec for generated values
def dec(v):
    """Decode the JSON encoding used in specs for tuples, special floats and rows with non-string keys."""
    if isinstance(v, dict):
        if "__tuple__" in v:
            return tuple(dec(x) for x in v["__tuple__"])
        if "__float__" in v:
            return float(v["__float__"])
        if "__row__" in v:
            return {dec(k): dec(x) for k, x in v["__row__"]}
        return {k: dec(x) for k, x in v.items()}
    if isinstance(v, list):
        return [dec(x) for x in v]
    return v


# ----------------------------------------------------------------------------- learners
class ParamLearner:
    def __init__(self, tag, params, share=None):
        self.tag, self._params = tag, dec(params)
        # share: learners with the same share key hand out ONE params dict object (a config dict the user passed to all of them);
        # it does not name a family.  build_experiment wires the common object up (one per build).
        self.share, self._shared = share, None

    @property
    def params(self):
        if self._shared is not None:
            return self._shared
        return dict(self._params, family="P", tag=self.tag)


class ParamLearnerB(ParamLearner):
    """Same behaviour, another class (so another default family name)."""

    def predict(self, context, actions):
        return actions[0], 1.0

    def learn(self, context, action, reward, probability):
        pass


class CounterLearner:
    """Stateful: what it predicts depends on everything it has learned so far."""

    def __init__(self, k=3, tag="c"):
        self.k, self.tag = k, tag
        self.n = 0
        self.acc = 0.0

    @property
    def params(self):
        return {"family": "Counter", "k": self.k, "tag": self.tag}

    def predict(self, context, actions):
        _yield("lrn.predict")
        i = (self.n * self.k + int(self.acc * 10)) % len(actions)
        return actions[i], 1.0

    def learn(self, context, action, reward, probability):
        self.n += 1
        r = sum(reward) if isinstance(reward, (tuple, list)) else reward
        self.acc = round(self.acc + float(r), 6)


class PMFLearner:
    """Returns a PMF (the evaluator's seeded generator picks the action); state dependent."""

    def __init__(self, tag="p"):
        self.tag = tag
        self.n = 0

    @property
    def params(self):
        return {"family": "PMF", "tag": self.tag}

    def predict(self, context, actions):
        _yield("lrn.predict")
        w = [1 + ((self.n + i) % 3) for i in range(len(actions))]
        t = sum(w)
        return [x / t for x in w]

    def learn(self, context, action, reward, probability):
        self.n += 1


class LowBitsLearner:
    """Chooses by the low-order digits of the last numeric feature: sensitive to anything that rounds or rewrites the environment's data."""

    def __init__(self, tag="lb"):
        self.tag = tag

    @property
    def params(self):
        return {"family": "LowBits", "tag": self.tag}

    def predict(self, context, actions):
        x = next((v for v in reversed(list(context) if context is not None and not isinstance(context, (str, int, float)) else [context])
                  if isinstance(v, float)), 0.0)
        return actions[int(abs(x) * 1e9) % len(actions)], 1.0

    def learn(self, context, action, reward, probability):
        pass


class InitDrawLearner:
    """A seeded learner that uses its OWN CobaRandom already in __init__ (random initial weights) and keeps drawing from it afterwards."""

    def __init__(self, seed=3, tag="id"):
        from coba.random import CobaRandom
        self.tag, self.seed = tag, seed
        self._rng = CobaRandom(seed)
        self.w = self._rng.randoms(3)          # "initial weights"

    @property
    def params(self):
        return {"family": "InitDraw", "tag": self.tag, "seed": self.seed}

    def predict(self, context, actions):
        return self._rng.choice(actions), 1 / len(actions)

    def learn(self, context, action, reward, probability):
        pass


class ModuleRandomLearner:
    """Draws its actions with the module-level functions of coba.random - what coba's own deprecation warning for PMF learners
    recommends (coba.random.choicew) and what its documentation notebooks do."""

    def __init__(self, tag="mr"):
        self.tag = tag

    @property
    def params(self):
        return {"family": "ModuleRandom", "tag": self.tag}

    def predict(self, context, actions):
        import coba.random
        _yield("lrn.predict")
        return coba.random.choicew(actions, [1 / len(actions)] * len(actions))

    def learn(self, context, action, reward, probability):
        pass


class KwargsLearner:
    """Returns (action, prob, kwargs) and demands the kwargs back in learn."""

    def __init__(self, tag="k"):
        self.tag = tag
        self.n = 0

    @property
    def params(self):
        return {"family": "Kwargs", "tag": self.tag}

    def predict(self, context, actions):
        i = self.n % len(actions)
        return actions[i], 1.0, {"step": self.n}

    def learn(self, context, action, reward, probability, step):
        if step != self.n:
            raise AssertionError(f"kwargs not handed back unchanged: {step} != {self.n}")
        self.n += 1


class FaultyLearner:
    """Raises at its k-th predict / learn when the context carries the chosen env tag, or when
    asked for params.  The failure is a function of the learner's own local history only, so
    an evaluation alone and the same evaluation inside a larger experiment are comparable."""

    def __init__(self, where, k, env_tag=None, tag="f", same_obj=False):
        self.where, self.k, self.env_tag, self.tag = where, k, env_tag, tag
        self.n_pred = 0
        self.n_learn = 0
        # same_obj: the learner raises the very same exception object every time it fails (a stored / pre-made error), e.g. for the
        # batched call and again for the row-by-row fallback of SafeLearner
        self.same_obj, self._err = same_obj, None

    def _fail(self, what):
        if not self.same_obj:
            raise Injected(f"{what}:{self.tag}")
        if self._err is None:
            self._err = Injected(f"{what}:{self.tag}")
        raise self._err

    @property
    def params(self):
        if self.where == "params":
            raise Injected(f"params:{self.tag}")
        return {"family": "Faulty", "tag": self.tag, "where": self.where, "k": self.k}

    def __deepcopy__(self, memo):
        # where == "copy": a learner that cannot be deep-copied (holds a lock, an open file, a native handle ...).  It is only ever copied
        # when it is listed for several triples; the failure belongs to the triple ProcessTasks was about to evaluate
        if self.where == "copy":
            raise Injected(f"copy:{self.tag}")
        new = type(self).__new__(type(self))
        memo[id(self)] = new
        import copy
        for k, v in self.__dict__.items():
            setattr(new, k, copy.deepcopy(v, memo))
        return new

    def _hit(self, context):
        if self.env_tag is None:
            return True
        try:
            return context is not None and self.env_tag in context
        except TypeError:
            return False

    def predict(self, context, actions):
        _yield("lrn.predict")
        if self.where == "predict" and self._hit(context):
            if self.n_pred == self.k:
                self._fail("predict")
        self.n_pred += 1
        return actions[self.n_pred % len(actions)], 1.0

    def learn(self, context, action, reward, probability):
        if self.where == "learn" and self._hit(context):
            if self.n_learn == self.k:
                self._fail("learn")
        self.n_learn += 1


class InfoLearner:
    """Publishes values through CobaContext.learning_info (which evaluators move into the rows);
    optionally fails in learn right after having published in predict."""

    def __init__(self, tag="i", every=1, raise_at=None, skip_first=False, transient_raise_at=None):
        self.tag, self.every, self.raise_at = tag, every, raise_at
        self.n = 0
        # skip_first: nothing is published in the very first round; transient_raise_at: learn fails ONCE per run (whichever copy of this
        # learner gets there first) right after predict has published - a fault, not a property of the learner
        self.skip_first, self.transient_raise_at = skip_first, transient_raise_at

    @property
    def params(self):
        return {"family": "Info", "tag": self.tag, "every": self.every}

    def predict(self, context, actions):
        from coba.context import CobaContext
        if self.n % self.every == 0 and not (self.skip_first and self.n == 0):
            CobaContext.learning_info["published"] = f"{self.tag}:{self.n}"
        return actions[self.n % len(actions)], 1.0

    def score(self, context, actions, action):
        # (off-policy evaluators such as RejectionCB ask for scores instead of predictions: the learner reports there as well)
        from coba.context import CobaContext
        if self.n % self.every == 0 and not (self.skip_first and self.n == 0):
            CobaContext.learning_info["published"] = f"{self.tag}:{self.n}"
        return 1 / len(actions)

    def learn(self, context, action, reward, probability):
        if self.raise_at is not None and self.n == self.raise_at:
            raise Injected(f"learn:{self.tag}")
        if self.transient_raise_at == self.n and INTERRUPTS_ENABLED and ("info", self.tag) not in TRANSIENT_FIRED:
            TRANSIENT_FIRED.add(("info", self.tag))
            raise Injected(f"transient:{self.tag}")
        self.n += 1


class RecordingLearner:
    """Records every call into the harness side channel (who evaluated what, and where)."""

    def __init__(self, tag):
        self.tag = tag
        self.n = 0

    @property
    def params(self):
        _record("lrn.params", self.tag)
        return {"family": "Recording", "tag": self.tag}

    def predict(self, context, actions):
        _record("lrn.predict", self.tag)
        _yield("lrn.predict")
        return actions[self.n % len(actions)], 1.0

    def learn(self, context, action, reward, probability):
        _record("lrn.learn", self.tag)
        self.n += 1


# ----------------------------------------------------------------------------- environments
TRANSIENT_FIRED = set()         # transient faults that have fired in the current run (cleared by the check at the start of a run)
INTERRUPTS_ENABLED = True       # (switched off while a check reads its fault-free reference twin)


class TaggedEnv:
    """Class based environment; every context carries the env tag (a string feature)."""

    def __init__(self, tag, n, n_actions=3, fail_at=None, extra=False, params_raise=False, interrupt_at=None, ctx_list=False, mod_rng=False,
                 nested_run=False, reward_obj=None, ctx_shift=0):
        self.ctx_shift = ctx_shift     # numeric context features live on another range (environments that differ in their statistics)
        # rewards handed over as a reward OBJECT the caller built (with a default for actions it does not list / a non-default value)
        self.reward_obj = reward_obj
        self.tag, self.n, self.n_actions, self.fail_at, self.extra, self.params_raise = tag, n, n_actions, fail_at, extra, params_raise
        # a transient fault: the first read that reaches item `interrupt_at` is hit by a Ctrl-C (KeyboardInterrupt, a BaseException)
        self.interrupt_at, self.interrupted = interrupt_at, False
        self.ctx_list = ctx_list       # contexts are (mutable) lists instead of tuples
        self.mod_rng = mod_rng         # a feature of every context is drawn with the module-level coba.random functions
        self.nested_run = nested_run   # read() first runs a small Experiment of its own (e.g. to create its data)

    @property
    def params(self):
        if self.params_raise:
            raise Injected(f"params:{self.tag}")
        return {"env_type": "Tagged", "tag": self.tag, "n": self.n}

    def read(self):
        from coba.primitives import SimulatedInteraction
        if self.nested_run:
            import coba as cb
            cb.Experiment(cb.Environments.from_linear_synthetic(3, n_actions=2, n_context_features=1, n_action_features=0, seed=1), cb.RandomLearner(seed=1)).run(quiet=True, seed=7)
        for i in range(self.n):
            if self.fail_at is not None and i == self.fail_at:
                raise Injected(f"read:{self.tag}:{i}")
            if self.interrupt_at is not None and i == self.interrupt_at and not self.interrupted and INTERRUPTS_ENABLED:
                self.interrupted = True
                raise KeyboardInterrupt()
            ctx = (self.tag, i % 5, (i * 7 % 11) / 11)
            if getattr(self, "ctx_shift", 0):
                ctx = (self.tag, (i % 5) * (1 + self.ctx_shift) + 3 * self.ctx_shift, (i * 7 % 11) / 11 - self.ctx_shift)
            if self.mod_rng:
                import coba.random
                ctx = ctx + (round(coba.random.random(), 4),)
            if self.ctx_list:
                ctx = list(ctx)
            acts = list(range(self.n_actions))
            rwds = [round(((i + a * 3) % 7) / 7, 5) for a in acts]
            if getattr(self, "reward_obj", None):
                from coba.primitives import DiscreteReward, BinaryReward
                if self.reward_obj == "discrete_default":
                    rwds = DiscreteReward(acts[:-1], rwds[:-1], default=-1.0)
                elif self.reward_obj == "discrete_map":
                    rwds = DiscreteReward({a: r for a, r in zip(acts[1:], rwds[1:])}, default=0.25)
                else:
                    rwds = BinaryReward(acts[i % len(acts)], 2.0)
            if self.extra:
                yield SimulatedInteraction(ctx, acts, rwds, step=i)
            else:
                yield SimulatedInteraction(ctx, acts, rwds)


class CachedEnv:
    """An environment whose data comes through CobaContext.cacher.get_set (what OpenmlSource does): in a multi-process
    experiment several workers contend for the same cache entry through the ConcurrentCacher that CobaMultiprocessor installs."""

    def __init__(self, tag, key, n, n_actions=2):
        self.tag, self.key, self.n, self.n_actions = tag, key, n, n_actions

    @property
    def params(self):
        return {"env_type": "Cached", "tag": self.tag, "key": self.key, "n": self.n}

    def read(self):
        from coba.context import CobaContext
        from coba.primitives import SimulatedInteraction
        key, n = self.key, self.n

        def getter():
            s = cur_sim()
            _record("cache.getter", key, s.current.pid if s is not None and s.current is not None else 0)
            for i in range(n):
                _yield("cache.getter.line")
                yield f"{key}:{i}"

        with CobaContext.cacher.get_set(key, getter) as lines:
            data = [l.strip() for l in lines]
        if data != [f"{key}:{i}" for i in range(n)]:
            raise AssertionError(f"cache entry {key!r} is not complete: {data!r}")
        for i in range(n):
            acts = list(range(self.n_actions))
            yield SimulatedInteraction((self.tag, i % 3), acts, [((i + a) % 5) / 5 for a in acts])


# ----------------------------------------------------------------------------- evaluators
class RowsEvaluator:
    """Yields prepared rows (C07) - ignores the learner, reads the environment only to count."""

    def __init__(self, rows_by_env, params=None, tag="rows", fail_after=None, reuse_list=False, readonly_params=False):
        self.rows_by_env = rows_by_env      # "env tag/learner tag" -> list of (encoded) rows
        self._params = dec(params or {})
        self.readonly_params = readonly_params
        self.single_mapping = False
        self.tag = tag
        self.fail_after = fail_after
        # reuse_list: evaluate() returns a list object that the evaluator keeps, clears and refills on its next call (a result buffer)
        self.reuse_list, self._buf = reuse_list, []

    @property
    def params(self):
        if self.readonly_params:
            import types
            return types.MappingProxyType(dict(self._params))
        return dict(self._params)

    def evaluate(self, environment, learner):
        if getattr(self, "single_mapping", False):
            rows = list(self._rows(environment, learner))
            if len(rows) == 1:
                return rows[0]        # one Mapping instead of an iterable of mappings (the interface allows both)
            return rows
        if self.reuse_list:
            self._buf.clear()
            self._buf.extend(self._rows(environment, learner))
            return self._buf
        return self._rows(environment, learner)

    def _rows(self, environment, learner):
        import copy
        tag = environment.params.get("tag")
        lt = getattr(learner, "tag", None)
        rows = self.rows_by_env.get(f"{tag}/{lt}", self.rows_by_env.get(tag, []))
        for i, r in enumerate(rows):
            if self.fail_after is not None and i == self.fail_after:
                raise Injected(f"evaluate:{self.tag}")
            _yield("val.row")
            row = dec(copy.deepcopy(r))
            _record("val.row", self.tag, tag, lt, i)
            yield row


class TapEvaluator:
    """Wraps a real evaluator and records (a deep copy of) every row it yields."""

    def __init__(self, inner, tag="tap"):
        self.inner, self.tag = inner, tag

    @property
    def params(self):
        return dict(self.inner.params, tapped=type(self.inner).__name__)

    def evaluate(self, environment, learner):
        import copy
        etag = environment.params.get("tag")
        ltag = getattr(learner, "tag", None)
        for row in self.inner.evaluate(environment, learner):
            _record("tap.row", etag, ltag, copy.deepcopy(dict(row)))
            yield row


class CountingEvaluator:
    """Wraps a real evaluator, records which (env, learner) it was asked to evaluate."""

    def __init__(self, inner, tag="cnt"):
        self.inner, self.tag = inner, tag

    @property
    def params(self):
        p = dict(self.inner.params)
        p["wrapped"] = type(self.inner).__name__
        return p

    def evaluate(self, environment, learner):
        _record("val.evaluate", self.tag, getattr(environment, "_c02_env", None), getattr(learner, "_c02_lrn", None))
        yield from self.inner.evaluate(environment, learner)


class FaultyEvaluator:
    def __init__(self, inner, fail_after, tag="fv", params_raise=False):
        self.inner, self.fail_after, self.tag, self.params_raise = inner, fail_after, tag, params_raise

    @property
    def params(self):
        if self.params_raise:
            raise Injected(f"params:{self.tag}")
        return {"wrapped": type(self.inner).__name__, "fail_after": self.fail_after}

    def evaluate(self, environment, learner):
        for i, row in enumerate(self.inner.evaluate(environment, learner)):
            if i == self.fail_after:
                raise Injected(f"evaluate:{self.tag}")
            yield row


def fn_evaluator(environment, learner):
    """A plain-function evaluator."""
    n = 0
    for inter in environment.read():
        n += 1
        if n > 3:
            break
        yield {"n": n, "has_actions": "actions" in inter}


def _env_name(env):
    try:
        p = env.params
        return p.get("tag", p.get("env_type", "?")) if hasattr(p, "get") else "?"
    except Exception:
        return "?"
