"""Helper interpreter for C04: reads a pickled environment in a process whose str hash randomisation DIFFERS from the check's (what a
spawned worker or a later session is).  One JSON request per line on stdin ({"env": <base64 pickle>}), one JSON answer per line
({"rows": <base64 pickle of the canonical interactions>} or {"err": ...})."""
import base64
import json
import os
import pickle
import sys
import warnings

warnings.filterwarnings("ignore")
HERE = os.path.dirname(os.path.dirname(os.path.abspath(__file__)))
sys.path.insert(0, HERE)
if os.environ.get("COBA_VERIF_SRC"):
    sys.path.insert(0, os.environ["COBA_VERIF_SRC"])
from checks.c04 import canon  # noqa: E402
from checks.common import quiet_context  # noqa: E402

quiet_context()

from checks import components as K  # noqa: E402
from sim.world import install, reset_coba_globals  # noqa: E402

for line in sys.stdin:
    req = json.loads(line)
    try:
        # every request starts from the process-global state of a fresh interpreter (as every run of the check does: sim/runner.py _fresh),
        # so an answer is a function of the request alone; the source's injected Ctrl-C is a fault of the check's own reads, not of this one
        install()
        reset_coba_globals()
        K.TRANSIENT_FIRED.clear()
        K.INTERRUPTS_ENABLED = False
        env = pickle.loads(base64.b64decode(req["env"]))
        rows = [canon(i) for i in env.read()]
        ans = {"rows": base64.b64encode(pickle.dumps(rows)).decode()}
    except BaseException as e:      # noqa: B902 (the answer must always be written)
        ans = {"err": f"{type(e).__name__}: {str(e)[:300]}"}
    sys.stdout.write(json.dumps(ans) + "\n")
    sys.stdout.flush()
