"""C01 - Experiment results do not depend on execution configuration.

Three executions of the same spec: in-process reference, simulated multi-process run under a
sampled (processes, maxchunksperchild, maxtasksperchunk) and schedule, in-process again.
All four tables and .experiment must be equal (timing columns aside)."""
import copy

from checks.common import vio
from checks import expsim as X


class C01:
    prop = "C01"
    state_measure = ("of the simulated multi-process run(s): per queue (pipe length, outstanding count) x per live task (task kind, kind of "
                     "thing it is blocked on), sampled at every scheduler decision; hashed; distinct values counted")
    level = "exploration"
    design_ref = "DESIGN.md 3.1"
    tiers = {"quick": {"runs": 2000, "budget_s": 80, "chunk": 8, "twice_every": 8, "shrink_s": 60},
             "thorough": {"runs": 120000, "budget_s": 840, "chunk": 8, "twice_every": 16, "shrink_s": 180}}
    rule = ("one run = one (experiment spec, execution configuration, schedule): 1-3 environment groups built through the "
            "public Environments API (synthetic / class-based sources, shared chunk()/cache() prefixes, shuffle fan-out, "
            "take/slice/scale/noise/params/batch/reservoir/where/sort), 1-3 learners (built-in and stateful / PMF / kwargs harness "
            "learners, possibly shared between triples), SequentialCB variants or a function evaluator, cross product or explicit "
            "tuple list; executed in-process, on 1-4 simulated worker processes with maxchunksperchild 0-3 and maxtasksperchunk "
            "0-3 under a seeded schedule, and in-process again; non-trivial = worker processes were started and the baton moved; "
            "distinct = distinct event-log digest")
    assumptions = ["components are seeded / deterministic as the property requires",
                   "worker processes are simulated: interleavings of their primitive operations stand for OS schedules",
                   "optional packages (numpy, vowpalwabbit, torch, cloudpickle) are absent; experiments that the multi-process path explicitly "
                   "refuses because a component cannot be pickled with the standard pickler are skipped (counted)"]
    real_components = ["coba.experiments.Experiment.run", "MakeTasks", "ChunkTasks", "ProcessTasks", "CobaMultiprocessor",
                       "Multiprocessor", "TransactionEncode/Decode/Result", "ListSink/ListSource", "SafeLearner/SafeEnvironment/SafeEvaluator",
                       "SequentialCB", "environment filters", "built-in learners", "loggers"]
    stub_components = ["multiprocessing spawn context (Process, Queue, Event, Pipe, Lock, Semaphore, RawArray)",
                       "threading.Thread/Lock in coba.pipes.lines", "harness learners/environments/evaluators (deterministic user code)"]

    def gen(self, rng, tier, index):
        return {"spec": X.gen_spec(rng, initdraw=True), "config": X.gen_config(rng), "knobs": X.gen_knobs(rng)}

    def run(self, cfg, seed, choices=None):
        spec = cfg["spec"]
        try:
            ref, _, log1 = X.run_inproc(spec)
        except Exception as e:
            # the generator produced an experiment that cannot even be constructed/run in-process
            return {"digest": "invalid", "trace": [], "nontrivial": False, "violation": None, "counters": {"invalid_spec": 1},
                    "sample": None}
        t_ref = X.tables(ref)
        try:
            sim, outcome, res, _, log2 = X.run_simulated(spec, cfg["config"], seed, choices, knobs=cfg["knobs"])
        except X.InvalidSpec:
            return {"digest": "invalid", "trace": [], "nontrivial": False, "violation": None, "counters": {"invalid_spec": 1}, "sample": None}
        out = X.sim_summary(sim)
        started = sim.counters.get("process_started", 0)
        out["nontrivial"] = started > 0 and sim.n_switches > 0 and len(t_ref["interactions"]) > 0
        out["counters"]["reach.worker_restarted"] = int(started > cfg["config"][0])
        getters = {}
        for c in sim.user.get("calls", []):
            if c[0] == "cache.getter":
                getters.setdefault(c[1], []).append(c[2])
        if getters:
            out["counters"]["reach.cache_entry_populated_in_worker"] = 1
            out["counters"]["sim_seconds_in_cache_waits"] = int(sim.now)
        out["counters"]["interaction_rows"] = len(t_ref["interactions"])
        for g in spec["envs"]:
            out["counters"][f"reach.src.{g['src'][0]}"] = out["counters"].get(f"reach.src.{g['src'][0]}", 0) + (1 if t_ref["interactions"] else 0)
        out["counters"][f"reach.flavour.{spec.get('flavour')}"] = 1
        for l in spec["learners"]:
            out["counters"][f"reach.learner.{l[0]}"] = 1
        for e in spec["evaluators"]:
            out["counters"][f"reach.evaluator.{e[0]}"] = 1
        out["counters"]["triples_with_rows"] = len({(r["environment_id"], r["learner_id"], r["evaluator_id"]) for r in t_ref["interactions"]})
        v = None
        twice = {k: p for k, p in getters.items() if len(p) > 1}
        if twice:
            v = vio("cache_getter_ran_twice", f"cache entries were fetched more than once although they stay cached (key -> pids): {twice}")
        elif outcome in ("deadlock", "livelock"):
            v = vio(outcome, f"{outcome} in Experiment.run under config {cfg['config']}: {sim.outcome_info}")
        elif "exc" in sim.result:
            v = vio("run_raised", f"Experiment.run raised under config {cfg['config']}: {sim.result['exc']!r}\n{sim.result.get('tb','')[-1500:]}")
        elif X.refused_to_pickle(log2):
            out["counters"]["skipped_not_picklable_without_cloudpickle"] = 1
            out["nontrivial"] = False
        else:
            t_sim = X.tables(res)
            d = X.diff_tables(t_ref, t_sim)
            if d:
                v = vio("config_dependent_result", f"in-process vs processes={cfg['config'][0]},maxchunksperchild={cfg['config'][1]},"
                                                   f"maxtasksperchunk={cfg['config'][2]}: {d}")
                import json as _json
                if '"initdraw"' in _json.dumps(spec["learners"]):
                    # (a learner that has already drawn from its own CobaRandom when it is copied or pickled: see the known finding)
                    v["key"] = "cobarandom_copy_rewinds_to_its_seed"
            else:
                ref2, _, _ = X.run_inproc(spec)
                d2 = X.diff_tables(t_ref, X.tables(ref2))
                if d2:
                    v = vio("second_run_differs", f"constructing and running the same experiment again in-process: {d2}")
        out["violation"] = v
        out["sample"] = {"spec": spec, "config": cfg["config"], "knobs": cfg["knobs"], "outcome": outcome,
                         "interaction_rows": len(t_ref["interactions"]), "processes_started": started,
                         "first_choices": sim.trace[:20]}
        return out

    def shrink(self, cfg):
        yield from shrink_spec_cfg(cfg)


def shrink_spec_cfg(cfg):
    spec = cfg["spec"]
    for gi in range(len(spec["envs"]) - 1, -1, -1):
        if len(spec["envs"]) > 1:
            c = copy.deepcopy(cfg); del c["spec"]["envs"][gi]; yield c
    if spec["shape"] == "tuples":
        for ti in range(len(spec["tuples"]) - 1, -1, -1):
            if len(spec["tuples"]) > 1:
                c = copy.deepcopy(cfg); del c["spec"]["tuples"][ti]; yield c
    for li in range(len(spec["learners"]) - 1, -1, -1):
        if len(spec["learners"]) > 1:
            c = copy.deepcopy(cfg); del c["spec"]["learners"][li]; yield c
    for vi in range(len(spec["evaluators"]) - 1, -1, -1):
        if len(spec["evaluators"]) > 1:
            c = copy.deepcopy(cfg); del c["spec"]["evaluators"][vi]; yield c
    for gi, g in enumerate(spec["envs"]):
        for oi in range(len(g["ops"]) - 1, -1, -1):
            c = copy.deepcopy(cfg); del c["spec"]["envs"][gi]["ops"][oi]; yield c
        for key in ("n_interactions", "n"):
            if key in g["src"][1] and isinstance(g["src"][1][key], int) and g["src"][1][key] > 2:
                c = copy.deepcopy(cfg); c["spec"]["envs"][gi]["src"][1][key] = max(2, g["src"][1][key] // 2); yield c
        for oi, (name, a) in enumerate(g["ops"]):
            if name == "shuffle_n" and a["n"] > 1:
                c = copy.deepcopy(cfg); c["spec"]["envs"][gi]["ops"][oi][1]["n"] = a["n"] - 1; yield c
    for li, l in enumerate(spec["learners"]):
        if l[0] != "random":
            c = copy.deepcopy(cfg); c["spec"]["learners"][li] = ["random", {"seed": 1}]; yield c
    p, mc, mt = cfg["config"]
    if p > 1:
        c = copy.deepcopy(cfg); c["config"][0] = p - 1
        if c["config"][0] == 1 and mc == 0:
            c["config"][1] = 1
        yield c
    if mc > 1 or (mc == 1 and p > 1):
        c = copy.deepcopy(cfg); c["config"][1] = mc - 1; yield c
    if mt > 0:
        c = copy.deepcopy(cfg); c["config"][2] = mt - 1; yield c
    for k, v in (("feeder_delay", False), ("pipe_cap", None), ("p_stay", 0.9), ("opcode_plan", None), ("opcode_dense", None)):
        if cfg["knobs"].get(k) != v:
            c = copy.deepcopy(cfg); c["knobs"][k] = v; yield c
    if spec.get("quiet") is False:
        c = copy.deepcopy(cfg); c["spec"]["quiet"] = True; yield c


def make():
    return C01()
