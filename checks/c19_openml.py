"""C19, second workload: the shared cache as OpenML downloads use it (coba/environments/openml.py is one of C19's anchors).

Several simulated worker processes read the same OpenML datasets through the REAL OpenmlSource -> HttpSource -> CobaContext.cacher
(= the real ConcurrentCacher over the real DiskCacher / MemoryCacher, with the shared lock array, lock and request semaphore that
CobaMultiprocessor hands to its workers).  The only stub is the HTTP server behind urllib's urlopen: it serves a small generated
dataset (description, features, ARFF, task) and injects what real downloads meet - HTTP 5xx / 412 / 404, a timeout before the first byte,
a timeout, a reset, an IncompleteRead or a silently closed connection after part of the body has arrived (in reality: after the first 10 MB chunk), a Ctrl-C while lines are
being written to the cache - at planned requests of planned callers, while a seeded scheduler interleaves the workers.

Oracle (the clauses of C19, observed end to end): every read either yields exactly the rows that a fault-free, cache-less read of the
same dataset yields ("every caller receives the complete value"), or raises - and it may only raise if a fault was delivered to one of ITS
OWN requests; nobody waits forever; after all callers have left, no cell of the lock array, no entry of a lock table and no unit of the
request semaphore is still held; and a final fault-free reader gets the complete dataset ("a getter that fails part-way never leaves an
entry that is later served as if it were complete")."""
import io
import json
import os
import shutil
import tempfile

from checks.common import vio, weighted, quiet_context
from sim import prims
from sim.sched import cur_sim

TMP_ROOT = "/dev/shm" if os.path.isdir("/dev/shm") else tempfile.gettempdir()

FAULTS = ("http_500", "http_412_key", "http_404", "timeout_open", "timeout_body", "reset_body", "interrupt_body", "closed_early", "incomplete_read")


# ----------------------------------------------------------------------------- the simulated server
class _Hdr:
    def __init__(self, enc=None):
        self._enc = enc

    def get(self, name, default=None):
        return self._enc if (name == "Content-Encoding" and self._enc) else default

    def get_charsets(self):
        return ["utf-8"]


class _ErrBody(io.BytesIO):
    headers = _Hdr()

    def info(self):
        return self.headers


class OResponse:
    """Response of the simulated server.  read(size) delivers the body in the pieces the plan prescribes (one piece = in reality one
    10 MB chunk) and fails after the planned piece."""

    def __init__(self, server, caller, body, pieces, fail_after, fail_kind, enc=None):
        self.server, self.caller = server, caller
        self.headers = _Hdr(enc)
        self._parts = pieces
        self._fail_after, self._fail_kind = fail_after, fail_kind
        self._n = 0
        self._rest = body[sum(map(len, pieces)):]
        # like http.client.HTTPResponse: the bytes of a Content-Length body that are still to come; None for a body that is delimited
        # by the server closing the connection (then nothing but the content itself can tell that it is incomplete)
        self.length = None if enc else len(body)

    def info(self):
        return self.headers

    def read(self, size=-1):
        s = cur_sim()
        if s is not None and not s.closed:
            s.yield_("http.read")
        if self._fail_kind is not None and self._n >= self._fail_after:
            self.server.deliver(self.caller, self._fail_kind)
            if self._fail_kind == "timeout_body":
                if s is not None and not s.closed:
                    s.sleep(5.0)
                raise TimeoutError("timed out")
            if self._fail_kind == "reset_body":
                raise ConnectionResetError(104, "Connection reset by peer")
            if self._fail_kind == "incomplete_read":
                # a chunked-transfer response dropped inside a chunk: http.client raises IncompleteRead carrying the bytes that did arrive
                import http.client
                raise http.client.IncompleteRead(self._rest[:7], 100)
            if self._fail_kind == "closed_early":
                # the peer closed the connection: HTTPResponse.read(amt) of a Content-Length body just returns b'' (only read() without an
                # amount raises IncompleteRead) and leaves .length at what is still missing (verified against http.client of Python 3.12)
                return b""
            raise KeyboardInterrupt()
        if self._n >= len(self._parts):
            return b""
        self._n += 1
        if self.length is not None:
            self.length -= len(self._parts[self._n - 1])
        return self._parts[self._n - 1]

    def __enter__(self):
        return self

    def __exit__(self, *a):
        self.server.inflight -= 1
        return False


class OServer:
    def __init__(self):
        self.reset({}, {}, {})

    def reset(self, routes, plan, callers, gz=False):
        self.gz = gz
        self.routes = routes            # url path -> body text
        self.plan = plan                # "caller:ordinal" -> fault kind
        self.callers = callers          # task id -> caller index
        self.ordinal = {}               # caller -> number of requests made
        self.delivered = {}             # caller -> [fault kinds delivered, in order]
        self.served_ok = {}             # path -> complete bodies served
        self.inflight = 0
        self.max_inflight = 0
        self.requests = 0
        self.log = []

    def deliver(self, caller, kind):
        self.delivered.setdefault(caller, []).append(kind)
        s = cur_sim()
        if s is not None:
            s.count(f"fault.http.{kind}")

    def urlopen(self, req, timeout=None):
        from urllib import request as real
        s = cur_sim()
        live = s is not None and not s.closed
        url = req.full_url.split("?")[0]
        path = url.split("openml.org", 1)[1]
        caller = self.callers.get(s.current.id, "main") if live and s.current is not None else "ref"
        k = self.ordinal.get(caller, 0)
        self.ordinal[caller] = k + 1
        self.requests += 1
        fault = self.plan.get(f"{caller}:{k}")
        self.log.append((caller, k, path, fault))
        if live:
            s.yield_("http.open")
            s.sleep(0.05)
        if fault == "timeout_open":
            self.deliver(caller, fault)
            if live:
                s.sleep(float(timeout or 5))
            raise TimeoutError("timed out")
        if fault == "http_500":
            self.deliver(caller, fault)
            raise real.HTTPError(url, 500, "Internal Server Error", _Hdr(), _ErrBody(b"something broke"))
        if fault == "http_412_key":
            self.deliver(caller, fault)
            raise real.HTTPError(url, 412, "Precondition Failed", _Hdr(), _ErrBody(b"Please provide API key"))
        if fault == "http_404" or path not in self.routes:
            self.deliver(caller, "http_404")
            raise real.HTTPError(url, 404, "Not Found", _Hdr(), _ErrBody(b"unknown"))
        body = self.routes[path].encode("utf-8")
        enc = None
        if self.gz:
            # the server compresses and does not announce a length: the body ends when it closes the connection
            import gzip as _gz
            body, enc = _gz.compress(body, mtime=0), "gzip"
        self.inflight += 1
        self.max_inflight = max(self.max_inflight, self.inflight)
        if fault in ("timeout_body", "reset_body", "interrupt_body", "closed_early", "incomplete_read"):
            # the body arrives in two pieces (cut at a line boundary somewhere inside, if there is one) and the connection fails
            # after the first: in reality a body larger than HttpSource's 10 MB chunk whose second chunk never arrives
            cut = self._cut(body, caller, k)
            return OResponse(self, caller, body, [body[:cut]] if cut else [], 1 if cut else 0, fault, enc)
        self.served_ok[path] = self.served_ok.get(path, 0) + 1
        n = len(body)
        pieces = [body] if n < 40 or (k + len(path)) % 3 else [body[:n // 2], body[n // 2:]]
        return OResponse(self, caller, body, pieces, None, None, enc)

    @staticmethod
    def _cut(body, caller, k):
        nl = [i + 1 for i, b in enumerate(body) if b == 10] if not body.startswith(b"\x1f\x8b") else []
        if len(nl) < 2:
            return len(body) // 2
        # a few bytes past a line boundary, so that complete lines have been handed on and a partial one is held back
        return min(len(body) - 1, nl[(k * 7 + 3) % (len(nl) - 1)] + (k % 3))


class _Shim:
    def __init__(self, real, server):
        self._real, self._server = real, server

    def urlopen(self, req, timeout=None):
        return self._server.urlopen(req, timeout)

    def __getattr__(self, name):
        return getattr(self._real, name)


_SERVER = OServer()


def install_transport():
    import coba.pipes.sources as S
    from checks import c12
    if isinstance(S.request, c12._RequestShim):         # (the two checks never run in one interpreter, but be safe)
        S.request = S.request._real
    if not isinstance(S.request, _Shim):
        S.request = _Shim(S.request, _SERVER)
    return _SERVER


# ----------------------------------------------------------------------------- generated datasets
def make_routes(datasets, tasks):
    routes = {}
    for d in datasets:
        did = d["id"]
        descr = {"data_set_description": {"id": str(did), "name": f"d{did}", "file_id": str(d["file_id"]), "status": d.get("status", "active"),
                                          "default_target_attribute": "y,z" if d.get("multi_target") else "y"}}
        feats = [{"index": str(i), "name": n, "data_type": t, "is_target": "true" if n == "y" else "false",
                  "is_ignore": "true" if n == "junk" else "false", "is_row_identifier": "true" if n == "rid" else "false"}
                 for i, (n, t, _) in enumerate(d["cols"])]
        routes[f"/api/v1/json/data/{did}"] = json.dumps(descr)
        routes[f"/api/v1/json/data/features/{did}"] = json.dumps({"data_features": {"feature": feats}})
        lines = [f"@relation d{did}", ""]
        for n, t, lv in d["cols"]:
            lines.append(f"@attribute {n} " + ("{" + ",".join(lv) + "}" if t == "nominal" else t))
        lines.append("@data")
        for r in d["rows"]:
            lines.append(",".join(r))
        routes[f"/data/v1/download/{d['file_id']}"] = "\n".join(lines) + "\n"
    for t in tasks:
        routes[f"/api/v1/json/task/{t['id']}"] = json.dumps({"task": {"task_id": str(t["id"]), "task_type_id": str(t["type"]), "input": [
            {"name": "source_data", "data_set": {"data_set_id": str(t["data"]), "target_feature": "y"}}, {"name": "other"}]}})
    return routes


def gen_dataset(rng, did):
    reg = rng.random() < 0.3
    cols = [("f0", "numeric", None), ("f1", "nominal", ["a", "b", "c"])]
    if rng.random() < 0.5:
        cols.append(("rid", "numeric", None))
    if rng.random() < 0.4:
        cols.append(("junk", "string", None))
    cols.append(("y", "numeric", None) if reg else ("y", "nominal", ["p", "q", "r"]))
    rows = []
    for i in range(weighted(rng, [(2, 1), (4, 2), (9, 2), (20, 1)])):
        row = []
        for n, t, lv in cols:
            if n != "y" and rng.random() < 0.06:
                row.append("?")
            elif t == "numeric":
                row.append(str(rng.choice([0, 1, 2.5, 7, i])))
            elif t == "nominal":
                row.append(rng.choice(lv))
            else:
                row.append(f"'s {i}'")
        rows.append(row)
    # some data sets cannot be turned into a labelled table at all (OpenML has data sets with several default targets): every read of
    # them fails while the ARFF lines are being consumed - the same way for everybody, whatever the cache and the other callers do
    return {"id": did, "file_id": 9000 + did, "cols": cols, "rows": rows, "multi_target": rng.random() < 0.08}


def gen_openml(rng, index):
    n_data = weighted(rng, [(1, 3), (2, 2)])
    datasets = [gen_dataset(rng, 40 + i) for i in range(n_data)]
    tasks = [{"id": 700 + i, "type": 2 if d["cols"][-1][1] == "numeric" else 1, "data": d["id"]} for i, d in enumerate(datasets)]
    faulty = index % 2 == 1
    callers = []
    plan = {}
    p_fault = weighted(rng, [(0.16, 3), (0.45, 1)])        # (a quarter of the faulty runs model a network that is mostly down)
    for c in range(weighted(rng, [(2, 3), (3, 3), (4, 2), (5, 1)])):
        reads = []
        for _ in range(1 + rng.randrange(3)):
            d = rng.randrange(n_data)
            src = ["task", tasks[d]["id"]] if rng.random() < 0.3 else ["data", datasets[d]["id"]]
            reads.append({"src": src, "consume": weighted(rng, [("all", 4), (rng.randrange(0, 4), 1)]), "drop_missing": rng.random() < 0.7})
            if rng.random() < 0.08 and src[0] == "data":
                # the data set is EVALUATED with a learner whose first prediction coba cannot classify (two numbers for three actions) - the
                # typical first mistake in a hand-written learner; the failure is caught and logged as ProcessTasks does, the caller goes on
                reads[-1]["bad_learner"] = True
                reads[-1]["consume"] = "all"
            elif rng.random() < 0.12 and src[0] == "data":
                # read as a LOGGED environment (Environments.from_openml(...).logged(policy)) and usually left early, as the experiment's peek does
                reads[-1]["logged"] = True
                reads[-1]["consume"] = weighted(rng, [(1, 3), (rng.randrange(1, 4), 1), ("all", 1)])
        callers.append(reads)
        if faulty:
            for k in range(12):
                if rng.random() < p_fault:
                    plan[f"{c}:{k}"] = weighted(rng, [("http_500", 2), ("http_412_key", 1), ("http_404", 1), ("timeout_open", 2), ("timeout_body", 3),
                                                      ("reset_body", 3), ("interrupt_body", 1), ("closed_early", 3), ("incomplete_read", 2)])
    return {"kind": "openml", "datasets": datasets, "tasks": tasks, "callers": callers, "plan": plan,
            "backend": weighted(rng, [("disk", 3), ("memory", 1)]), "gz": rng.random() < 0.3, "sem": weighted(rng, [(3, 3), (1, 2), (2, 1)]),
            "knobs": {"array_yields": rng.random() < 0.5, "disk_yields": rng.random() < 0.6, "p_stay": weighted(rng, [(0.0, 2), (0.5, 2), (0.85, 1)]),
                      "p_clock": weighted(rng, [(0.3, 2), (0.6, 1)])}}


# ----------------------------------------------------------------------------- one run
def _canon(row):
    from checks.c04 import canon_val
    return (canon_val(row), canon_val(getattr(row, "label", None)), getattr(row, "tipe", None))


class _UnclearLearner:
    def predict(self, context, actions):
        return (0.5, 0.5)          # neither an action, nor (action, probability), nor a pmf over three actions

    def learn(self, *a, **k):
        pass


def _evaluate_with_bad_learner(cb, r):
    """What ProcessTasks does for one triple: evaluate, log the failure, carry on.  Returns the number of rows."""
    env = cb.Environments.from_openml(data_id=r["src"][1], drop_missing=r["drop_missing"])[0]
    try:
        return len(list(cb.SequentialCB().evaluate(env, _UnclearLearner())))
    except Exception as e:
        return ("raises", type(e).__name__)


def _source(read):
    from coba.environments.openml import OpenmlSource
    kind, i = read["src"]
    return OpenmlSource(**({"data_id": i} if kind == "data" else {"task_id": i}), drop_missing=read["drop_missing"])


def reference(cfg, server):
    """What each distinct (source, drop_missing) yields without faults, cache or concurrency (outside the simulator)."""
    from coba.context import CobaContext, NullCacher
    ref = {}
    server.reset(make_routes(cfg["datasets"], cfg["tasks"]), {}, {})
    old = CobaContext.cacher
    CobaContext.cacher = NullCacher()
    try:
        for reads in cfg["callers"]:
            for r in reads:
                key = json.dumps([r["src"], r["drop_missing"]])
                if r.get("logged") and ("L" + key) not in ref:
                    # what the same logged read does without faults, cache or concurrency (some generated data sets cannot be logged at all:
                    # regression labels have no discrete actions, a missing nominal value cannot be one-hot encoded ...)
                    import coba as cb
                    try:
                        n = sum(1 for _ in cb.Environments.from_openml(data_id=r["src"][1], drop_missing=r["drop_missing"]).logged(cb.RandomLearner(seed=1), seed=2)[0].read())
                        ref["L" + key] = n
                    except Exception as e:
                        ref["L" + key] = ("raises", type(e).__name__)
                if key not in ref:
                    try:
                        ref[key] = [_canon(x) for x in _source({k: v for k, v in r.items() if k != "logged"}).read()]
                    except Exception as e:       # (e.g. every row has a missing value and is dropped -> nothing to label: fine, same for everybody)
                        ref[key] = ("raises", type(e).__name__)
    finally:
        CobaContext.cacher = old
    return ref


def run_openml(cfg, seed, choices, make_sim, run_sim, install_gzip_shim, sig_fn):
    from coba.context import CobaContext, ConcurrentCacher, DiskCacher, MemoryCacher, NullLogger
    install_gzip_shim()
    server = install_transport()
    quiet_context()
    ref = reference(cfg, server)
    kn = cfg["knobs"]
    sim = make_sim(seed, choices=choices, p_stay=kn["p_stay"], p_clock=kn["p_clock"], max_steps=12000)
    sim.user["array_yields"] = kn["array_yields"]
    sim.user["disk_yields"] = kn["disk_yields"]
    sim.user["c19_pending_pop"] = {}
    sim.user["c19_disk_fault"] = {}
    sim.user["c19_cells"] = {}
    sim.sig_fn = sig_fn
    tmpdir = tempfile.mkdtemp(prefix="c19o_", dir=TMP_ROOT) if cfg["backend"] == "disk" else None
    records = []       # (phase, caller, read index, kind, payload, faults delivered to the caller during the read)
    state = {}

    def caller_body(cidx, reads, cacher, store, phase):
        CobaContext.cacher = cacher
        CobaContext.store = store
        CobaContext.logger = NullLogger()
        for ri, r in enumerate(reads):
            before = len(server.delivered.get(cidx, []))
            it = None
            try:
                if r.get("bad_learner"):
                    import coba as cb
                    sim.count("reach.openml_env_evaluated_with_unclear_predictions")
                    n = _evaluate_with_bad_learner(cb, r)
                    records.append((phase, cidx, ri, "logged", n, None))
                    continue
                if r.get("logged"):
                    import coba as cb
                    sim.count("reach.openml_read_through_logged_environment")
                    it = iter(cb.Environments.from_openml(data_id=r["src"][1], drop_missing=r["drop_missing"]).logged(cb.RandomLearner(seed=1), seed=2)[0].read())
                    n = 0
                    for _ in it:
                        n += 1
                        if r["consume"] != "all" and n >= r["consume"]:
                            break
                    it.close()
                    records.append((phase, cidx, ri, "logged", n, None))
                    continue
                it = iter(_source(r).read())
                if r["consume"] == "all":
                    rows = [_canon(x) for x in it]
                    records.append((phase, cidx, ri, "rows", rows, None))
                else:
                    rows = []
                    for _ in range(r["consume"]):
                        try:
                            rows.append(_canon(next(it)))
                        except StopIteration:
                            break
                    sim.count("fault.reader_abandons_download")
                    it.close()
                    records.append((phase, cidx, ri, "prefix", rows, None))
            except BaseException as e:
                if type(e).__name__ == "SimKill":
                    raise
                # (only its type and text are kept: a stored traceback would keep the failed read's generators - and their locks - alive)
                records.append((phase, cidx, ri, "exc", (type(e).__name__, str(e)[:300]), list(server.delivered.get(cidx, []))[before:]))
            finally:
                it = None
            sim.yield_("between reads")

    def main():
        array = prims.SimArray(None, [0] * 2 ** 16)
        cells = sim.user["c19_cells"]
        array._core.on_write = lambda i, v: cells.__setitem__(i, v)
        lock = prims.SimLock()
        sem = prims.SimSemaphore(cfg["sem"])
        state["array"], state["sem"] = array, sem
        ccs, tasks = [], []
        callers = {}
        server.reset(make_routes(cfg["datasets"], cfg["tasks"]), dict(cfg["plan"]), callers, gz=cfg.get("gz", False))
        for cidx, reads in enumerate(cfg["callers"]):
            base = DiskCacher(tmpdir) if tmpdir is not None else MemoryCacher()
            cc = ConcurrentCacher(base, array, lock)
            ccs.append(cc)
            t = sim.spawn(lambda cidx=cidx, reads=reads, cc=cc: caller_body(cidx, reads, cc, {"openml_semaphore": sem}, "p1"), f"caller{cidx}", pid=sim.new_pid())
            callers[t.id] = cidx
            tasks.append(t)
        sim.block(lambda: all(t.done for t in tasks), "join callers")
        state["held"] = {i: v for i, v in enumerate(array._core.data) if v != 0}
        state["tables"] = [{k[1]: v for k, v in cc._locks.items() if v != 0} for cc in ccs]
        state["sem_value"] = sem._core.value
        state["died"] = [(t.name, repr(t.exc)) for t in tasks if t.exc is not None]
        # faults have stopped: one fresh process reads everything that was asked for
        if tmpdir is not None and not state["held"]:
            final = []
            seen = set()
            for reads in cfg["callers"]:
                for r in reads:
                    key = json.dumps([r["src"], r["drop_missing"]])
                    if key not in seen:
                        seen.add(key)
                        final.append({"src": r["src"], "consume": "all", "drop_missing": r["drop_missing"]})
            cc = ConcurrentCacher(DiskCacher(tmpdir), array, lock)
            t = sim.spawn(lambda: caller_body("final", final, cc, {"openml_semaphore": sem}, "p2"), "final", pid=sim.new_pid())
            callers[t.id] = "final"
            sim.block(lambda: t.done, "join final reader")
            state["held2"] = {i: v for i, v in enumerate(array._core.data) if v != 0}

    import gc
    # the cyclic collector is off while the callers run: whether a lock or a permit is given back must not depend on when a collection
    # happens to run (a worker blocked in a C call - acquire(), get(), sleep() - executes no bytecode and never collects)
    gc.disable()
    try:
        outcome = run_sim(sim, main)
    finally:
        pass  # (the runner keeps the cyclic collector off for the whole run: sim/runner.py _fresh)
        gc.collect()
        if tmpdir is not None:
            shutil.rmtree(tmpdir, ignore_errors=True)

    res = {"digest": sim.digest(), "trace": sim.trace, "decisions": sim.n_decisions, "switches": sim.n_switches,
           "sim_s": sim.now, "counters": dict(sim.counters), "states": list(sim.state_sigs)}
    res["counters"]["reach.openml_workload"] = 1
    res["counters"]["openml.http_requests"] = server.requests
    if server.max_inflight > 1:
        res["counters"]["reach.openml_concurrent_downloads"] = 1
    if sim.counters.get("sleep"):
        res["counters"]["reach.caller_slept_waiting_for_lock"] = 1
    shared = {}
    for ci, reads in enumerate(cfg["callers"]):
        for r in reads:
            shared.setdefault(json.dumps(r["src"]), set()).add(ci)
    res["nontrivial"] = sim.n_switches > 0 and any(len(u) > 1 for u in shared.values())
    res["violations"] = _oracle(cfg, sim, outcome, ref, records, state)
    res["violation"] = res["violations"][0] if res["violations"] else None
    res["sample"] = {"cfg": {k: v for k, v in cfg.items() if k != "datasets"}, "outcome": outcome, "sim_seconds": sim.now,
                     "records": [(r[0], r[1], r[2], r[3], repr(r[4])[:80], r[5]) for r in records[:12]], "requests": server.log[:40], "first_choices": sim.trace[:30]}
    return res


def _oracle(cfg, sim, outcome, ref, records, state):
    out = []
    if outcome in ("deadlock", "livelock"):
        return [vio(outcome, f"openml: {outcome}: callers wait forever; {sim.outcome_info}", key=f"openml:{outcome}")]
    if "exc" in sim.result:
        return [vio("harness_main_exception", f"{sim.result['exc']!r} {sim.result.get('tb', '')[-800:]}")]
    if state.get("died"):
        out.append(vio("caller_died", f"openml: caller task died: {state['died']}", key="openml:caller_died"))
    for phase, cidx, ri, kind, payload, faults in records:
        r = cfg["callers"][cidx][ri] if phase == "p1" else None
        if phase == "p1":
            want = ref[json.dumps([r["src"], r["drop_missing"]])]
        else:
            seen, order = set(), []
            for reads in cfg["callers"]:
                for rr in reads:
                    k = json.dumps([rr["src"], rr["drop_missing"]])
                    if k not in seen:
                        seen.add(k); order.append(k)
            want = ref[order[ri]]
        who = f"caller {cidx} read {ri} ({r['src'] if r else 'final reader'})"
        if kind == "logged":
            continue         # (what a logged read yields is not compared here: the clauses at stake are the locks and the permit)
        if kind in ("rows", "prefix"):
            if isinstance(want, tuple) and kind == "prefix" and not payload:
                pass       # (a reader that never asked for a row never got to the point where every read of this data set fails)
            elif isinstance(want, tuple):
                out.append(vio("wrong_data", f"openml: {who} returned {len(payload)} rows although a plain read raises {want[1]}", key="openml:wrong_data"))
            elif kind == "rows" and payload != want:
                out.append(vio("wrong_data", f"openml: {who} returned {len(payload)} rows, the dataset has {len(want)}; first difference at row "
                                             f"{next((i for i, (a, b) in enumerate(zip(payload, want)) if a != b), min(len(payload), len(want)))}",
                               key="openml:wrong_data" if phase == "p1" else "openml:incomplete_entry_served_later"))
            elif kind == "prefix" and payload != want[:len(payload)]:
                out.append(vio("wrong_data", f"openml: {who} abandoned after {len(payload)} rows which are not the dataset's first rows", key="openml:wrong_data"))
        else:
            ename, etext = payload
            if isinstance(want, tuple) and ename == want[1]:
                continue
            if r is not None and r.get("logged"):
                wl = ref.get("L" + json.dumps([r["src"], r["drop_missing"]]))
                if isinstance(wl, tuple) and wl[1] == ename:
                    continue
            if phase == "p2":
                out.append(vio("poisoned_cache", f"openml: after all faults had stopped the final reader's read {ri} raised {ename}: {etext[:200]}",
                               key=f"openml:poisoned_cache:{ename}"))
            elif not faults:
                out.append(vio("foreign_exception", f"openml: {who} raised {ename}: {etext[:200]} although no fault was delivered to its own requests",
                               key=f"openml:foreign_exception:{ename}"))
    if state.get("held"):
        out.append(vio("lock_cell_leaked", f"openml: after all callers left, array cells are {state['held']}", key="openml:lock_cell_leaked"))
    if state.get("held2"):
        out.append(vio("lock_cell_leaked", f"openml: after the final reader left, array cells are {state['held2']}", key="openml:lock_cell_leaked"))
    if any(state.get("tables", [])):
        out.append(vio("lock_table_leaked", f"openml: after all callers left, lock tables hold {state['tables']}", key="openml:lock_table_leaked"))
    if "sem_value" in state and state["sem_value"] != cfg["sem"]:
        out.append(vio("semaphore_leaked", f"openml: the request semaphore is at {state['sem_value']} instead of {cfg['sem']} after all callers left",
                       key="openml:semaphore_leaked"))
    return out


def shrink_openml(cfg):
    import copy
    for k in list(cfg["plan"]):
        c = copy.deepcopy(cfg); del c["plan"][k]; yield c
    for ci in range(len(cfg["callers"]) - 1, -1, -1):
        if len(cfg["callers"]) > 1:
            c = copy.deepcopy(cfg); del c["callers"][ci]
            c["plan"] = {}
            for k, v in cfg["plan"].items():
                a, b = k.split(":")
                if int(a) != ci:
                    c["plan"][f"{int(a) - (int(a) > ci)}:{b}"] = v
            yield c
    for ci, reads in enumerate(cfg["callers"]):
        for ri in range(len(reads) - 1, -1, -1):
            if len(reads) > 1:
                c = copy.deepcopy(cfg); del c["callers"][ci][ri]; yield c
            if reads[ri]["consume"] != "all":
                c = copy.deepcopy(cfg); c["callers"][ci][ri]["consume"] = "all"; yield c
            if reads[ri]["src"][0] == "task":
                t = next(t for t in cfg["tasks"] if t["id"] == reads[ri]["src"][1])
                c = copy.deepcopy(cfg); c["callers"][ci][ri]["src"] = ["data", t["data"]]; yield c
    for di, d in enumerate(cfg["datasets"]):
        if len(d["rows"]) > 2:
            c = copy.deepcopy(cfg); c["datasets"][di]["rows"] = d["rows"][:max(2, len(d["rows"]) // 2)]; yield c
    if cfg["sem"] != 3:
        c = copy.deepcopy(cfg); c["sem"] = 3; yield c
    if cfg.get("gz"):
        c = copy.deepcopy(cfg); c["gz"] = False; yield c
    if cfg["backend"] != "memory":
        c = copy.deepcopy(cfg); c["backend"] = "memory"; yield c
    for k, v in (("array_yields", False), ("disk_yields", False), ("p_stay", 0.85)):
        if cfg["knobs"][k] != v:
            c = copy.deepcopy(cfg); c["knobs"][k] = v; yield c
