"""C04 - Environments can be read any number of times with identical results.

The "fault" is cancellation: a reader dropped after k items leaves every generator of the chain
suspended at a yield, and close() (GeneratorExit at that yield) is delivered immediately or at an
arbitrary later moment - the simulator owns that moment.  One run = one environment built through the
public constructors + a chain of built-in filters, and one history of full reads, partial reads with
immediate / delayed / never-delivered close, params look-ups, pickle round trips, materialize(),
cache(), chunk(), save()/from_save().  Every read is compared with the first full read of a freshly
built twin; data the caller passed in is snapshotted before and after."""
import copy
import gc
import hashlib
import json
import math
import os
import pickle
import shutil
import tempfile

from checks.common import vio, weighted, quiet_context
from checks import components as K
from checks import expsim as X

TMP_ROOT = "/dev/shm" if os.path.isdir("/dev/shm") else tempfile.gettempdir()


# ----------------------------------------------------------------------------- lambda-simulation callables (module level: picklable)
def lam_context(i, rng=None):
    return [i % 3, (i * 7 % 5) / 5] if rng is None else [round(rng.random(), 4), i % 2]


def lam_actions(i, c, rng=None):
    return [0, 1, 2] if rng is None else [0, 1] + ([2] if rng.random() < 0.5 else [])


def lam_reward(i, c, a, rng=None):
    return ((i + a) % 4) / 4 if rng is None else round(rng.random(), 4)


# ----------------------------------------------------------------------------- building
def build_source(src, holder):
    from coba.pipes import ListSource
    """Returns an Environments object; records caller-owned inputs in holder for the mutation check."""
    import coba as cb
    kind, kw = src
    if kind in ("linear", "neighbors", "bandit", "tagged"):
        g = {"src": src, "ops": []}
        return cb.Environments(X.build_envs(g))
    if kind == "lambda":
        if kw.get("seed") is None:
            return cb.Environments.from_lambda(kw["n"], lam_context, lam_actions, lam_reward)
        return cb.Environments.from_lambda(kw["n"], lam_context, lam_actions, lam_reward, kw["seed"])
    if kind == "supervised_xy":
        Xs = [list(x) for x in kw["X"]]
        if kw.get("nested_cat"):
            # a feature that is itself a (mutable) container holding categorical values
            from coba.primitives import Categorical
            lv = ["u", "v", "w"]
            for i, x in enumerate(Xs):
                x.append([Categorical(lv[(i * 2 + 1) % 3], lv), i % 2])
        if kw.get("mixed_rows"):
            Xs[0] = tuple(Xs[0])          # an immutable container first, plain lists after it
        Ys = list(kw["Y"])
        holder["X"], holder["Y"] = Xs, Ys
        return cb.Environments.from_supervised(Xs, Ys, label_type=kw.get("label_type"))
    if kind == "supervised_src":
        # a caller-owned Source object yielding (features, label) pairs, with its own params mapping (also caller-owned)
        from coba.pipes import IdentitySource
        rows = [(list(x), y) for x, y in zip(kw["X"], kw["Y"])]
        sp = {"src": "mine", "rows": len(rows)}
        holder["X"], holder["source_params"] = rows, sp
        return cb.Environments.from_supervised(IdentitySource(rows, sp), label_type=kw.get("label_type"))
    if kind == "supervised_csv":
        lines = list(kw["lines"])
        holder["lines"] = lines
        if kw.get("encode"):
            # a caller-composed source: the CSV columns go through pipes.Encode with NumericEncoders (one of them for a column that is not there)
            from coba.pipes import Encode, Pipes
            from coba.encodings import NumericEncoder
            src = Pipes.join(cb.CsvSource(ListSource(lines), has_header=True), Encode({0: NumericEncoder(), 1: NumericEncoder(), 7: NumericEncoder()}))
            return cb.Environments.from_supervised(src, label_col=2, label_type=kw.get("label_type"), take=kw.get("take"))
        return cb.Environments.from_supervised(cb.CsvSource(ListSource(lines), has_header=True), label_col=kw["label_col"],
                                               label_type=kw.get("label_type"), take=kw.get("take"))
    if kind == "supervised_arff":
        lines = list(kw["lines"])
        holder["lines"] = lines
        return cb.Environments.from_supervised(cb.ArffSource(ListSource(lines)), label_col="kind", label_type="c")
    if kind == "supervised_arff_sparse":
        lines = list(kw["lines"])
        holder["lines"] = lines
        return cb.Environments.from_supervised(cb.ArffSource(ListSource(lines)), label_col="y", label_type="r")
    if kind == "supervised_libsvm":
        lines = list(kw["lines"])
        holder["lines"] = lines
        return cb.Environments.from_supervised(cb.LibSvmSource(ListSource(lines)), label_type="c")
    if kind == "result":
        from coba.context import CobaContext, NullLogger
        old_logger = CobaContext.logger          # (the caller's logger/sink must survive this nested experiment)
        CobaContext.logger = NullLogger()
        try:
            envs = cb.Environments.from_linear_synthetic(kw["n"], n_actions=2, n_context_features=2, n_action_features=0, seed=kw["seed"])
            res = cb.Experiment(envs, cb.RandomLearner(), cb.SequentialCB(record=["context", "actions", "action", "probability", "reward"])).run(quiet=True)
        finally:
            CobaContext.logger = old_logger
        holder["result"] = res
        return cb.Environments.from_result(res)
    raise ValueError(kind)


def apply_ops(envs, ops, holder):
    for name, a in ops:
        if name == "logged":
            lrn = X.build_learner(a["learner"])
            holder.setdefault("learners", []).append(lrn)
            envs = envs.logged(lrn, seed=a.get("seed", 1.23))
        elif name == "shuffle":
            envs = envs.shuffle(a["seed"])
        elif name == "ope_rewards":
            envs = envs.ope_rewards(a["rewards_type"])
        elif name == "sort":
            envs = envs.sort(*a.get("keys", []))
        elif name == "where":
            envs = envs.where(**{k: (tuple(v) if isinstance(v, list) else v) for k, v in a.items()})
        elif name == "noise":
            kw = {k: (tuple(v) if isinstance(v, list) else v) for k, v in a.items()}
            envs = envs.noise(**kw)
        else:
            envs = getattr(envs, name)(**a)
    return envs


def build_env(spec, holder):
    envs = apply_ops(build_source(spec["src"], holder), spec["ops"], holder)
    return envs[0]


def build_env_with_sibling(spec, holder):
    """The environment of the spec plus a SIBLING that branches off after the spec's first cache()/chunk(): both pipelines share the filter
    objects up to and including that cache (what `base = envs.chunk(); a = base.noise(); b = base.take(m)` gives a user)."""
    k = spec["sibling"]["after"]
    base = apply_ops(build_source(spec["src"], holder), spec["ops"][:k + 1], holder)
    env = apply_ops(base, spec["ops"][k + 1:], holder)[0]
    sib = base.take(spec["sibling"]["take"])[0] if spec["sibling"]["take"] is not None else base[0]
    return env, sib


# ----------------------------------------------------------------------------- canonical form of interactions
def canon_val(v, depth=0):
    from coba.primitives import Dense, Sparse
    if v is None or isinstance(v, (bool, int, str)):
        return v
    if isinstance(v, float):
        return "nan" if math.isnan(v) else v
    if isinstance(v, dict):
        return ("d", tuple(sorted(((repr(k), canon_val(x, depth + 1)) for k, x in v.items()))))
    if isinstance(v, (list, tuple)):
        return ("l", tuple(canon_val(x, depth + 1) for x in v))
    try:
        if isinstance(v, Sparse):
            return ("d", tuple(sorted(((repr(k), canon_val(x, depth + 1)) for k, x in v.items()))))
        if isinstance(v, Dense):
            return ("l", tuple(canon_val(x, depth + 1) for x in v))
    except Exception as e:
        return ("unreadable", type(e).__name__)
    if hasattr(v, "tolist"):
        return canon_val(v.tolist(), depth + 1)
    return ("obj", type(v).__name__)


def _instrument_stateful():
    """The code of the filters that keep state between reads becomes a place where an asynchronous KeyboardInterrupt can land."""
    from sim import asyncexc
    import coba.pipes.filters as PF
    import coba.environments.filters as EF
    fns = [PF.Cache.filter, PF.Cache._next_slice, getattr(PF.Cache, "_filter", None), EF.Cache.filter, EF.Densify.filter, EF.EmptyCheck.filter, EF.Chunk.filter, EF.Shuffle.filter,
           # ... and the filters that wrap a computation in try/except with a fall-back value (a Ctrl-C must come out of them, not be replaced by the fall-back)
           EF.Impute.filter, EF.Impute._get_imputation, EF.Where.filter, getattr(EF.Where, "_context_len", None), EF.Unbatch.filter, getattr(EF.Unbatch, "_unbatch", None),
           EF.Batch.filter, EF.Scale.filter, EF.Noise.filter, EF.Sort.filter]
    import coba.utilities as U
    import coba.pipes.readers as RD
    import coba.pipes.rows as RW
    import coba.encodings as EN
    fns += [PF.Encode.filter, EN.NumericEncoder.encode, EN.NumericEncoder._float_generator]
    asyncexc.instrument([f for f in fns + [U.try_else, U.peek_first, RD.ArffReader.filter, RW.EncodeRows.filter, RW.DropRows.filter] if hasattr(f, "__code__")])


class _Any:
    """Wildcard for a value the reader did not look at."""
    def __eq__(self, o): return True
    def __ne__(self, o): return False
    def __repr__(self): return "*"
    __hash__ = None


ANY = _Any()


def canon(inter, look="all"):
    """look: which values of reward / feedback callables the reader asks for - "all" (every action, in order), "rev" (every action, last
    first), "one:j" (only action j, as a learner that only sees the outcome of what it played), "none"."""
    out = {}
    actions = inter.get("actions") if hasattr(inter, "get") else None
    for k in inter.keys():
        v = inter[k]
        if callable(v) and not isinstance(v, (list, tuple, dict)):
            try:
                if actions is not None and len(actions) and isinstance(actions[0], (list, tuple)) and _is_batch(inter):
                    out[k] = ("f-batch", repr(type(v).__name__))
                elif actions is not None and len(actions) and look != "all":
                    n = len(actions)
                    idx = list(range(n - 1, -1, -1)) if look == "rev" else [] if look == "none" else [int(look.split(":")[1]) % n]
                    vals = [ANY] * n
                    for j in idx:
                        vals[j] = canon_val(v(actions[j]))
                    out[k] = ("f", tuple(vals))
                elif actions is not None and len(actions):
                    out[k] = ("f", tuple(canon_val(v(a)) for a in actions))
                    if type(v).__name__ in ("DiscreteReward", "BinaryReward", "HammingReward"):
                        # coba's own (pure) reward objects are also asked about an action that is not among the listed ones
                        try:
                            out[k] += (canon_val(v("__an_action_that_is_not_listed__")),)
                        except Exception as e:
                            out[k] += (("err", type(e).__name__),)
                else:
                    out[k] = ("f0", type(v).__name__)
            except Exception as e:
                out[k] = ("f-err", type(e).__name__)
        else:
            out[k] = canon_val(v)
    return out


def _is_batch(inter):
    for k in ("context", "actions", "rewards"):
        v = inter.get(k)
        if getattr(v, "is_batch", False):
            return True
    return False


def snapshot_inputs(holder):
    snap = {}
    for k in ("X", "Y", "lines", "source_params"):
        if k in holder:
            snap[k] = copy.deepcopy(holder[k])
    if "learners" in holder:
        snap["learners"] = [X.state_sig(l) for l in holder["learners"]]
    if "result" in holder:
        snap["result"] = X.tables(holder["result"])
    return snap


# ----------------------------------------------------------------------------- spec generation
def gen_src(rng):
    k = weighted(rng, [("linear", 3), ("neighbors", 1), ("bandit", 2), ("tagged", 2), ("lambda", 2), ("supervised_xy", 3),
                       ("supervised_csv", 2), ("supervised_libsvm", 1), ("result", 1), ("supervised_arff", 1.5), ("supervised_arff_sparse", 1)])
    n = weighted(rng, [(0, 0.3), (1, 1), (3, 2), (8, 3), (26, 2), (40, 1), (80, 0.5)])
    if k == "linear":
        return ["linear", {"n_interactions": n, "n_actions": 2 + rng.randrange(3), "n_context_features": rng.randrange(3), "n_action_features": rng.randrange(3), "seed": rng.randrange(1, 30)}]
    if k == "neighbors":
        return ["neighbors", {"n_interactions": n, "n_actions": 2 + rng.randrange(2), "n_context_features": 1 + rng.randrange(2), "n_action_features": 1, "n_neighborhoods": 4, "seed": rng.randrange(1, 30)}]
    if k == "bandit":
        return ["bandit", {"n_interactions": n, "n_actions": 2 + rng.randrange(3), "seed": rng.randrange(1, 30)}]
    if k == "tagged":
        kw = {"tag": "T", "n": n, "n_actions": 2 + rng.randrange(2), "extra": rng.random() < 0.3}
        if rng.random() < 0.3:
            kw["reward_obj"] = rng.choice(["discrete_default", "discrete_map", "binary"])
        if rng.random() < 0.35 and n > 0:
            kw["interrupt_at"] = weighted(rng, [(0, 1), (1, 1), (min(n - 1, 24), 1), (min(n - 1, 25), 2), (min(n - 1, 26), 1), (rng.randrange(n), 3)])
        return ["tagged", kw]
    if k == "lambda":
        return ["lambda", {"n": n, "seed": weighted(rng, [(None, 1), (rng.randrange(1, 20), 2)])}]
    if k == "supervised_xy":
        m = max(1, n)
        reg = rng.random() < 0.3
        Xs = [[rng.randrange(5), round(rng.random(), 3)] + ([rng.choice(["u", "v"])] if rng.random() < 0.3 else []) for _ in range(m)]
        w = len(Xs[0])
        Xs = [x[:w] + [0] * (w - len(x)) for x in Xs]
        Ys = [round(rng.random(), 2) if reg else rng.choice(["a", "b", "c"]) for _ in range(m)]
        if rng.random() < 0.25:
            return ["supervised_src", {"X": Xs, "Y": Ys, "label_type": "r" if reg else weighted(rng, [("c", 2), (None, 1)])}]
        return ["supervised_xy", {"X": Xs, "Y": Ys, "label_type": "r" if reg else weighted(rng, [("c", 2), (None, 1)]),
                                  "mixed_rows": rng.random() < 0.3, "nested_cat": rng.random() < 0.2}]
    if k == "supervised_csv":
        m = max(1, n)
        lines = ["f1,f2,lab"] + [f"{rng.randrange(9)},{round(rng.random(), 2)},{rng.choice(['x', 'y', 'z'])}" for _ in range(m)]
        return ["supervised_csv", {"lines": lines, "label_col": rng.choice(["lab", 2]), "label_type": "c",
                                   "take": weighted(rng, [(None, 3), (max(1, m // 2), 1)]), "encode": rng.random() < 0.4}]
    if k == "supervised_arff":
        # a dense ARFF whose data lines use different quoting styles (the line reader adapts while it reads)
        m = max(2, min(n, 12))
        names = ["'alpha '", "beta", "'ga mma'", '"it\'s"', "\"dq\"", "'x,y'", "plain", "' lead'"]
        lines = ["@relation r", "@attribute name string", "@attribute size numeric", "@attribute kind {A,B,C}", "@data"]
        for _ in range(m):
            lines.append(f"{rng.choice(names)},{rng.choice([1, 2.5, 3, 10])},{rng.choice(['A', 'B', 'C'])}")
        return ["supervised_arff", {"lines": lines}]
    if k == "supervised_arff_sparse":
        # sparse ARFF with a string attribute (omitted string values are "not sparse": the reader works that out per attribute at the start of a read)
        m = max(2, min(n, 12))
        lines = ["@relation r", "@attribute a numeric", "@attribute s string", "@attribute b numeric", "@attribute y numeric", "@data"]
        for _ in range(m):
            vals = {}
            if rng.random() < 0.6: vals[0] = rng.choice([1, 2.5, 3])
            if rng.random() < 0.4: vals[1] = rng.choice(["u", "v"])
            if rng.random() < 0.5: vals[2] = rng.choice([4, 7])
            if rng.random() < 0.7: vals[3] = rng.choice([1, 2])
            lines.append("{" + ", ".join(f"{i} {v}" for i, v in sorted(vals.items())) + "}")
        return ["supervised_arff_sparse", {"lines": lines}]
    if k == "supervised_libsvm":
        m = max(1, n)
        lines = [f"{rng.randrange(3)} " + " ".join(f"{j}:{rng.randrange(1, 5)}" for j in sorted(rng.sample(range(1, 6), 1 + rng.randrange(3)))) for _ in range(m)]
        return ["supervised_libsvm", {"lines": lines}]
    return ["result", {"n": max(2, min(n, 12)), "seed": rng.randrange(1, 9)}]


def gen_ops(rng, src, faults=False):
    # faults: one-off (transient) component failures and Ctrl-C are fault kinds of C04's own histories; generators that borrow these
    # pipelines for whole experiments (expsim) must not get them - there a process-wide 'fired once' flag would differ between executions
    kind = src[0]
    ops = []
    has_vec = kind in ("linear", "neighbors", "lambda", "supervised_xy", "supervised_csv", "result", "supervised_arff")
    sparse = kind == "supervised_libsvm"
    logged = kind == "result"
    batched = False
    for _ in range(rng.randrange(0, 6)):
        o = weighted(rng, [("take", 3), ("slice", 2), ("shuffle", 4), ("reservoir", 2), ("sort", 1), ("riffle", 1), ("cycle", 1), ("params", 1),
                           ("scale", 2), ("impute", 1), ("where", 1), ("noise", 2), ("flatten", 1), ("binary", 1), ("sparse", 1), ("dense", 1),
                           ("repr", 1), ("batch", 1), ("unbatch", 0.5), ("logged", 2), ("ope_rewards", 1), ("grounded", 1), ("cache", 3), ("chunk", 1)])
        if batched and o not in ("unbatch", "cache", "chunk", "take", "slice", "params"):
            continue
        if o == "take":
            ops.append(["take", {"n_interactions": rng.choice([0, 1, 3, 10, 30]), "strict": rng.random() < 0.2}])
        elif o == "slice":
            ops.append(["slice", {"start": rng.choice([None, 0, 1, 4]), "stop": rng.choice([None, 5, 30]), "step": rng.choice([1, 1, 2])}])
        elif o == "shuffle":
            ops.append(["shuffle", {"seed": rng.randrange(0, 9)}])
        elif o == "reservoir":
            ops.append(["reservoir", {"n_interactions": rng.choice([1, 4, 20]), "seeds": rng.randrange(1, 9), "strict": rng.random() < 0.2}])
        elif o == "sort" and has_vec:
            ops.append(["sort", {"keys": rng.choice([[], [0], [1, 0]])}])
        elif o == "sort" and kind in ("supervised_arff_sparse", "supervised_libsvm"):
            ops.append(["sort", {"keys": []}])        # (sparse contexts: ordered by the feature names each row has)
        elif o == "riffle":
            ops.append(["riffle", {"spacing": 1 + rng.randrange(4), "seed": rng.randrange(1, 9)}])
        elif o == "cycle" and not logged:
            ops.append(["cycle", {"after": rng.choice([0, 2, 10])}])
        elif o == "params":
            ops.append(["params", {"params": {"extra": rng.randrange(5)}}])
        elif o == "scale" and (has_vec or sparse):
            ops.append(["scale", {"shift": rng.choice(["min", "mean", "med", 0]), "scale": rng.choice(["minmax", "std", "iqr", "maxabs"]), "using": rng.choice([None, 1, 5])}])
        elif o == "impute" and (has_vec or sparse):
            ops.append(["impute", {"stats": rng.choice(["mean", "median", "mode"]), "indicator": rng.random() < 0.5, "using": rng.choice([None, 3])}])
        elif o == "where":
            ops.append(["where", {"n_interactions": rng.choice([1, 5, [None, 50], [2, None]])}])
        elif o == "noise" and not logged:
            ops.append(["noise", {"context": [0, 0.1] if has_vec else None, "reward": rng.choice([None, [0, 0.1]]), "seed": rng.randrange(1, 9)}])
        elif o == "flatten":
            ops.append(["flatten", {}])
        elif o == "binary" and not logged:
            ops.append(["binary", {}])
        elif o == "sparse" and not sparse:
            ops.append(["sparse", {"context": True, "action": rng.random() < 0.3}]); sparse, has_vec = True, False
        elif o == "dense" and sparse:
            ops.append(["dense", {"n_feats": 8, "method": rng.choice(["lookup", "hashing"])}]); sparse, has_vec = False, True
        elif o == "repr":
            ops.append(["repr", {"cat_context": rng.choice(["onehot", "onehot_tuple", "string"]), "cat_actions": rng.choice(["onehot", "onehot_tuple", "string"])}])
        elif o == "batch" and not batched:
            ops.append(["batch", {"batch_size": 1 + rng.randrange(4)}]); batched = True
        elif o == "unbatch" and batched:
            ops.append(["unbatch", {}]); batched = False
        elif o == "logged" and not logged:
            ops.append(["logged", {"learner": weighted(rng, [(["random", {"seed": 2}], 2), (["eps", {"epsilon": 0.3, "seed": 3}], 1), (["counter", {"k": 2, "tag": "lg"}], 1),
                                                               (["info", {"tag": "li", "every": 1 + rng.randrange(3), "skip_first": True,
                                                                          "transient_raise_at": weighted(rng, [(None, 1), (2 * rng.randrange(1, 4), 1), (rng.randrange(1, 9), 1)]) if faults else None}], 1.5)]),
                                   "seed": weighted(rng, [(1.23, 2), (7, 1)])}]); logged = True
        elif o == "ope_rewards" and logged:
            ops.append(["ope_rewards", {"rewards_type": "IPS"}])
        elif o == "grounded" and kind in ("bandit", "tagged") and not logged:
            ops.append(["grounded", {"n_users": 4, "n_normal": 2, "n_words": 4, "n_good": 2, "seed": rng.randrange(1, 9)}])
        elif o == "cache":
            ops.append(["cache", {}])
        elif o == "chunk":
            ops.append(["chunk", {"cache": rng.random() < 0.7}])
    return ops


def _gen_look(rng):
    return weighted(rng, [(f"one:{rng.randrange(4)}", 4), ("rev", 2), ("none", 1)])


_HELPER = None


def read_in_other_interpreter(env):
    """Full read of a pickled copy of env in another interpreter whose hash randomisation differs from ours (as a spawned worker's does).
    Returns the canonical interactions, or None when the environment cannot make the trip (a harness limit, not a finding)."""
    global _HELPER
    import base64, subprocess, sys
    try:
        blob = base64.b64encode(pickle.dumps(env)).decode()
    except Exception:
        return None
    if _HELPER is None or _HELPER.poll() is not None:
        envv = dict(os.environ, PYTHONHASHSEED="31337", PYTHONWARNINGS="ignore")
        _HELPER = subprocess.Popen([sys.executable, os.path.join(os.path.dirname(os.path.abspath(__file__)), "c04_helper.py")],
                                   stdin=subprocess.PIPE, stdout=subprocess.PIPE, stderr=subprocess.DEVNULL, text=True, env=envv)
    try:
        _HELPER.stdin.write(json.dumps({"env": blob}) + "\n")
        _HELPER.stdin.flush()
        ans = json.loads(_HELPER.stdout.readline())
    except Exception:
        # the helper itself went away (not something the environment did): start a new one next time, skip this read
        try:
            _HELPER.kill()
        except Exception:
            pass
        _HELPER = None
        return None
    if "err" in ans:
        return ("err", ans["err"])
    return ("rows", pickle.loads(base64.b64decode(ans["rows"])))


def gen_history(rng, faults=True, far=0.0):
    hist = []
    for _ in range(3 + rng.randrange(9)):
        o = weighted(rng, [("full", 5), ("partial", 6), ("params", 3), ("pickle", 1.5), ("materialize", 0.7), ("cache", 0.7), ("chunk", 0.4), ("save", 0.6), ("gc", 0.5)])
        if o == "partial":
            hist.append(["partial", {"k": weighted(rng, [(0, 1), (1, 3), (2, 2), (5, 2), (24, 1), (25, 1), (26, 1), (40, 1)]),
                                     "close": weighted(rng, [("now", 3), ("drop", 3), ("later", 3), ("never", 1)]), "after": 1 + rng.randrange(3)}])
        elif o == "pickle":
            hist.append(["pickle", {"keep": weighted(rng, [("copy", 2), ("both", 1)])}])
        elif o == "full":
            hist.append([o, {"look": _gen_look(rng)} if rng.random() < 0.35 else {}])
            if faults and rng.random() < 0.12:
                # a Ctrl-C between two bytecodes of the stateful filters' own code (Cache, Densify, EmptyCheck ...) during this read
                hist[-1][1]["ctrl_c_at_bytecode"] = weighted(rng, [(rng.randrange(1, 60), 2), (rng.randrange(1, 400), 2), (rng.randrange(1, 3000), 1)])
        else:
            hist.append([o, {}])
        if o == "partial" and rng.random() < 0.35:
            hist[-1][1]["look"] = _gen_look(rng)
    if not any(h[0] == "full" and not h[1].get("look") for h in hist):
        hist.append(["full", {}])
    if rng.random() < far:
        # the environment travels (pickled) to another interpreter - other hash randomisation, fresh module state - and is read there
        hist.insert(rng.randrange(len(hist) + 1), ["other_interpreter", {}])
    return hist


class C04:
    prop = "C04"
    level = "exploration"
    design_ref = "DESIGN.md 3.4"
    tiers = {"quick": {"runs": 60000, "budget_s": 80, "chunk": 150, "twice_every": 0, "shrink_s": 40},
             "thorough": {"runs": 1500000, "budget_s": 840, "chunk": 200, "twice_every": 0, "shrink_s": 90}}
    rule = ("one run = one environment (synthetic / lambda / class-based / supervised from sequences, a caller-owned Source object, CSV / ARFF / LibSVM lines / result-based source "
            "+ 0-5 built-in filters with sampled parameters) and one history of 3-12 operations on that one object: full read, partial read of k "
            "items (a reader may look at every outcome of the reward/feedback functions, at one action's only, or in reverse order) whose close() is delivered now / by dropping the reference / after j later operations / never, params look-up, pickle round "
            "trip, a pickled copy read in a second real interpreter with another hash randomisation (PYTHONHASHSEED; 25 % of the runs on sparse sources, 1 % of the others), materialize(), cache(), chunk(), save()+from_save(), forced gc; a Ctrl-C (KeyboardInterrupt) the first time a chosen item of a class-based source is produced; specs whose pristine first read raises are discarded; "
            "non-trivial = the history contains an abandoned read followed by another read; distinct = digest of (spec, history)")
    assumptions = ["inputs are re-iterable (lists, ListSource); specs whose first read on a fresh twin raises are discarded",
                   "reward / feedback callables are compared by their values on the interaction's actions",
                   "CPython reference counting delivers close() when the last reference is dropped; 'later' and 'never' model PyPy / cycles / a caller keeping the iterator",
                   "optional packages absent (no torch batches, no numpy)",
                   "a read in the second interpreter that RAISES is only counted (there the one-off injected faults fire afresh); its content is compared when it succeeds"]
    real_components = ["coba.environments.Environments and every filter reached by the chain", "SupervisedSimulation, CsvSource, LibSvmSource, LambdaSimulation, "
                       "synthetic simulations, ResultEnvironment", "pipes.Cache / environments.Cache / Chunk", "materialize / save / from_save (real zip file)"]
    stub_components = ["none (single-threaded engine); the scheduler decides when a suspended reader is closed"]

    def gen(self, rng, tier, index):
        src = gen_src(rng)
        sparse = src[0] in ("supervised_arff_sparse", "supervised_libsvm")
        cfg = {"src": src, "ops": gen_ops(rng, src, faults=True), "history": gen_history(rng, far=0.25 if sparse else 0.01)}
        caches = [i for i, o in enumerate(cfg["ops"]) if o[0] in ("cache", "chunk")]
        if caches and caches[0] < len(cfg["ops"]) - 1 and rng.random() < 0.5 and "interrupt_at" not in cfg["src"][1]:
            # (not together with the Ctrl-C fault of the source: when the sibling's read is the one that is interrupted, the first later read
            #  of this environment fails - loudly, once - because the reader its outer cache had parked was reading the interrupted source)
            # a second pipeline that shares the first cache with this one is read in between (completely, or a few items and dropped)
            cfg["sibling"] = {"after": caches[0], "take": weighted(rng, [(None, 1), (rng.choice([1, 10, 30, 60]), 2)])}
            for _ in range(1 + rng.randrange(3)):
                cfg["history"].insert(rng.randrange(len(cfg["history"]) + 1), ["sibling", {"k": weighted(rng, [(None, 2), (rng.choice([1, 5, 26]), 1)])}])
            if not any(h[0] == "cache" for h in cfg["history"]) and len(caches) < 2:
                cfg["history"].insert(0, ["cache", {}])        # (an outer cache parks a reader of the inner one)
        if rng.random() < 0.006:
            # a biased shape (found by the thorough tier at index 912200): lazily drawn, memoised outcome functions (grounded feedback) sit in a
            # cache that a sibling pipeline reads first; this pipeline rewrites the actions after the cache, and is copied (save / pickle) in between
            n = 1 + rng.randrange(6)
            cfg = {"src": ["linear", {"n_interactions": n, "n_actions": 2 + rng.randrange(2), "n_context_features": rng.randrange(2), "n_action_features": 0, "seed": rng.randrange(1, 9)}],
                   "ops": [["grounded", {"n_users": 4, "n_normal": rng.randrange(0, 5), "n_words": 4, "n_good": 1 + rng.randrange(3), "seed": rng.randrange(1, 9)}],
                           ["chunk", {"cache": True}], ["sparse", {"context": rng.random() < 0.5, "action": True}]],
                   "sibling": {"after": 1, "take": rng.choice([None, 30])},
                   "history": [["sibling", {"k": rng.choice([None, 1, 5])}], [rng.choice(["save", "pickle"]), {"keep": "copy"}], ["full", {}]] + gen_history(rng)[:3]}
            if rng.random() < 0.5:
                cfg["src"] = ["bandit", {"n_interactions": n, "n_actions": 2 + rng.randrange(2), "seed": rng.randrange(1, 9)}]
        return cfg

    # ------------------------------------------------------------------
    def run(self, cfg, seed, choices=None):
        quiet_context()
        out = {"counters": {}, "trace": [], "decisions": 0, "switches": 0, "sim_s": 0.0}
        out["digest"] = hashlib.blake2b(json.dumps(cfg, sort_keys=True).encode(), digest_size=16).hexdigest()
        out["sample"] = cfg
        # reference: first full read of a freshly built twin
        from checks import components as K
        K.TRANSIENT_FIRED.clear()
        try:
            K.INTERRUPTS_ENABLED = False
            if cfg.get("sibling"):
                twin, twin_sib = build_env_with_sibling(cfg, {})
                list(twin_sib.read())          # (the sibling shares the source object: what the source learns by being read - n_actions - shows in both)
            else:
                twin = build_env(cfg, {})
            R = [canon(i) for i in twin.read()]
            P = canon_val(dict(twin.params))
            K.INTERRUPTS_ENABLED = True
        except Exception as e:
            K.INTERRUPTS_ENABLED = True
            out.update(nontrivial=False, violation=None, violations=[])
            out["counters"]["discarded_unreadable_spec"] = 1
            out["counters"][f"discarded.src.{cfg['src'][0]}"] = 1
            out["sample"] = None
            return out
        if any(a.get("look") for _, a in cfg["history"]):
            # readers that look at some outcomes only / in another order are used only where the outcome functions of a FRESH environment do
            # not depend on the order of asking (a Grounded environment whose actions were rewritten by a later filter does: its feedback
            # no longer recognises the actions - a filter-composition matter outside C04); otherwise the twin's values are no reference
            names = [o[0] for o in cfg["ops"]]
            keeps_actions = {"cache", "chunk", "shuffle", "take", "slice", "reservoir", "where", "sort", "params", "materialize", "riffle", "cycle"}
            rewritten = "grounded" in names and any(n not in keeps_actions for n in names[names.index("grounded") + 1:])
            try:
                K.INTERRUPTS_ENABLED = False
                # (an outcome function that raises for the actions it is asked about - a reward mapping behind a filter that rewrote the
                #  actions into unhashable ones - gives no values to compare a partial look with either)
                raises = any(isinstance(v, tuple) and v and v[0] == "f-err" for i in R for v in i.values())
                order_free = (not rewritten) and (not raises) and [canon(i, "rev") for i in build_env(cfg, {}).read()] == R
            except Exception:
                order_free = False
            K.INTERRUPTS_ENABLED = True
            if not order_free:
                cfg = copy.deepcopy(cfg)
                for _, a in cfg["history"]:
                    a.pop("look", None)
                out["counters"]["reach.outcome_functions_depend_on_asking_order_looks_dropped"] = 1
        holder = {}
        tmp = None
        vios = {}
        try:
            sib = R_sib = None
            if cfg.get("sibling"):
                K.INTERRUPTS_ENABLED = False
                try:
                    R_sib = [canon(i) for i in build_env_with_sibling(cfg, {})[1].read()]
                finally:
                    K.INTERRUPTS_ENABLED = True
                env, sib = build_env_with_sibling(cfg, holder)
            else:
                env = build_env(cfg, holder)
            before = snapshot_inputs(holder)
            pending = []       # (iterator, close-at-step)
            live = [env]
            abandoned = False
            read_after_abandon = False
            read_objs = set()
            farerrs = []
            for step, (op, a) in enumerate(cfg["history"]):
                # deliver delayed closes that are due
                for it, due in list(pending):
                    if due is not None and due <= step:
                        pending.remove((it, due))
                        try:
                            if hasattr(it, "close"):
                                it.close()
                        except Exception as e:
                            vios.setdefault("close", vio("close_raised", f"closing an abandoned reader raised {type(e).__name__}: {e}", key=f"close_raised:{type(e).__name__}"))
                        out["counters"]["fault.delayed_close_delivered"] = out["counters"].get("fault.delayed_close_delivered", 0) + 1
                e = live[-1] if op != "full" or len(live) == 1 else live[step % len(live)]
                label = f"step {step} {op}{a if a else ''}"
                try:
                    if op == "full" and a.get("ctrl_c_at_bytecode"):
                        from sim import asyncexc
                        _instrument_stateful()
                        gc.disable()     # (a cyclic collection inside the window would finalise unrelated generators: not a function of the run)
                        asyncexc.arm(a["ctrl_c_at_bytecode"])
                        try:
                            got = [canon(i, a.get("look", "all")) for i in e.read()]
                        except KeyboardInterrupt:
                            got = None
                        finally:
                            fired, n_ins = asyncexc.disarm()
                            pass  # (the runner keeps the cyclic collector off for the whole run: sim/runner.py _fresh)
                        if fired is not None:
                            out["counters"]["fault.ctrl_c_between_bytecodes"] = out["counters"].get("fault.ctrl_c_between_bytecodes", 0) + 1
                            out["counters"][f"reach.ctrl_c_in.{fired[0]}"] = out["counters"].get(f"reach.ctrl_c_in.{fired[0]}", 0) + 1
                        if got is None:
                            abandoned = True
                            continue
                        read_objs.add(id(e))
                        read_after_abandon |= abandoned
                        self._cmp(got, R, label, vios, cfg)
                    elif op == "full":
                        got = [canon(i, a.get("look", "all")) for i in e.read()]
                        if a.get("look"):
                            out["counters"]["reach.read_looking_at_some_outcomes_only"] = out["counters"].get("reach.read_looking_at_some_outcomes_only", 0) + 1
                        read_objs.add(id(e))
                        read_after_abandon |= abandoned
                        self._cmp(got, R, label, vios, cfg)
                    elif op == "partial":
                        it = iter(e.read())
                        got = []
                        for _ in range(a["k"]):
                            try:
                                got.append(canon(next(it), a.get("look", "all")))
                            except StopIteration:
                                break
                        read_after_abandon |= abandoned
                        self._cmp(got, R[:a["k"]], label, vios, cfg, partial=True)
                        abandoned = True
                        out["counters"][f"fault.abandon_read_close_{a['close']}"] = out["counters"].get(f"fault.abandon_read_close_{a['close']}", 0) + 1
                        if a["k"] >= 25:
                            out["counters"]["reach.abandon_past_cache_slice"] = out["counters"].get("reach.abandon_past_cache_slice", 0) + 1
                        if a["close"] == "now":
                            if hasattr(it, "close"):
                                it.close()
                        elif a["close"] == "drop":
                            del it
                        elif a["close"] == "later":
                            pending.append((it, step + 1 + a["after"]))
                        else:
                            pending.append((it, None))
                        if len(got) > 0:
                            read_objs.add(id(e))
                    elif op == "sibling":
                        if sib is not None:
                            out["counters"]["reach.sibling_sharing_a_cache_read"] = out["counters"].get("reach.sibling_sharing_a_cache_read", 0) + 1
                            it = iter(sib.read())
                            got = []
                            for _ in range(a["k"] if a["k"] is not None else 10 ** 9):
                                try:
                                    got.append(canon(next(it)))
                                except StopIteration:
                                    break
                            del it
                            self._cmp(got, R_sib[:len(got)] if a["k"] is not None else R_sib, label, vios, cfg, partial=a["k"] is not None)
                    elif op == "params":
                        p = canon_val(dict(e.params))
                        # (with a sibling that shares the source object, what "has been read" means for the source is no longer a matter of
                        #  this object's own history: the params clause is checked in the runs without a sibling)
                        if id(e) in read_objs and p != P and not cfg.get("sibling"):
                            vios.setdefault("params", vio("params_changed", f"{label}: params {dict(e.params)!r} differ from the twin's {dict(twin.params)!r}", key="params_changed"))
                    elif op == "pickle":
                        try:
                            c = pickle.loads(pickle.dumps(e))
                        except Exception:
                            # not every environment can be pickled without cloudpickle (local functions), and a cache that is
                            # being read holds a live iterator; the property is about reads after a pickle that succeeded
                            out["counters"]["pickle_refused"] = out["counters"].get("pickle_refused", 0) + 1
                            continue
                        out["counters"]["fault.pickle_boundary"] = out["counters"].get("fault.pickle_boundary", 0) + 1
                        if id(e) in read_objs:
                            read_objs.add(id(c))
                        if a["keep"] == "copy":
                            live[-1] = c
                        else:
                            live.append(c)
                    elif op == "other_interpreter":
                        far = read_in_other_interpreter(e)
                        if far is None:
                            out["counters"]["pickle_refused"] = out["counters"].get("pickle_refused", 0) + 1
                            continue
                        out["counters"]["fault.read_in_an_interpreter_with_other_hash_randomisation"] = \
                            out["counters"].get("fault.read_in_an_interpreter_with_other_hash_randomisation", 0) + 1
                        if far[0] == "err":
                            out["counters"]["other_interpreter_read_raised"] = out["counters"].get("other_interpreter_read_raised", 0) + 1
                            farerrs.append(far[1])
                            continue
                        self._cmp(far[1], R, label + " (pickled copy read in another interpreter)", vios, cfg)
                    elif op in ("materialize", "cache", "chunk"):
                        import coba as cb
                        was_read = id(e) in read_objs
                        live[-1] = getattr(cb.Environments(e), op)()[0]
                        if was_read:    # (materialize() of an environment that already ends in a cache does not read it)
                            read_objs.add(id(live[-1]))
                    elif op == "save":
                        import coba as cb
                        if tmp is None:
                            tmp = tempfile.mkdtemp(prefix="c04_", dir=TMP_ROOT)
                        path = os.path.join(tmp, f"s{step}.zip")
                        live[-1] = cb.Environments(e).save(path)[0]
                        read_objs.add(id(live[-1]))
                    elif op == "gc":
                        gc.collect()
                except KeyboardInterrupt:
                    # the injected Ctrl-C (TaggedEnv.interrupt_at) ended this operation; what matters is what the next reads give
                    out["counters"]["fault.read_interrupted_by_keyboardinterrupt"] = out["counters"].get("fault.read_interrupted_by_keyboardinterrupt", 0) + 1
                    abandoned = True
                    continue
                except Exception as ex:
                    if isinstance(ex, K.Injected) and str(ex).startswith("transient:"):
                        # the injected one-off failure of the logging policy ended this operation; what matters is what the next reads give
                        out["counters"]["fault.read_ended_by_transient_component_failure"] = out["counters"].get("fault.read_ended_by_transient_component_failure", 0) + 1
                        abandoned = True
                        continue
                    import traceback
                    tb = traceback.extract_tb(ex.__traceback__)
                    where = next((f"{os.path.basename(f.filename)}:{f.name}" for f in reversed(tb) if "/coba/" in f.filename), "?")
                    vios.setdefault(f"raise:{op}", vio("operation_raised", f"{label} raised {type(ex).__name__}: {str(ex)[:200]} (in {where}) although the twin's first "
                                                                           f"read succeeded", key=f"operation_raised:{op}:{type(ex).__name__}:{where}"))
                    break
                after = snapshot_inputs(holder)
                if after != before:
                    k = next(k for k in before if before[k] != after.get(k))
                    vios.setdefault("mut", vio("caller_data_modified", f"{label}: the caller's {k} changed: before {str(before[k])[:200]} after {str(after[k])[:200]}",
                                               key=f"caller_data_modified:{k}"))
                    before = after
            for it, due in pending:
                try:
                    if hasattr(it, "close"):
                        it.close()
                except Exception:
                    pass
        finally:
            if tmp is not None:
                shutil.rmtree(tmp, ignore_errors=True)
        out["nontrivial"] = read_after_abandon and len(R) > 0
        out["counters"]["interactions_in_reference"] = len(R)
        # reach probes: which sources / filters / history operations were exercised by readable specs (a probe stuck at zero = a hole)
        out["counters"][f"reach.src.{cfg['src'][0]}"] = 1
        for o in {o[0] for o in cfg["ops"]}:
            out["counters"][f"reach.filter.{o}"] = 1
        for h in {h[0] for h in cfg["history"]}:
            out["counters"][f"reach.op.{h}"] = 1
        vl = list(vios.values())
        out["violations"] = vl
        out["violation"] = vl[0] if vl else None
        return out

    def _cmp(self, got, want, label, vios, cfg, partial=False):
        if got == want:
            return
        j = next((i for i, (a, b) in enumerate(zip(got, want)) if a != b), min(len(got), len(want)))
        if len(got) != len(want) and j == min(len(got), len(want)):
            what = f"{len(got)} interactions instead of {len(want)}"
            cls = "read_length_differs"
        else:
            ks = [k for k in set(got[j]) | set(want[j]) if got[j].get(k) != want[j].get(k)]
            what = f"interaction {j} differs in {ks}: {str({k: got[j].get(k) for k in ks})[:160]} vs first read {str({k: want[j].get(k) for k in ks})[:160]}"
            cls = "read_content_differs"
        vios.setdefault(cls, vio(cls, f"{label}: {what}", key=cls))

    def shrink(self, cfg):
        if cfg.get("sibling") and not any(h[0] == "sibling" for h in cfg["history"]):
            c = copy.deepcopy(cfg); del c["sibling"]; yield c
        for i in range(len(cfg["history"]) - 1, -1, -1):
            if len(cfg["history"]) > 1:
                c = copy.deepcopy(cfg); del c["history"][i]; yield c
        for i in range(len(cfg["ops"]) - 1, -1, -1):
            if cfg.get("sibling") and i == cfg["sibling"]["after"]:
                continue
            c = copy.deepcopy(cfg); del c["ops"][i]
            if c.get("sibling") and i < c["sibling"]["after"]:
                c["sibling"]["after"] -= 1
            yield c
        for i, (op, a) in enumerate(cfg["history"]):
            if a.get("look"):
                c = copy.deepcopy(cfg); del c["history"][i][1]["look"]; yield c
            if op == "partial":
                if a["k"] > 1:
                    c = copy.deepcopy(cfg); c["history"][i][1]["k"] = a["k"] // 2; yield c
                if a["close"] != "now":
                    c = copy.deepcopy(cfg); c["history"][i][1]["close"] = "now"; yield c
        kw = cfg["src"][1]
        for key in ("n_interactions", "n"):
            if isinstance(kw.get(key), int) and kw[key] > 1:
                c = copy.deepcopy(cfg); c["src"][1][key] = kw[key] // 2; yield c
        for key in ("X", "lines"):
            if key in kw and len(kw[key]) > 2:
                c = copy.deepcopy(cfg); c["src"][1][key] = kw[key][:max(2, len(kw[key]) // 2)]
                if key == "X":
                    c["src"][1]["Y"] = kw["Y"][:len(c["src"][1]["X"])]
                yield c


def make():
    return C04()
