"""C05 - Random streams are a pure, contract-respecting function of the seed.

Decided by simulation: the independence clause.  k logical callers each own a CobaRandom(seed_i) and a
script of calls; the seeded scheduler interleaves them call by call with interference steps
(coba.random.seed / module-level draws, stdlib random, creation and destruction of other instances,
pickling) and runs some callers inside simulated spawned processes (pristine module state).
Each caller's observed values must equal what the same script produces solo.

Checked only at the states the runs reach: the contract clause (ranges, membership, permutation,
non-zero weight, finiteness).  Seeds are biased so that early draws sit on boundary states of the
30-bit LCG; this is input selection and does not cover all 2^30 states x all arguments."""
import copy
import math
import pickle
import random as _stdrandom

from checks.common import vio, weighted, quiet_context
from sim.world import make_sim, run_sim

A, C, M = 116646453, 9, 2 ** 30
A_INV = pow(A, -1, M)


def preimage(state, steps=1):
    """Seed s such that the `steps`-th state after seeding with s is `state`."""
    s = state
    for _ in range(steps):
        s = ((s - C) * A_INV) % M
    return s


BOUNDARY_STATES = [0, 1, 2 ** 29, 2 ** 30 - 1, 2 ** 30 - 2, 2 ** 29 - 1]


def gen_seed(rng):
    k = weighted(rng, [("int", 5), ("boundary", 4), ("float", 1), ("str", 1), ("intfloat", 1), ("special", 1)])
    if k == "special":
        return rng.choice([0, 0.0, 1, -1, 2 ** 30, 2 ** 31 + 5])
    if k == "int":
        return rng.randrange(0, 10 ** 6)
    if k == "boundary":
        return preimage(rng.choice(BOUNDARY_STATES), 1 + rng.randrange(3))
    if k == "float":
        return round(rng.random() * 100, 3) + 0.0001
    if k == "intfloat":
        return float(rng.randrange(1000))
    return rng.choice(["abc", "seed-1", "é", "0", "", " ", "run-a-001", "run-b-001"])


def gen_seed_int(rng):
    s = gen_seed(rng)
    return s if isinstance(s, int) else 11


def gen_consumer(rng):
    """A component that is handed a seed and must then follow CobaRandom(seed): SafeLearner sampling from a learner's PMF (optionally
    wrapped around another SafeLearner that is used as well), SequentialCB playing a PMF learner."""
    k = weighted(rng, [("consumer_safe", 2), ("consumer_seqcb", 1), ("consumer_modstream", 1.5), ("consumer_pipes_shuffle", 1.5),
                       ("consumer_pipes_reservoir", 0.7), ("consumer_pmfpredictor", 1)])
    if k in ("consumer_pipes_shuffle", "consumer_pipes_reservoir"):
        # a seeded pipes filter is a function of (seed, input) at EVERY read of the same object, of a pickled copy and of a fresh object
        if k == "consumer_pipes_reservoir":
            # (ordinary seeds only: at the boundary state u == 0.0 Algorithm L itself takes log(0) / divides by zero - Reservoir's own defect,
            #  DESIGN 10.8 (4), not a statement about CobaRandom)
            return [k, [1 + rng.randrange(10 ** 4), 2 + rng.randrange(7), 1 + rng.randrange(3), rng.choice([None, 1, 2, 3])]]
        return [k, [abs(gen_seed_int(rng)), 2 + rng.randrange(7), 1 + rng.randrange(3), rng.choice([None, 1, 2, 3])]]      # (these filters only take seeds >= 0)
    if k == "consumer_pmfpredictor":
        return [k, [gen_seed_int(rng), 2 + rng.randrange(5), rng.random() < 0.5]]
    if k == "consumer_modstream":
        # the module-level generator is a CobaRandom(seed) too (coba.random.seed): what coba itself does in between - running an experiment,
        # downloading a data set - must not change what the user draws from it afterwards
        return [k, [weighted(rng, [(0, 1), (gen_seed_int(rng), 4)]), 2 + rng.randrange(3), weighted(rng, [("experiment", 2), ("openml_request", 1)])]]
    seed = weighted(rng, [(0, 2), (0.0, 1), (gen_seed(rng), 5)])
    if isinstance(seed, str):
        seed = 7
    if k == "consumer_safe":
        return [k, [seed, 2 + rng.randrange(5), rng.random() < 0.5, rng.choice([seed, 3, 11])]]
    return [k, [seed, 2 + rng.randrange(5)]]


def _pmf(t, k=3):
    w = [1 + ((t + i) % 3) for i in range(k)]
    return [x / sum(w) for x in w]


def do_consumer(call):
    from checks import components as K
    from coba.safety import SafeLearner
    m, a = call
    acts = [0, 1, 2]
    if m == "consumer_safe":
        seed, n, wrap, inner_seed = a
        pl = K.PMFLearner("c")
        inner = SafeLearner(pl, inner_seed) if wrap else pl
        sl = SafeLearner(inner, seed)
        out = []
        for t in range(n):
            if wrap and t % 2 == 1:
                inner.predict(None, acts)            # the inner wrapper is in use as well: its stream is its own
            act, p, kw = sl.predict(None, acts)
            out.append(act)
            sl.learn(None, act, 1.0, p)
        return out
    if m in ("consumer_pipes_shuffle", "consumer_pipes_reservoir"):
        import pickle
        import coba.pipes as P
        seed, n, reads, count = a
        mk = (lambda: P.Shuffle(seed)) if m == "consumer_pipes_shuffle" else (lambda: P.Reservoir(count, seed=seed))
        f = mk()
        items = list(range(n))
        out = [list(f.filter(list(items))) for _ in range(reads)]
        it = iter(f.filter(list(items)))        # a read that is abandoned after its first item
        next(it, None)
        del it
        out.append(list(f.filter(list(items))))
        out.append(list(pickle.loads(pickle.dumps(f)).filter(list(items))))
        out.append(list(mk().filter(list(items))))
        return out
    if m == "consumer_pmfpredictor":
        from coba.learners.utilities import PMFPredictor, PMFInfoPredictor
        seed, n, info = a
        t = [0]
        if info:
            pr = PMFInfoPredictor(lambda c, A: (_pmf(t[0]), {}), seed)
        else:
            pr = PMFPredictor(lambda c, A: _pmf(t[0]), seed)
        out = []
        for i in range(n):
            t[0] = i
            out.append(pr.predict(None, acts)[0])
        return out
    import coba as cb
    if m == "consumer_modstream":
        import coba.random as cr
        seed, n, what = a
        cr.seed(seed)
        if what == "experiment":
            cb.Experiment(cb.Environments(K.TaggedEnv("S", 3, 2)), [cb.RandomLearner(seed=1)]).run(quiet=True, seed=9)
        else:
            import types
            import coba.environments.openml as O
            from coba.context import CobaContext
            old = (O.HttpSource, O.time, CobaContext.store.get("openml_semaphore"))
            O.HttpSource = lambda url, **kw: types.SimpleNamespace(read=lambda: iter(["line"]))
            O.time = types.SimpleNamespace(sleep=lambda s_: None, time=old[1].time)
            CobaContext.store["openml_semaphore"] = object()       # (present in every worker of a multi-process experiment)
            try:
                list(O.OpenmlSource(data_id=1)._http_request("http://sim/x"))
            finally:
                O.HttpSource, O.time = old[0], old[1]
                if old[2] is None:
                    CobaContext.store.pop("openml_semaphore", None)
                else:
                    CobaContext.store["openml_semaphore"] = old[2]
        return cr.randoms(n)
    seed, n = a
    rows = list(cb.SequentialCB(seed=seed, record=["action"]).evaluate(K.TaggedEnv("S", n, 3), K.PMFLearner("c")))
    return [r["action"] for r in rows]


def consumer_expected(call):
    from coba.random import CobaRandom
    seed, n = call[1][0], call[1][1]
    if call[0] == "consumer_modstream":
        return CobaRandom(seed).randoms(n)
    if call[0] == "consumer_pipes_shuffle":
        return [CobaRandom(seed).shuffle(list(range(n)))] * (call[1][2] + 3)
    if call[0] == "consumer_pipes_reservoir":
        import coba.pipes as P
        count = call[1][3]
        if count is None:
            return [CobaRandom(seed).shuffle(list(range(n)))] * (call[1][2] + 3)
        return [list(P.Reservoir(count, seed=seed).filter(list(range(n))))] * (call[1][2] + 3)     # (self-consistency only)
    g = CobaRandom(seed)
    return [g.choicew([0, 1, 2], _pmf(t))[0] for t in range(n)]


def gen_call(rng):
    m = weighted(rng, [("random", 4), ("randoms", 2), ("randint", 3), ("randints", 2), ("shuffle", 3), ("choice", 3),
                       ("choicew", 3), ("gauss", 3), ("gausses", 1), ("choicew_buf", 1)])
    if m == "choicew_buf":
        # several draws through ONE weights list that the caller rewrites in place between the calls (a pre-allocated pmf buffer);
        # the rewrites keep the total, permute the weights or change the total
        n = 2 + rng.randrange(3)
        base = [rng.choice([0, 0, 1, 2]) for _ in range(n)]
        if sum(base) == 0:
            base[0] = 1
        vecs = [list(base)]
        for _ in range(1 + rng.randrange(3)):
            v = list(vecs[-1])
            rng.shuffle(v)
            if rng.random() < 0.3:
                v[rng.randrange(n)] += 1
            vecs.append(v)
        return [m, [[f"i{j}" for j in range(n)], vecs]]
    bounds = rng.choice([(0, 1), (0, 1), (-1, 1), (5, 10), (0.25, 0.5), (-1000.5, 1000), (0, 2 ** -20), (2 ** 20 - 1, 2 ** 20),
                         (2 ** 20 - 2 ** -20, 2 ** 20)])
    if m == "random":
        return [m, list(bounds)]
    if m == "randoms":
        return [m, [rng.randrange(0, 4)] + list(bounds)]
    if m == "randint":
        a = rng.choice([0, 1, -5, 100])
        return [m, [a, a + rng.choice([0, 1, 2, 9, 1000, 2 ** 20])]]
    if m == "randints":
        a = rng.choice([0, 1, -5])
        return [m, [rng.randrange(0, 4), a, a + rng.choice([0, 1, 5, 2 ** 20])]]
    if m == "shuffle":
        n = weighted(rng, [(0, 1), (1, 1), (2, 2), (3, 2), (5, 2), (9, 1)])
        return [m, [list(range(n)), rng.random() < 0.5]]
    if m in ("choice", "choicew"):
        n = weighted(rng, [(1, 2), (2, 3), (3, 3), (5, 1)])
        w = weighted(rng, [("none", 2), ("uniform", 1), ("zeros", 3), ("float", 2)])
        if w == "none":
            ws = None
        elif w == "uniform":
            ws = [1] * n
        elif w == "zeros":
            ws = [rng.choice([0, 0, 1, 2]) for _ in range(n)]
            if sum(ws) == 0:
                ws[rng.randrange(n)] = 1
        else:
            ws = [round(rng.random(), 2) for _ in range(n)]
            if sum(ws) == 0:
                ws[0] = 0.5
        items = [f"i{j}" for j in range(n)]
        if rng.random() < 0.25 and n >= 2:
            # members that compare equal but sit at different positions (with different weights)
            items = rng.choice([["x"] * n, [1, 1.0, True, "a", 1][:n], [items[0]] * (n - 1) + [items[-1]]])
        return [m, [items, ws]]
    if m == "gauss":
        return [m, [rng.choice([0, 1.5]), rng.choice([1, 0.1])]]
    return [m, [rng.randrange(0, 4), 0, 1]]


def do_call(g, call):
    m, a = call
    if m.startswith("consumer_"):
        return do_consumer(call)
    if m == "shuffle":
        items = list(a[0])
        out = g.shuffle(items, a[1])
        return (list(out), list(items))
    if m == "choicew_buf":
        buf = list(a[1][0])
        out = []
        for v in a[1]:
            buf[:] = v
            out.append(g.choicew(a[0], buf))
        return out
    return getattr(g, m)(*a)


def contract(call, val):
    if call[0].startswith("consumer_"):
        want = consumer_expected(call)
        return None if list(val) == want else f"seed_not_followed: the component given seed {call[1][0]!r} played {list(val)} but CobaRandom({call[1][0]!r}) gives {want}"
    return _contract(call, val)


def _contract(call, val):
    """Return None if val honours the documented contract of the call, else a message."""
    m, a = call
    if m in ("random", "randoms"):
        lo, hi = (a[0], a[1]) if m == "random" else (a[1], a[2])
        vals = [val] if m == "random" else list(val)
        if m == "randoms" and len(vals) != a[0]:
            return f"asked for {a[0]} values, got {len(vals)}"
        for v in vals:
            if not (isinstance(v, float) and lo <= v < hi):
                return f"uniform {v!r} outside [{lo},{hi})"
    elif m in ("randint", "randints"):
        lo, hi = (a[0], a[1]) if m == "randint" else (a[1], a[2])
        vals = [val] if m == "randint" else list(val)
        if m == "randints" and len(vals) != a[0]:
            return f"asked for {a[0]} values, got {len(vals)}"
        for v in vals:
            if not (isinstance(v, int) and lo <= v <= hi):
                return f"integer {v!r} outside [{lo},{hi}]"
    elif m == "shuffle":
        out, after = val
        if sorted(out) != sorted(a[0]):
            return f"shuffle returned {out!r}, not a permutation of {a[0]!r}"
        if not a[1] and after != a[0]:
            return f"shuffle(inplace=False) modified its input: {after!r}"
    elif m == "choicew_buf":
        for v, r in zip(a[1], val):
            msg = contract(["choicew", [a[0], v]], r)
            if msg:
                return "with a weights list rewritten in place: " + msg
    elif m in ("choice", "choicew"):
        seq, ws = a
        item, w = (val, None) if m == "choice" else val
        if item not in seq:
            return f"{m} returned {item!r} which is not in the sequence"
        # members may compare equal (duplicates, 1 == 1.0 == True): the chosen member is one of the equal positions with non-zero weight
        pos = [i for i, x in enumerate(seq) if x == item and (ws is None or ws[i] != 0)]
        if not pos:
            return f"{m} returned {item!r} whose weight is zero (weights {ws})"
        if m == "choicew":
            wants = {ws[i] for i in pos} if ws is not None else {1 / len(seq)}
            if w not in wants:
                return f"choicew reported weight {w!r} for {item!r}; the non-zero weights of members equal to it are {sorted(wants)!r}"
    elif m in ("gauss", "gausses"):
        vals = [val] if m == "gauss" else list(val)
        if m == "gausses" and len(vals) != a[0]:
            return f"asked for {a[0]} gaussians, got {len(vals)}"
        for v in vals:
            if not (isinstance(v, float) and math.isfinite(v)):
                return f"gauss returned {v!r}"
    return None


def _instrument_random():
    from sim import asyncexc
    import types
    from coba.random import CobaRandom
    asyncexc.instrument([f for f in vars(CobaRandom).values() if isinstance(f, types.FunctionType)])


def solo(seed, script):
    from coba.random import CobaRandom
    g = CobaRandom(seed)
    out = []
    for call in script:
        if call[0] == "ctrl_c":
            out.append(("arm",))
            continue
        try:
            out.append(("v", do_call(g, call)))
        except Exception as e:
            out.append(("e", type(e).__name__, str(e)[:80]))
    return out


_HELPER = None


def other_process_solo(seed, script):
    """The same script run solo in another interpreter whose hash randomisation differs from ours."""
    global _HELPER
    import json, os, subprocess, sys
    if _HELPER is None or _HELPER.poll() is not None:
        env = dict(os.environ, PYTHONHASHSEED="31337", PYTHONWARNINGS="ignore")
        _HELPER = subprocess.Popen([sys.executable, os.path.join(os.path.dirname(os.path.abspath(__file__)), "c05_helper.py")],
                                   stdin=subprocess.PIPE, stdout=subprocess.PIPE, text=True, env=env)
    _HELPER.stdin.write(json.dumps({"seed": seed, "script": script}) + "\n")
    _HELPER.stdin.flush()
    return json.loads(_HELPER.stdout.readline())


class C05:
    prop = "C05"
    level = "exploration"
    design_ref = "DESIGN.md 3.5"
    tiers = {"quick": {"runs": 40000, "budget_s": 80, "chunk": 150, "twice_every": 30, "shrink_s": 30},
             "thorough": {"runs": 3000000, "budget_s": 840, "chunk": 200, "twice_every": 100, "shrink_s": 60}}
    rule = ("one run = 2-5 callers, each CobaRandom(seed_i) (int, float, str and boundary-state pre-image seeds) with a script of 2-8 calls "
            "(random/randoms/randint/randints/shuffle/choice/choicew/gauss/gausses incl. empty and singleton sequences, zero weights, "
            "degenerate bounds), interleaved call-by-call by the seeded scheduler with an interference task (coba.random.seed and module-level "
            "draws, stdlib random, instance creation with equal/different seeds, pickling) and with some callers inside simulated spawned "
            "processes; non-trivial = >= 2 callers interleaved (baton moved); distinct = distinct event digest")
    assumptions = ["the contract clause is checked only at the generator states these runs reach (boundary states 0, 1, 2^29, 2^30-1, 2^30-2 as "
                   "one of the first three draws, plus ordinary seeds); it is NOT decided for all 2^30 states x all arguments",
                   "bounds of ordinary magnitude as in the property's quantifier", "None seeds (time-seeded by design) are excluded",
                   "a pickled CobaRandom restarts from its seed by design (__reduce__); not treated as interference with the original"]
    real_components = ["coba.random.CobaRandom", "coba.random module-level functions and _random"]
    stub_components = ["callers / interference (harness tasks)", "process boundary (per-pid virtualisation of coba.random._random; for str seeds "
                       "and a sample of the others additionally a real second interpreter with a different PYTHONHASHSEED)"]

    def gen(self, rng, tier, index):
        callers = []
        for _ in range(weighted(rng, [(2, 3), (3, 3), (4, 2), (5, 1)])):
            script = [gen_consumer(rng) if rng.random() < 0.08 else gen_call(rng) for _ in range(2 + rng.randrange(7))]
            if rng.random() < 0.06:
                # fault: a Ctrl-C lands at the k-th bytecode executed inside CobaRandom's own code during the following call
                script.insert(rng.randrange(len(script)), ["ctrl_c", [weighted(rng, [(rng.randrange(1, 12), 2), (rng.randrange(1, 60), 2), (rng.randrange(1, 300), 1)])]])
            callers.append({"seed": gen_seed(rng), "script": script, "in_process": rng.random() < 0.3})
        if rng.random() < 0.3 and len(callers) >= 2:
            callers[1]["seed"] = callers[0]["seed"]       # equal seeds must not couple the instances
        inter = []
        for _ in range(rng.randrange(0, 10)):
            k = weighted(rng, [("mod_seed", 2), ("mod_draw", 3), ("std", 2), ("new", 2), ("pickle", 1), ("store_seed", 1)])
            if k == "store_seed":
                inter.append([k, rng.choice([1, 5])])
                continue
            if k == "mod_seed":
                inter.append([k, rng.choice([None, 1, callers[0]["seed"]])])
            elif k == "mod_draw":
                inter.append([k, gen_call(rng)])
            elif k == "std":
                inter.append([k, rng.randrange(100)])
            elif k == "new":
                inter.append([k, rng.choice([callers[0]["seed"], rng.randrange(100)]), gen_call(rng)])
            else:
                inter.append([k, rng.randrange(len(callers))])
        return {"callers": callers, "inter": inter, "p_stay": weighted(rng, [(0.0, 3), (0.5, 1)])}

    def run(self, cfg, seed, choices=None):
        import coba.random as cr
        from coba.random import CobaRandom
        quiet_context()
        sim = make_sim(seed, choices=choices, p_stay=cfg["p_stay"], max_steps=5000)
        observed = [[] for _ in cfg["callers"]]
        gens = [None] * len(cfg["callers"])
        std_state = _stdrandom.getstate()

        def caller(i, c):
            g = gens[i] = CobaRandom(c["seed"])
            armed = None
            for call in c["script"]:
                sim.yield_("between-calls")
                if call[0] == "ctrl_c":
                    armed = call[1][0]
                    observed[i].append(("arm",))
                    continue
                if armed is not None and call[0].startswith("consumer_"):
                    armed = None         # (only plain CobaRandom calls are interrupted: a component call runs other code, yields to other tasks ...)
                if armed is not None:
                    from sim import asyncexc
                    import gc
                    _instrument_random()
                    gc.disable()         # (a cyclic collection inside the window would finalise unrelated generators: not a function of the seed)
                    asyncexc.arm(armed)
                try:
                    observed[i].append(("v", do_call(g, call)))
                except KeyboardInterrupt:
                    observed[i].append(("i",))
                except Exception as e:
                    observed[i].append(("e", type(e).__name__, str(e)[:80]))
                finally:
                    if armed is not None:
                        fired, _ = asyncexc.disarm()
                        pass  # (the runner keeps the cyclic collector off for the whole run: sim/runner.py _fresh)
                        armed = None
                        if fired is not None:
                            sim.count("fault.ctrl_c_between_bytecodes_of_a_call")
                sim.log("call", i, call[0])

        def interference():
            for step in cfg["inter"]:
                sim.yield_("interference")
                k = step[0]
                sim.count(f"fault.interference_{k}")
                try:
                    if k == "mod_seed":
                        cr.seed(step[1])
                    elif k == "mod_draw":
                        do_call(cr, step[1]) if step[1][0] != "shuffle" else cr.shuffle(list(step[1][1][0]))
                    elif k == "std":
                        _stdrandom.seed(step[1]); _stdrandom.random()
                    elif k == "new":
                        g2 = CobaRandom(step[1]); do_call(g2, step[2]); del g2
                    elif k == "store_seed":
                        from coba.context import CobaContext
                        CobaContext.store["experiment_seed"] = step[1]     # what Experiment.run leaves there while it runs
                    elif k == "pickle":
                        g = gens[step[1]]
                        if g is not None:
                            g3 = pickle.loads(pickle.dumps(g)); g3.random()
                except Exception:
                    pass

        def main():
            tasks = []
            for i, c in enumerate(cfg["callers"]):
                pid = sim.new_pid() if c["in_process"] else None
                if c["in_process"]:
                    sim.count("fault.caller_in_spawned_process")
                tasks.append(sim.spawn(lambda i=i, c=c: caller(i, c), f"caller{i}", pid=pid))
            tasks.append(sim.spawn(interference, "interference"))
            sim.block(lambda: all(t.done for t in tasks), "join")

        try:
            outcome = run_sim(sim, main)
        finally:
            _stdrandom.setstate(std_state)
        res = {"digest": sim.digest(), "trace": sim.trace, "decisions": sim.n_decisions, "switches": sim.n_switches, "sim_s": 0.0,
               "counters": dict(sim.counters)}
        res["nontrivial"] = sim.n_switches > 0 and len(cfg["callers"]) >= 2
        vios = {}
        if outcome != "done" or "exc" in sim.result:
            vios["h"] = vio("harness", f"{outcome} {sim.result.get('exc')!r}")
        for i, c in enumerate(cfg["callers"]):
            want = solo(c["seed"], c["script"])
            got = observed[i]
            if isinstance(c["seed"], str) or (i == 0 and seed % 16 == 0):
                import json
                res["counters"]["fault.other_interpreter_other_hash_seed"] = res["counters"].get("fault.other_interpreter_other_hash_seed", 0) + 1
                far = other_process_solo(c["seed"], c["script"])
                if far != json.loads(json.dumps(want)):
                    j = next((k for k, (a, b) in enumerate(zip(far, json.loads(json.dumps(want)))) if a != b), 0)
                    vios.setdefault("proc", vio("stream_depends_on_process", f"CobaRandom({c['seed']!r}) call #{j} {c['script'][j]}: this interpreter "
                                                                            f"(PYTHONHASHSEED=0) gives {want[j]!r}, another interpreter (PYTHONHASHSEED=31337) gives {far[j]!r}"))
            hit = next((k for k, o in enumerate(got) if o == ("i",)), None)
            if hit is not None:
                # a call was interrupted: where the stream continues is not defined, that it continues is.  Every later call must still work
                for k in range(hit + 1, len(got)):
                    o, call = got[k], c["script"][k]
                    dead = (o[0] == "e" and o[1] in ("StopIteration", "RuntimeError", "IndexError")) or \
                           (o[0] == "v" and call[0] in ("randoms", "randints", "gausses") and call[1][0] > 0 and len(o[1]) < call[1][0])
                    if dead:
                        vios.setdefault("dead", vio("stream_dead_after_interrupt", f"caller {i} seed={c['seed']!r}: a Ctrl-C inside call #{hit} {c['script'][hit][0]} "
                                                    f"and from then on call #{k} {call[0]} gives {o!r}", key="stream_dead_after_ctrl_c_inside_call"))
                        break
                got, want = got[:hit], want[:hit]
            if got != want:
                j = next((k for k, (a, b) in enumerate(zip(got, want)) if a != b), min(len(got), len(want)))
                vios.setdefault("dep", vio("stream_depends_on_environment",
                                           f"caller {i} seed={c['seed']!r} call #{j} {c['script'][j] if j < len(c['script']) else None}: "
                                           f"interleaved {got[j] if j < len(got) else None!r} vs solo {want[j] if j < len(want) else None!r}"))
            for call, w in zip(c["script"], want):
                if call[0] == "ctrl_c":
                    continue
                res["counters"]["contract_checks"] = res["counters"].get("contract_checks", 0) + 1
                if w[0] == "e":
                    legit = (call[0] in ("choice", "choicew") and not call[1][0])
                    if not legit:
                        vios.setdefault(f"raise:{call[0]}:{w[1]}", vio("call_raised", f"CobaRandom({c['seed']!r}).{call[0]}{tuple(call[1])} raised {w[1]}: {w[2]}",
                                                                       key=f"call_raised:{call[0]}:{w[1]}"))
                    continue
                msg = contract(call, w[1])
                if msg:
                    key = f"contract:{call[0]}:{msg.split(' ')[0]}"
                    if call[0] in ("random", "randoms"):
                        lo, hi = (call[1][0], call[1][1]) if call[0] == "random" else (call[1][1], call[1][2])
                        vals = [w[1]] if call[0] == "random" else list(w[1])
                        if all((lo <= v < hi) or v == hi for v in vals) and (hi - lo) <= 2 ** -19 and abs(hi) >= 2 ** 19:
                            key = "uniform_rounds_up_to_max_for_tiny_range_at_large_offset"
                    vios.setdefault(f"contract:{call[0]}", vio("contract_violated", f"CobaRandom({c['seed']!r}) ... {call[0]}{tuple(call[1])}: {msg}",
                                                               key=key))
        vl = list(vios.values())
        res["violations"] = vl
        res["violation"] = vl[0] if vl else None
        res["sample"] = {"callers": [{"seed": c["seed"], "calls": [x[0] for x in c["script"]], "in_process": c["in_process"]} for c in cfg["callers"]],
                         "interference": [x[0] for x in cfg["inter"]], "first_choices": sim.trace[:20]}
        return res

    def shrink(self, cfg):
        for i in range(len(cfg["callers"]) - 1, -1, -1):
            if len(cfg["callers"]) > 1:
                c = copy.deepcopy(cfg); del c["callers"][i]
                c["inter"] = [s for s in c["inter"] if not (s[0] == "pickle" and s[1] >= len(c["callers"]))]
                yield c
        for i in range(len(cfg["inter"]) - 1, -1, -1):
            c = copy.deepcopy(cfg); del c["inter"][i]; yield c
        for i, cl in enumerate(cfg["callers"]):
            for j in range(len(cl["script"]) - 1, -1, -1):
                if len(cl["script"]) > 1:
                    c = copy.deepcopy(cfg); del c["callers"][i]["script"][j]; yield c
            if cl["in_process"]:
                c = copy.deepcopy(cfg); c["callers"][i]["in_process"] = False; yield c


def make():
    return C05()
