"""Helper interpreter for C05: computes solo streams in a process with a DIFFERENT hash seed (and fresh module state).
Reads one JSON request per line on stdin ({"seed":..., "script":[...]}), answers one JSON line."""
import json
import os
import sys
import warnings

warnings.filterwarnings("ignore")
HERE = os.path.dirname(os.path.dirname(os.path.abspath(__file__)))
sys.path.insert(0, HERE)
if os.environ.get("COBA_VERIF_SRC"):
    sys.path.insert(0, os.environ["COBA_VERIF_SRC"])
from checks.c05 import solo  # noqa: E402
from checks.common import quiet_context  # noqa: E402

quiet_context()      # (components that log must not write into the answer stream)

for line in sys.stdin:
    req = json.loads(line)
    sys.stdout.write(json.dumps(solo(req["seed"], req["script"])) + "\n")
    sys.stdout.flush()
