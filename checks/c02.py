"""C02 - Interrupted experiments resume without losing or repeating work.

Crash model: the transaction log is append-only and flushed per record, so a killed run leaves a
byte-prefix of what it would eventually have written.  One evaluation = one (experiment, schedule):
the experiment runs to completion with a result file on the simulated multiprocessing layer
(record order in the file is schedule dependent), then every chosen prefix F[:n] is resumed by a
freshly built identical experiment with recording evaluators."""
import copy
import gzip
import hashlib
import json
import os
import time
import shutil
import tempfile
import zlib

from checks.common import vio, weighted, quiet_context, ListSinkH
from checks import expsim as X
from checks import components as K
from checks.c03 import triple_ids

TMP_ROOT = "/dev/shm" if os.path.isdir("/dev/shm") else tempfile.gettempdir()


def wrap_spec(spec):
    s = copy.deepcopy(spec)
    s["evaluators"] = [["counting", {"inner": v, "tag": f"v{i}"}] for i, v in enumerate(s["evaluators"])]
    s["default_evaluator"] = False
    if s["shape"] == "tuples":
        for t in s["tuples"]:
            if len(t) < 3 or t[2] is None:
                t[2:] = [0]
    return s


def stamp(exp):
    """Mark the user's objects so that recording evaluators can say which triple they were asked for."""
    for i, (env, lrn, val) in enumerate(exp._triples):
        for o, name in ((env, "_c02_env"), (lrn, "_c02_lrn")):
            if not hasattr(o, name):
                try:
                    setattr(o, name, i)
                except Exception:
                    pass


def gz_member_ends(data):
    """Offsets at which a complete gzip member ends."""
    ends, pos = [], 0
    while pos < len(data):
        d = zlib.decompressobj(16 + zlib.MAX_WBITS)
        try:
            d.decompress(data[pos:])
        except zlib.error:
            break
        if not d.eof:
            break
        pos = len(data) - len(d.unused_data)
        ends.append(pos)
    return ends


def complete_records(prefix, is_gz):
    """Records that are completely (newline included) inside the prefix."""
    if is_gz:
        ends = gz_member_ends(prefix)
        text = b"".join(gzip.decompress(prefix[a:b]) for a, b in zip([0] + ends[:-1], ends)) if ends else b""
    else:
        text = prefix
    lines = text.split(b"\n")[:-1]
    out = []
    for l in lines:
        if l.strip():
            out.append(json.loads(l.decode("utf-8")))
    return out


def file_records(path):
    opener = gzip.open if path.endswith(".gz") else open
    with opener(path, "rb") as f:
        return [json.loads(l) for l in f.read().decode("utf-8").split("\n") if l.strip()]


class C02:
    prop = "C02"
    state_measure = ("of the simulated multi-process run(s): per queue (pipe length, outstanding count) x per live task (task kind, kind of "
                     "thing it is blocked on), sampled at every scheduler decision; hashed; distinct values counted")
    level = "fault_enumeration"
    design_ref = "DESIGN.md 3.2"
    tiers = {"quick": {"runs": 144, "budget_s": 85, "chunk": 1, "twice_every": 8, "shrink_s": 60},
             "thorough": {"runs": 4000, "budget_s": 780, "chunk": 1, "twice_every": 16, "shrink_s": 180, "grace_s": 600}}
    rule = ("one evaluation = one (experiment, configuration, schedule) whose finished transaction log F (plain or .gz, written by "
            "simulated workers so the record order is schedule dependent) is cut at crash offsets n and resumed by a freshly built "
            "identical experiment with recording evaluators (in-process, or on simulated workers for a sample; second-generation "
            "crashes for a sample). quick: every record boundary, +-1/+-2 bytes around each, the byte before each newline, three "
            "PRNG-chosen interior offsets per record, n in {0,1}; thorough: every n in 0..len(F). non-trivial = the log holds >= 2 "
            "interaction records; distinct = digest of (spec, event log of the writing run)")
    assumptions = ["a record is on disk once write+flush returned; a crash leaves a byte-prefix of the flushed stream",
                   "for .gz logs the prefix is taken on the compressed bytes (one gzip member per record, as DiskSink(batch=1) writes them)",
                   "durability below flush() (page cache, fsync) is out of reach",
                   "the resumed experiment is constructed identically (same triples in the same order)"]
    real_components = ["Experiment.run (restore path)", "Result.from_file", "TransactionDecode/Encode/Result", "MakeTasks (restored ids)",
                       "DiskSink / DiskSource on real files (plain and .gz)", "ProcessTasks", "CobaMultiprocessor/Multiprocessor"]
    stub_components = ["multiprocessing/threading primitives (as C01)", "the crash itself: the file is replaced by a byte-prefix", "recording evaluators"]

    def gen(self, rng, tier, index):
        spec = X.gen_spec(rng, max_groups=2, small=True, flavours=(("sim", 6), ("logged", 1)))
        spec["quiet"] = True
        if rng.random() < 0.05:
            # one long environment: its interaction records are tens of kilobytes, so a crash can land deep inside a record
            spec["envs"] = [{"src": ["linear", {"n_interactions": 200 + rng.randrange(150), "n_actions": 3, "n_context_features": 2,
                                                 "n_action_features": 2, "seed": rng.randrange(1, 30)}], "ops": []}]
            spec["learners"] = spec["learners"][:2]
            if spec["shape"] == "tuples":
                spec["tuples"] = spec["tuples"][:3]
        return {"spec": wrap_spec(spec), "config": X.gen_config(rng), "resume_config": X.gen_config(rng), "knobs": X.gen_knobs(rng),
                "gz": index % 3 == 2, "exhaustive": tier == "thorough" and index % 4 == 0,
                "resume_sim_every": 7, "offset_seed": rng.randrange(1 << 30), "second_gen": rng.random() < 0.5,
                # a graceful interruption as well: Ctrl-C while an environment produces its k-th item (fraction of its length), then a re-run
                "ctrl_c": rng.random() if rng.random() < 0.5 else None}

    # ------------------------------------------------------------------
    def offsets(self, F, cfg, is_gz, n_rows=0):
        # (longer logs would take minutes each, and so would short logs of long evaluations - every resume evaluates what is left, and a run
        #  of 8000 resumes over 700 interactions did not finish within the batch's grace period: boundary set instead)
        if cfg["exhaustive"] and len(F) <= 8000 and len(F) * max(1, n_rows) <= 600_000:
            return list(range(len(F) + 1)), True
        import random
        r = random.Random(cfg["offset_seed"])
        if is_gz:
            ends = gz_member_ends(F)
        else:
            ends = [i + 1 for i, b in enumerate(F) if b == 10]
        offs = {0, 1, len(F)}
        prev = 0
        for e in ends:
            for d in (-2, -1, 0, 1, 2):
                if 0 <= e + d <= len(F):
                    offs.add(e + d)
            if e - prev > 3:
                for _ in range(3):
                    offs.add(r.randrange(prev + 1, e - 1))
            prev = e
        offs = sorted(offs)
        if len(F) > 20000 and len(offs) > 48:       # long logs: a seeded sample of the boundary set (each resume is expensive)
            keep = {0, 1, len(F)} | set(r.sample(offs, 45))
            offs = sorted(keep)
        return offs, False

    def resume(self, spec, path, config, seed, knobs, simulated):
        """Resume from ``path``.  Returns (tables | None, exception | None, evaluate-calls, log)."""
        K.take_outside_calls()
        if simulated:
            exp, objs = X.build_experiment(spec)
            stamp(exp)
            sim, outcome, res, _, log = X.run_simulated(spec, config, seed, None, result_file=path, knobs=knobs, prebuilt=(exp, objs))
            calls = list(sim.user.get("calls", []))
            if outcome != "done":
                return None, RuntimeError(f"{outcome}: {sim.outcome_info}"), calls, log, exp
            if "exc" in sim.result:
                return None, sim.result["exc"], calls, log, exp
            return X.tables(res), None, calls, log, exp
        sink = ListSinkH()
        quiet_context(sink)
        exp, objs = X.build_experiment(spec)
        stamp(exp)
        kw = dict(processes=1, maxchunksperchild=0, maxtasksperchunk=0, quiet=True)
        if "seed" in spec:
            kw["seed"] = spec["seed"]
        try:
            res = exp.run(path, **kw)
        except Exception as e:
            return None, e, K.take_outside_calls(), sink, exp
        return X.tables(res), None, K.take_outside_calls(), sink, exp

    def run(self, cfg, seed, choices=None):
        try:
            return self._run(cfg, seed, choices)
        except X.InvalidSpec:
            import hashlib as _h, json as _j
            return {"digest": _h.blake2b(_j.dumps(cfg, sort_keys=True).encode(), digest_size=16).hexdigest(), "trace": [], "nontrivial": False,
                    "violation": None, "violations": [], "counters": {"invalid_spec": 1}, "sample": None}

    def _run(self, cfg, seed, choices=None):
        spec = cfg["spec"]
        is_gz = cfg["gz"]
        tmp = tempfile.mkdtemp(prefix="c02_", dir=TMP_ROOT)
        out = {"counters": {}, "extra": {}}
        vios = {}

        def add(v):
            vios.setdefault(v["key"], v)

        try:
            full = os.path.join(tmp, "full.log" + (".gz" if is_gz else ""))
            sim, outcome, res_full, _, log_full = X.run_simulated(spec, cfg["config"], seed, choices, result_file=full, knobs=cfg["knobs"])
            out.update(X.sim_summary(sim))
            if outcome != "done" or "exc" in sim.result:
                out.update(violation=vio("uninterrupted_run_failed", f"{outcome} {sim.result.get('exc')!r} {sim.result.get('tb', '')[-1000:]}"),
                           nontrivial=True, sample={"spec": spec})
                return out
            t_full = X.tables(res_full)
            F = open(full, "rb").read()
            full_log_text = "\n".join(map(str, log_full.items))
            try:
                n_rows = len(t_full["interactions"])
            except Exception:
                n_rows = 0
            offs, exhaustive = self.offsets(F, cfg, is_gz, n_rows)
            exp0, _ = X.build_experiment(spec)
            ids = triple_ids(exp0)
            n_I = sum(1 for r in file_records(full) if r and r[0] == "I")
            from collections import Counter
            self._full_counts = Counter()
            for r in file_records(full):
                if r[0] == "I":
                    self._full_counts[("I", tuple(r[1]) if len(r[1]) == 3 else (*r[1], 0))] += 1
                elif r[0] in ("E", "L", "V"):
                    self._full_counts[(r[0], r[1])] += 1
                else:
                    self._full_counts[(r[0],)] += 1
            self._ctrl_c(cfg, spec, tmp, is_gz, t_full, ids, full_log_text, seed, add, out)
            self._ctrl_c_same_objects(cfg, tmp, is_gz, add, out)
            k = 0
            for n in offs:
                k += 1
                path = os.path.join(tmp, f"r{n}.log" + (".gz" if is_gz else ""))
                with open(path, "wb") as f:
                    f.write(F[:n])
                simulated = (k % cfg["resume_sim_every"] == 0)
                where = self._where(F, n, is_gz)
                self._check_resume(cfg, spec, path, F[:n], n, where, is_gz, t_full, ids, full_log_text, seed, simulated, add, out, depth=0)
                os.remove(path)
            out["extra"]["crash_offsets_enumerated"] = len(offs)
            out["extra"]["logs_enumerated_exhaustively"] = int(exhaustive)
            out["extra"]["log_bytes"] = len(F)
        finally:
            shutil.rmtree(tmp, ignore_errors=True)
        out["nontrivial"] = n_I >= 2
        out["digest"] = hashlib.blake2b((out["digest"] + json.dumps(spec, sort_keys=True) + str(is_gz)).encode(), digest_size=16).hexdigest()
        vl = list(vios.values())
        out["violations"] = vl
        out["violation"] = vl[0] if vl else None
        out["sample"] = {"spec": spec, "config": cfg["config"], "gz": is_gz, "log_bytes": len(F), "offsets": len(offs),
                         "exhaustive": exhaustive, "interaction_records": n_I}
        return out

    def _ctrl_c(self, cfg, spec, tmp, is_gz, t_full, ids, full_log_text, seed, add, out):
        """Interrupted 'at any moment' the graceful way: a KeyboardInterrupt is raised while an environment produces one of its items
        (during the first read - the peek - or during an evaluation).  Experiment.run may abort or carry on; either way running the same
        experiment again with that file must give the uninterrupted Result without evaluating or recording anything twice."""
        import copy
        if cfg.get("ctrl_c") is None:
            return
        gi = next((i for i, g in enumerate(spec["envs"]) if g["src"][0] == "tagged" or (g["src"][0] == "supervised" and g["src"][1].get("via") == "source")), None)
        if gi is None:
            return
        spec2 = copy.deepcopy(spec)
        kw = spec2["envs"][gi]["src"][1]
        n_items = kw["n"] if spec2["envs"][gi]["src"][0] == "tagged" else len(kw["X"])
        if n_items <= 0:
            return
        kw["interrupt_at"] = min(n_items - 1, int(cfg["ctrl_c"] * n_items))
        path = os.path.join(tmp, "ctrlc.log" + (".gz" if is_gz else ""))
        sink = ListSinkH()
        quiet_context(sink)
        from sim.world import reset_coba_globals
        reset_coba_globals()
        K.INTERRUPTS_ENABLED = False      # (materialize() reads while the experiment is being built: no Ctrl-C there)
        try:
            exp, _ = X.build_experiment(spec2)
        finally:
            K.INTERRUPTS_ENABLED = True
        stamp(exp)
        kwr = dict(processes=1, maxchunksperchild=0, maxtasksperchunk=0, quiet=True)
        if "seed" in spec:
            kwr["seed"] = spec["seed"]
        K.take_outside_calls()
        try:
            exp.run(path, **kwr)
        except BaseException as e:
            if type(e).__name__ == "SimKill":
                raise
        K.take_outside_calls()
        out["counters"]["fault.ctrl_c_while_an_environment_is_read"] = 1
        text = "\n".join(map(str, sink.items))
        out["counters"]["reach.ctrl_c_aborted_the_run" if "Aborted" in text else "reach.ctrl_c_did_not_abort_the_run"] = 1
        if not os.path.exists(path):
            return
        with open(path, "rb") as f:
            prefix = f.read()
        # the most natural re-run of all: the SAME Experiment object (same learner / environment / evaluator objects) is run again in the same
        # process - what a user does in a notebook after pressing Ctrl-C
        if True:
            path_same = os.path.join(tmp, "ctrlc_same.log" + (".gz" if is_gz else ""))
            shutil.copyfile(path, path_same)
            sink2 = ListSinkH()
            quiet_context(sink2)
            K.take_outside_calls()
            try:
                res_same = exp.run(path_same, **kwr)
                d_same = X.diff_tables(t_full, X.tables(res_same))
            except BaseException as e:
                if type(e).__name__ == "SimKill":
                    raise
                d_same = f"raised {type(e).__name__}: {str(e)[:160]}"
            K.take_outside_calls()
            out["counters"]["reach.same_objects_run_again_after_ctrl_c"] = 1
            if d_same:
                add(vio("result_differs", f"{'gz' if is_gz else 'plain'} log, Ctrl-C while an environment was read, then the SAME Experiment object run again "
                                          f"with that file: Result differs from the uninterrupted one: {d_same}", key="same_objects_rerun_after_ctrl_c:result_differs"))
            for f_ in (path_same, path_same + ".partial"):
                if os.path.exists(f_):
                    os.remove(f_)
        where = "ctrl_c"
        self._check_resume(cfg, spec, path, prefix, len(prefix), where, is_gz, t_full, ids, full_log_text, seed, False, add, out, depth=1)

    def _ctrl_c_same_objects(self, cfg, tmp, is_gz, add, out):
        """A biased shape for the re-run that uses the SAME objects: one environment, one stateful learner that is listed once (so it is not
        copied), Ctrl-C in the middle of its only evaluation, then ``exp.run(file)`` on the same Experiment object."""
        if cfg.get("ctrl_c") is None or cfg["offset_seed"] % 3:
            return
        n = 6 + cfg["offset_seed"] % 7
        spec3 = wrap_spec({"envs": [{"src": ["tagged", {"tag": "T0", "n": n, "n_actions": 3}], "ops": []}], "flavour": "sim", "shape": "product",
                           "learners": [["counter", {"k": 1 + cfg["offset_seed"] % 3, "tag": "c0"}]],
                           "evaluators": [["seqcb", {"record": ["reward", "action"], "learn": "on", "eval": "on", "seed": None}]],
                           "seed": 1, "quiet": True, "description": None})
        from sim.world import reset_coba_globals
        kwr = dict(processes=1, maxchunksperchild=0, maxtasksperchunk=0, quiet=True, seed=1)
        try:
            res0, _, _ = X.run_inproc(spec3)
            t0 = X.tables(res0)
        except Exception:
            return
        spec4 = copy.deepcopy(spec3)
        spec4["envs"][0]["src"][1]["interrupt_at"] = max(1, min(n - 1, int(cfg["ctrl_c"] * n)))
        path = os.path.join(tmp, "ctrlc_same3.log" + (".gz" if is_gz else ""))
        quiet_context(ListSinkH())
        reset_coba_globals()
        K.INTERRUPTS_ENABLED = False
        try:
            exp, _ = X.build_experiment(spec4)
        finally:
            K.INTERRUPTS_ENABLED = True
        try:
            exp.run(path, **kwr)
        except BaseException as e:
            if type(e).__name__ == "SimKill":
                raise
        out["counters"]["fault.ctrl_c_inside_the_only_evaluation_of_an_uncopied_learner"] = 1
        try:
            d = X.diff_tables(t0, X.tables(exp.run(path, **kwr)))
        except BaseException as e:
            if type(e).__name__ == "SimKill":
                raise
            d = f"raised {type(e).__name__}: {str(e)[:160]}"
        K.take_outside_calls()
        if d:
            add(vio("result_differs", f"{'gz' if is_gz else 'plain'} log: Counter learner listed once on a {n}-interaction environment, Ctrl-C at interaction "
                                      f"{spec4['envs'][0]['src'][1]['interrupt_at']} of its evaluation, then the SAME Experiment object run again with that "
                                      f"file: Result differs from the uninterrupted one: {d}", key="same_objects_rerun_after_ctrl_c:result_differs"))

    def _where(self, F, n, is_gz):
        """Classify the crash point (used in finding keys so that different failure classes stay distinguishable)."""
        if n == 0:
            return "empty_file"
        ends = gz_member_ends(F) if is_gz else [i + 1 for i, b in enumerate(F) if b == 10]
        if n in ends or n == len(F):
            k = ends.index(n) + 1 if n in ends else len(ends)
            return "after_version_record_only" if k == 1 else "record_boundary"
        first = ends[0] if ends else len(F)
        if n < first:
            return "inside_version_record"
        if not is_gz and (n + 1) in ends:
            return "complete_record_without_newline"
        return "inside_record"

    def _check_resume(self, cfg, spec, path, prefix, n, where, is_gz, t_full, ids, full_log_text, seed, simulated, add, out, depth):
        kind = "gz" if is_gz else "plain"
        # double fault: an earlier resume was itself killed while it rewrote the log without its partial tail, leaving
        # a stale '<file>.partial' that holds an arbitrary byte-prefix of what that repair would have written
        torn = not (where.startswith("record_boundary") or where.startswith("after_version") or where.startswith("empty"))
        if torn and depth == 0 and n % 3 == 0:
            try:
                done0 = complete_records(prefix, is_gz)
            except Exception:
                done0 = []
            text = "".join(json.dumps(r, separators=(",", ":")) + "\n" for r in done0).encode()
            blob = gzip.compress(text) if is_gz else text
            if blob:
                import random
                cutp = random.Random(n * 7919 + cfg["offset_seed"]).randrange(0, len(blob) + 1)
                with open(path + ".partial", "wb") as f:
                    f.write(blob[:cutp])
                out["counters"]["fault.crash_during_repair_stale_partial"] = out["counters"].get("fault.crash_during_repair_stale_partial", 0) + 1
                where = where + "+stale_partial"
        if torn and depth == 0 and n % 3 == 1:
            # double fault, the real way: a resume attempt is KILLED (os._exit in a forked child, so nothing buffered is flushed and no
            # finally block runs) at a chosen C call after the first call inside Experiment._restore that changes the disk.  Whatever state of
            # <file> / <file>.partial that leaves is what the resume below starts from; the records that were complete before must survive
            if self._kill_inside_repair(spec, path, n, cfg, seed, out):
                where = where + "+killed_in_repair"
        if depth == 0 and not is_gz and n % 4 == 1:
            # fault: the first attempt to resume cannot READ the log (EIO / ESTALE / a permission problem while opening it).  Whatever that
            # attempt does - it may well raise - the records that are in the file must still be there afterwards
            import coba.pipes.sources as S
            import errno

            def failing_open(file, *a, **k):
                if str(file) == str(path):
                    raise OSError(errno.EIO, "Input/output error (injected)")
                return open(file, *a, **k)
            S.open = failing_open
            try:
                _, _, calls0, _, exp0 = self.resume(spec, path, [1, 0, 0], seed, cfg["knobs"], False)
            finally:
                del S.open
            out["counters"]["fault.io_error_while_reading_log_on_resume"] = out["counters"].get("fault.io_error_while_reading_log_on_resume", 0) + 1
            try:
                before = complete_records(prefix, is_gz)
            except Exception:
                before = []
            restored0 = {tuple(r[1]) if len(r[1]) == 3 else (*r[1], 0) for r in before if r and r[0] == "I" and r[2].get("_packed")}
            evaluated0 = {(c[2], c[3], c[1]) for c in calls0 if c[0] == "val.evaluate"}
            for i, tid in enumerate(ids):
                env, lrn, val = exp0._triples[i]
                if tid in restored0 and (getattr(env, "_c02_env", None), getattr(lrn, "_c02_lrn", None), getattr(val, "tag", None)) in evaluated0:
                    add(vio("log_destroyed_by_failed_resume", f"{kind} log cut at byte {n} ({where}): a resume attempt that could not read the log (EIO when opening "
                                                              f"it) threw the recorded results away and evaluated triple {tid} again",
                            key=f"{kind}:log_destroyed_by_failed_resume"))
                    return
            try:
                with open(path, "rb") as f:
                    after = complete_records(f.read(), is_gz)
            except Exception:
                after = []
            if len(after) < len(before):
                add(vio("log_destroyed_by_failed_resume", f"{kind} log cut at byte {n} ({where}): a resume attempt that could not read the log (EIO) left "
                                                          f"{len(after)} of its {len(before)} complete records in the file", key=f"{kind}:log_destroyed_by_failed_resume"))
                return
        tabs, exc, calls, log, exp = self.resume(spec, path, cfg.get("resume_config", cfg["config"]), seed ^ (n * 2654435761 & 0xFFFFFFFF), cfg["knobs"], simulated)
        out["counters"]["resumes"] = out["counters"].get("resumes", 0) + 1
        out["counters"][f"fault.crash_{where}"] = out["counters"].get(f"fault.crash_{where}", 0) + 1
        if simulated:
            out["counters"]["resumes_on_simulated_workers"] = out["counters"].get("resumes_on_simulated_workers", 0) + 1
        if exc is not None:
            add(vio("resume_raised", f"{kind} log cut at byte {n} ({where}): the resumed run raised {type(exc).__name__}: {str(exc)[:200]}",
                    key=f"{kind}:{where}:resume_raised:{type(exc).__name__}"))
            return
        d = X.diff_tables(t_full, tabs)
        if d:
            what = "experiment_record_lost" if d.startswith("experiment:") else "result_differs"
            add(vio(what, f"{kind} log cut at byte {n} ({where}): resumed Result differs from the uninterrupted one: {d}",
                    key=f"{kind}:{where}:{what}"))
        # no restored triple is evaluated again
        try:
            done = complete_records(prefix, is_gz)
        except Exception:
            done = []
        restored = {tuple(r[1]) if len(r[1]) == 3 else (*r[1], 0) for r in done if r and r[0] == "I"}
        evaluated = {(c[2], c[3], c[1]) for c in calls if c[0] == "val.evaluate"}
        for i, tid in enumerate(ids):
            if tid in restored:
                env, lrn, val = exp._triples[i]
                key = (getattr(env, "_c02_env", None), getattr(lrn, "_c02_lrn", None), getattr(val, "tag", None))
                if key in evaluated:
                    rec = next(r for r in done if r and r[0] == "I" and (tuple(r[1]) if len(r[1]) == 3 else (*r[1], 0)) == tid)
                    empty = not rec[2].get("_packed")
                    if empty:
                        add(vio("restored_triple_evaluated_again", f"{kind} log cut at byte {n} ({where}): triple {tid} is recorded in the file "
                                                                   f"(with zero rows) but was evaluated again", key="zero_row_record_evaluated_again"))
                    else:
                        add(vio("restored_triple_evaluated_again", f"{kind} log cut at byte {n} ({where}): triple {tid} is recorded in the file "
                                                                   f"but was evaluated again", key=f"{kind}:{where}:restored_triple_evaluated_again"))
                    break
        if os.path.exists(path + ".partial"):
            os.remove(path + ".partial")
        # the file after resumption
        try:
            recs = file_records(path)
        except Exception as e:
            add(vio("file_unusable_after_resume", f"{kind} log cut at byte {n} ({where}): after the resumed run the file cannot be read: "
                                                  f"{type(e).__name__}: {str(e)[:160]}", key=f"{kind}:{where}:file_unusable_after_resume:{type(e).__name__}"))
            return
        from collections import Counter
        cnt = Counter()
        for r in recs:
            if r[0] == "I":
                cnt[("I", tuple(r[1]) if len(r[1]) == 3 else (*r[1], 0))] += 1
            elif r[0] in ("E", "L", "V"):
                cnt[(r[0], r[1])] += 1
            else:
                cnt[(r[0],)] += 1
        zero_I = {(r[0], tuple(r[1]) if len(r[1]) == 3 else (*r[1], 0)) for r in recs if r[0] == "I" and not r[2].get("_packed")}
        dup = {k: v for k, v in cnt.items() if v > max(1, self._full_counts.get(k, 0)) and k not in zero_I}
        if dup:
            add(vio("recorded_twice", f"{kind} log cut at byte {n} ({where}): records written more than once after resumption: {dict(list(dup.items())[:4])}",
                    key=f"{kind}:{where}:recorded_twice:{sorted(set(k[0] for k in dup))}"))
        try:
            from coba.results import Result
            t_file = X.tables(Result.from_file(path))
            d2 = X.diff_tables(t_full, t_file)
            if d2 and not d:
                add(vio("from_file_differs", f"{kind} log cut at byte {n} ({where}): Result.from_file after resumption differs: {d2}",
                        key=f"{kind}:{where}:from_file_differs"))
        except Exception as e:
            add(vio("file_unusable_after_resume", f"{kind} log cut at byte {n} ({where}): Result.from_file after resumption raised "
                                                  f"{type(e).__name__}: {str(e)[:160]}", key=f"{kind}:{where}:from_file_after_resume:{type(e).__name__}"))
        # exceptions logged by the resumed run that the uninterrupted run did not log
        for item in log.items:
            s = str(item)
            if ("Unexpected exception" in s or "EXCEPTION" in s):
                last = s.strip().splitlines()[-1].strip().split(" -- ")[-1]
                if last not in full_log_text:
                    add(vio("resume_logged_exception", f"{kind} log cut at byte {n} ({where}): the resumed run logged: {last[:200]}",
                            key=f"{kind}:{where}:resume_logged_exception:{last.split(':')[0][:40]}"))
                    break
        # second generation: crash during the resumed run, resume again
        if cfg["second_gen"] and depth < 2 and (n % 5 == 0):
            data = open(path, "rb").read()
            if len(data) > len(prefix) + 2:
                import random
                r = random.Random(n ^ cfg["offset_seed"])
                m = r.randrange(len(prefix) + 1, len(data))
                p2 = path + ".2" + (".gz" if is_gz else "")
                with open(p2, "wb") as f:
                    f.write(data[:m])
                out["counters"]["fault.crash_again"] = out["counters"].get("fault.crash_again", 0) + 1
                w2 = self._where(data, m, is_gz)
                self._check_resume(cfg, spec, p2, data[:m], m, w2 + "(2nd)", is_gz, t_full, ids, full_log_text, seed, False, add, out, depth + 1)
                os.remove(p2)

    MUTATING_C_CALLS = frozenset(["unlink", "replace", "rename", "remove", "write", "writelines", "truncate", "sendfile", "copy_file_range",
                                  "_fastcopy_sendfile", "link", "symlink", "rmdir", "ftruncate"])

    def _kill_inside_repair(self, spec, path, n, cfg, seed, out):
        """Fork; the child resumes from ``path`` in-process and is killed (os._exit) right before its k-th C call made while
        Experiment._restore is running.  A dry run first counts those calls (T) and finds the first one that can change the disk (F);
        k is drawn from F..T by a PRNG seeded from the crash offset.  Returns True when a kill after F was delivered."""
        import random
        import sys as _sys
        import select

        def child(kill_at, wfd):
            try:
                from coba.experiments.core import Experiment
                orig = Experiment._restore
                muts = self.MUTATING_C_CALLS

                def wrapped(self_, *a, **k):
                    cnt = [0, 0]

                    def prof(frame, event, arg):
                        if event == "c_call":
                            cnt[0] += 1
                            if not cnt[1] and getattr(arg, "__name__", "") in muts:
                                cnt[1] = cnt[0]
                            if cnt[0] == kill_at:
                                os._exit(0)
                    _sys.setprofile(prof)
                    try:
                        return orig(self_, *a, **k)
                    finally:
                        _sys.setprofile(None)
                        if wfd is not None:
                            os.write(wfd, f"{cnt[0]} {cnt[1]}".encode())
                        os._exit(0)
                Experiment._restore = wrapped
                self.resume(spec, path, [1, 0, 0], seed, cfg["knobs"], False)
            except BaseException:
                pass
            finally:
                os._exit(0)

        def forked(kill_at, want_counts):
            rfd, wfd = os.pipe() if want_counts else (None, None)
            _sys.stdout.flush(); _sys.stderr.flush()
            pid = os.fork()
            if pid == 0:
                if rfd is not None:
                    os.close(rfd)
                child(kill_at, wfd)
            if wfd is not None:
                os.close(wfd)
            data = b""
            t_end = time.time() + 60
            while True:
                done, _ = os.waitpid(pid, os.WNOHANG)
                if done:
                    break
                if time.time() > t_end:
                    os.kill(pid, 9); os.waitpid(pid, 0)
                    out["counters"]["harness.kill_child_timeout"] = out["counters"].get("harness.kill_child_timeout", 0) + 1
                    break
                if rfd is not None and select.select([rfd], [], [], 0.005)[0]:
                    data += os.read(rfd, 64)
                elif rfd is None:
                    time.sleep(0.002)
            if rfd is not None:
                while select.select([rfd], [], [], 0)[0]:
                    b = os.read(rfd, 64)
                    if not b:
                        break
                    data += b
                os.close(rfd)
            return data

        # the dry run works on a copy so that the real file is still torn afterwards
        probe = path + ".probe" + (".gz" if path.endswith(".gz") else "")
        shutil.copyfile(path, probe)
        save_path = path
        try:
            path = probe
            data = forked(-1, True)
        finally:
            path = save_path
            for f in (probe, probe + ".partial"):
                if os.path.exists(f):
                    os.remove(f)
        try:
            T, F = map(int, data.split())
        except Exception:
            return False
        if not F or F > T:
            return False          # this resume does not touch the disk inside _restore
        k = random.Random(n * 104729 + cfg["offset_seed"]).randrange(F + 1, T + 2)     # killed before call k: F .. T have happened
        forked(k, False)
        out["counters"]["fault.resume_killed_inside_repair"] = out["counters"].get("fault.resume_killed_inside_repair", 0) + 1
        return True

    def extra_coverage(self, tier, agg):
        return {"exhaustive": False,
                "explanation": "crash offsets are enumerated exhaustively only for the logs counted in logs_enumerated_exhaustively (thorough tier); "
                               "experiments, schedules and resume configurations are sampled"}

    def shrink(self, cfg):
        from checks.c01 import shrink_spec_cfg
        for c in shrink_spec_cfg(cfg):
            yield c
        if cfg["second_gen"]:
            c = copy.deepcopy(cfg); c["second_gen"] = False; yield c
        if cfg["exhaustive"]:
            c = copy.deepcopy(cfg); c["exhaustive"] = False; yield c


def make():
    return C02()
