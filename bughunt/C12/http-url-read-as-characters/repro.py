"""
CsvSource / ArffSource / LibSvmSource / ManikSource accept a url string. For http(s) urls UrlSource builds
HttpSource(url) WITHOUT a chunk size, and HttpSource.read() then returns the whole body as ONE str.
The readers iterate over what they are given, so they iterate over the CHARACTERS of that str: every
character becomes a "line". The very same bytes read from disk parse fine.

No external network is used: the file is served by a throw-away http.server on 127.0.0.1.
"""
import os, sys, tempfile, threading, http.server, warnings
warnings.simplefilter("ignore")

from coba.environments import CsvSource, ArffSource, LibSvmSource

FILES = {
    "/t.csv"   : b"a,b,c\r\n1,2,3\r\n4,5,6\r\n",
    "/t.arff"  : b"@relation t\n@attribute a numeric\n@attribute b {x,y}\n@data\n1,x\n2,y\n",
    "/t.libsvm": b"0 1:1.5 2:2\n1 1:3\n",
}

class Handler(http.server.BaseHTTPRequestHandler):
    def do_GET(self):
        body = FILES[self.path]
        self.send_response(200)
        self.send_header("Content-Type", "text/plain; charset=utf-8")
        self.send_header("Content-Length", str(len(body)))
        self.end_headers()
        self.wfile.write(body)
    def log_message(self, *args): pass

server = http.server.HTTPServer(("127.0.0.1", 0), Handler)
threading.Thread(target=server.serve_forever, daemon=True).start()
base = f"http://127.0.0.1:{server.server_port}"
tmp  = tempfile.mkdtemp()

def plain(rows):
    out = []
    for r in rows:
        if isinstance(r, tuple): out.append((dict(r[0]), r[1]))
        else: out.append([str(v) for v in r])
    return out

failed = False
for path, make in [("/t.csv", lambda s: CsvSource(s, has_header=True)), ("/t.arff", ArffSource), ("/t.libsvm", LibSvmSource)]:
    disk = os.path.join(tmp, path[1:])
    with open(disk, "wb") as f: f.write(FILES[path])

    expected = plain(make(disk).read())
    try:
        actual = plain(make(base + path).read())
    except Exception as e:
        actual = f"{type(e).__name__}: {e}"

    same = expected == actual
    print(f"{path}: from disk -> {expected}")
    print(f"{' '*len(path)}  from http -> {str(actual)[:150]}{' ...' if len(str(actual))>150 else ''}")
    print(f"{' '*len(path)}  {'same' if same else 'DIFFERENT'}")
    failed |= not same

server.shutdown()

if failed:
    print("\nVIOLATION: the same bytes give a different table when they are delivered over http instead of from disk")
    sys.exit(1)
print("ok")
