"""
A gzip (or deflate) encoded http body that stops early is taken for the complete file.

HttpSource feeds the received bytes to zlib.decompressobj(...).decompress and never asks the decompressor whether the
compressed stream was complete (decompressobj.eof) - the CRC/length trailer of gzip is never looked at. When the
response is delimited by the connection closing (no Content-Length, no chunked transfer: HTTP/1.0 peers and proxies,
on-the-fly compression together with the 'Connection: close' that urllib always sends) a dropped connection can't be
seen on the http level either (the earlier fix looks at the remaining Content-Length only). The result: fewer rows
than were written and a last row that is cut in the middle, without any error. With OpenmlSource that truncated
text is what lands in the cache.

No external network is used: a raw socket server on 127.0.0.1 plays the web server that loses the connection.
"""
import sys, gzip, socket, threading, warnings
warnings.simplefilter("ignore")

from coba.pipes import HttpSource, ArffReader

N    = 3000
ARFF = "@relation t\n@attribute c {x,y}\n@attribute a numeric\n@attribute b numeric\n@data\n" + "".join(f"{'xy'[i%2]},{i},{(i*7919%10007)*123456789}\n" for i in range(N))
FULL = gzip.compress(ARFF.encode("utf-8"))
CUTS = [len(FULL)*p//100 for p in range(30,90,3)]

def serve(listener):
    while True:
        try: conn,_ = listener.accept()
        except OSError: return
        with conn:
            request = b""
            while b"\r\n\r\n" not in request: request += conn.recv(4096)
            path = request.split(b" ")[1]
            body = FULL if path == b"/full" else FULL[:int(path[5:])]
            conn.sendall(b"HTTP/1.1 200 OK\r\nContent-Type: text/plain; charset=utf-8\r\nContent-Encoding: gzip\r\nConnection: close\r\n\r\n")
            conn.sendall(body)
            #the connection is now closed: for /cut/<n> that is a connection lost after n bytes of the compressed stream

listener = socket.socket(); listener.bind(("127.0.0.1",0)); listener.listen(5)
threading.Thread(target=serve, args=(listener,), daemon=True).start()
base = f"http://127.0.0.1:{listener.getsockname()[1]}"

def read(url, chunk_size):
    """returns (lines, parsed rows, error)"""
    try:
        lines = HttpSource(url, chunk_size=chunk_size).read()
        lines = lines.splitlines() if isinstance(lines,str) else list(lines)
    except Exception as e:
        return None, None, f"HttpSource raised {type(e).__name__}: {e}"
    try:
        return lines, [list(r) for r in ArffReader().filter(lines)], None
    except Exception as e:
        return lines, None, f"ArffReader raised {type(e).__name__}: {e}"

written_lines = ARFF.splitlines()
written_rows  = [list(r) for r in ArffReader().filter(written_lines)]

failed = False
for chunk_size in [1024, 10*1024*1024, None]:
    print(f"chunk_size={chunk_size}")
    lines, rows, error = read(base+"/full", chunk_size)
    print(f"  complete body            : {len(lines)} lines, {len(rows)} rows, identical to what was written: {rows == written_rows}")

    n_http_silent, n_table_silent, example = 0, 0, None
    for cut in CUTS:
        lines, rows, error = read(f"{base}/cut/{cut}", chunk_size)
        if lines is not None: n_http_silent += 1
        if rows  is not None:
            n_table_silent += 1
            example = example or (cut,lines,rows)
    print(f"  body cut at {len(CUTS)} places   : HttpSource raised nothing for {n_http_silent} of them; the truncated text even parsed as a (shorter) table for {n_table_silent} of them")
    if example:
        cut,lines,rows = example
        print(f"    e.g. {cut} of {len(FULL)} bytes : {len(rows)} rows instead of {N}, no error, last row = {rows[-1]} (written: {written_rows[len(rows)-1]})")
    if n_http_silent: failed = True

listener.close()
if failed:
    print("\nVIOLATION: a compressed download that was cut off is silently accepted as the whole file")
    sys.exit(1)
print("ok")
