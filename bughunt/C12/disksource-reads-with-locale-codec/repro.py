"""
DiskSink always writes UTF-8 ((line+'\\n').encode('utf-8')), DiskSource reads with open(path,'rt+') / gzip.open(path,'rt+')
WITHOUT an encoding, i.e. with whatever the locale says. Wherever the locale codec is not UTF-8 (Windows before
Python 3.15: cp1252 & co; Linux with a legacy or plain C/POSIX locale) a non-ASCII line written with DiskSink is not
read back identically by DiskSource: with a one-byte codec (cp1252, latin-1) 'caf\\xe9' silently comes back as 'caf\\xc3\\xa9' (mojibake),
with ASCII the read raises UnicodeDecodeError. The same happens to any UTF-8 dataset file (what Weka/OpenML write)
that is opened through DiskSource / UrlSource / CsvSource(path) / ArffSource(path).

Only the C, C.utf8 and POSIX locales exist on this machine so the child process below is started with the C locale
(and the two switches that stop CPython from quietly replacing the C locale with UTF-8): locale codec = ASCII.
"""
import os, sys, subprocess, tempfile

CHILD = r'''
import os, sys, locale, warnings
warnings.simplefilter("ignore")
from coba.pipes import DiskSink, DiskSource
from coba.environments import CsvSource

print("  locale codec:", locale.getencoding(), "| utf8 mode:", sys.flags.utf8_mode)
lines = ["name,city,label", "Zo\xeb,Malm\xf6,A", "Ren\xe9e,Krak\xf3w,B", "\u4f50\u85e4,\u6771\u4eac,A"]
bad = False
for name in ["t.csv","t.csv.gz"]:
    path = os.path.join(sys.argv[1], name)
    if os.path.exists(path): os.remove(path)
    DiskSink(path).write(lines)
    try:
        back = list(DiskSource(path).read())
        print(f"  {name}: read back {'identically' if back==lines else 'DIFFERENTLY: '+ascii(back)}")
        bad |= back != lines
        rows = [list(r) for r in CsvSource(path,has_header=True).read()]
        print(f"  {name}: CsvSource ->", ascii(rows))
    except Exception as e:
        print(f"  {name}: DiskSource raised {type(e).__name__}: {e}")
        bad = True
sys.exit(1 if bad else 0)
'''

tmp = tempfile.mkdtemp()
child = os.path.join(tmp,"child.py")
with open(child,"w",encoding="ascii") as f: f.write(CHILD)
env = {k:v for k,v in os.environ.items() if not k.startswith("LC_") and k not in ("LANG","LANGUAGE","PYTHONUTF8","PYTHONCOERCECLOCALE","PYTHONIOENCODING")}

print("control: UTF-8 locale")
ok  = subprocess.run([sys.executable,child,tmp], env={**env,"LC_ALL":"C.utf8"}, timeout=60).returncode
print("non UTF-8 locale (LC_ALL=C PYTHONCOERCECLOCALE=0 PYTHONUTF8=0)")
bad = subprocess.run([sys.executable,child,tmp], env={**env,"LC_ALL":"C","PYTHONCOERCECLOCALE":"0","PYTHONUTF8":"0"}, timeout=60).returncode

if ok == 0 and bad != 0:
    print("\nVIOLATION: what DiskSink wrote (UTF-8) is not read back by DiskSource when the locale codec is not UTF-8")
    sys.exit(1)
if ok != 0:
    print("\nunexpected: the control run failed as well")
    sys.exit(2)
print("ok")
