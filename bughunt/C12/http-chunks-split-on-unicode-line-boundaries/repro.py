"""
The chunked http path (HttpSource(url, chunk_size=n) -> DelimSource, the path every OpenML download takes) cuts the
text into lines with str.splitlines. str.splitlines does not only break at \n, \r\n and \r but also at
\x0b \x0c \x1c \x1d \x1e \x85 \u2028 \u2029. DiskSource (and the DiskCacher) use Python's universal newlines which
only know \n, \r\n and \r. A value that holds one of these characters (form feed, NEL = what a cp1252 ellipsis
becomes when it was decoded as latin-1, U+2028 from scraped web text, ...) is therefore one line from disk but two
lines over http: the table that is parsed depends on how the bytes were delivered.

No external network is used: the file is served by a throw-away http.server on 127.0.0.1.
"""
import os, sys, tempfile, threading, http.server, warnings
warnings.simplefilter("ignore")

from coba.pipes import HttpSource, DiskSource, CsvReader, ArffReader
from coba.environments import CsvSource, ArffSource

CSV  = 'id,text,label\r\n1,"wait\x85 what",A\r\n2,page one\x0cpage two,B\r\n3,"first\u2028second",A\r\n'
ARFF = "@relation t\n@attribute id numeric\n@attribute text string\n@attribute y {A,B}\n@data\n1,'first\u2028second',A\n2,'x',B\n"
FILES = {"/t.csv": CSV.encode("utf-8"), "/t.arff": ARFF.encode("utf-8")}

class Handler(http.server.BaseHTTPRequestHandler):
    def do_GET(self):
        body = FILES[self.path]
        self.send_response(200)
        self.send_header("Content-Type", "text/plain; charset=utf-8")
        self.send_header("Content-Length", str(len(body)))
        self.end_headers()
        self.wfile.write(body)
    def log_message(self, *args): pass

server = http.server.HTTPServer(("127.0.0.1", 0), Handler)
threading.Thread(target=server.serve_forever, daemon=True).start()
base = f"http://127.0.0.1:{server.server_port}"
tmp  = tempfile.mkdtemp()
for name,body in FILES.items():
    with open(os.path.join(tmp,name[1:]),"wb") as f: f.write(body)

failed = False

print("--- lines")
disk_lines = list(DiskSource(os.path.join(tmp,"t.csv")).read())
for size in [1, 7, 10*1024*1024]:
    http_lines = list(HttpSource(base+"/t.csv", chunk_size=size).read())
    same = http_lines == disk_lines
    failed |= not same
    print(f"chunk_size={size}: {len(http_lines)} lines over http, {len(disk_lines)} lines from disk -> {'same' if same else 'DIFFERENT'}")
print("disk:", disk_lines)
print("http:", http_lines)

print("--- csv rows")
disk_rows = [list(r) for r in CsvSource(os.path.join(tmp,"t.csv"), has_header=True).read()]
http_rows = [list(r) for r in CsvSource(HttpSource(base+"/t.csv", chunk_size=10*1024*1024), has_header=True).read()]
print("disk:", disk_rows)
print("http:", http_rows)
if disk_rows != http_rows:
    failed = True
    print("DIFFERENT (and no error was raised)")

print("--- arff rows")
def arff_rows(source):
    try:
        return [list(r) for r in ArffSource(source).read()]
    except Exception as e:
        return f"{type(e).__name__}: {e}"
disk_rows = arff_rows(os.path.join(tmp,"t.arff"))
http_rows = arff_rows(HttpSource(base+"/t.arff", chunk_size=10*1024*1024))
print("disk:", disk_rows)
print("http:", http_rows)
if disk_rows != http_rows:
    failed = True
    print("DIFFERENT")

server.shutdown()

if failed:
    print("\nVIOLATION: over http (chunked) the text is also split at \\x0b \\x0c \\x1c-\\x1e \\x85 \\u2028 \\u2029, from disk it is not")
    sys.exit(1)
print("ok")
