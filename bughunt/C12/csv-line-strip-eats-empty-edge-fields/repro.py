"""
CsvReader strips every line (str.strip()) before it hands it to csv.reader. White space at the two ends of a line is
not line-terminator noise, it belongs to the first / last field:
 - tab separated files written by an RFC-4180 style writer (csv.writer(delimiter='\\t'), pandas to_csv(sep='\\t')):
   a row whose FIRST or LAST value is empty (a missing value) starts / ends with the delimiter itself. strip() removes
   it, the row silently has one column less and - for a leading one - all its values move one column to the left.
 - comma separated files: leading blanks of the first and trailing blanks of the last field vanish (RFC 4180: "Spaces
   are considered part of a field and should not be ignored") while the same blanks in middle fields are kept.
The file is written with Python's csv.writer and read back through DiskSource.
"""
import os, sys, csv, tempfile, warnings
warnings.simplefilter("ignore")
from coba.environments import CsvSource

tmp = tempfile.mkdtemp()
failed = False

def roundtrip(name, table, **dialect):
    global failed
    path = os.path.join(tmp, name)
    with open(path, "w", newline="", encoding="utf-8") as f:
        csv.writer(f, **dialect).writerows(table)
    with open(path, newline="", encoding="utf-8") as f:
        reference = list(csv.reader(f, **dialect))[1:]
    rows = [list(r) for r in CsvSource(path, has_header=True, **dialect).read()]
    print(f"{name}: written {table[1:]}")
    print(f"{' '*len(name)}  csv.reader {reference}")
    print(f"{' '*len(name)}  coba       {rows}")
    if rows != table[1:]:
        failed = True
        print(f"{' '*len(name)}  DIFFERENT, no error")

roundtrip("t.tsv", [["id","x","note"], ["","1.5","ok"], ["2","2.5",""], ["3","3.5","fine"]], delimiter="\t")
roundtrip("t.csv", [["id","x","note"], [" a","1.5"," ok "], ["b"," 2.5 ","ok "]])

if failed:
    print("\nVIOLATION: values at the start/end of a line are changed or dropped by the line strip")
    sys.exit(1)
print("ok")
