"""
A UTF-8 file that starts with a byte order mark (what Excel's "CSV UTF-8", PowerShell's Out-File/Export-Csv,
pandas' to_csv(encoding='utf-8-sig') and Windows Notepad write) keeps the U+FEFF as part of the first cell:
 - csv : the first column is called '\\ufeffid' instead of 'id'  (row['id'] -> KeyError, label_col='id' fails)
 - libsvm: the label of the first example is '\\ufeff1' instead of '1' -> the environment has one more action
 - arff: an '@attribute' on the first line is silently skipped (one column is lost, the data lines then don't fit)
The BOM is not content, it is a property of how the text was encoded (charset delivery). Both DiskSource and the
http path keep it.

No external network is used: the http part is served by a throw-away http.server on 127.0.0.1.
"""
import os, sys, tempfile, threading, http.server, warnings, codecs
warnings.simplefilter("ignore")

from coba.pipes import HttpSource
from coba.environments import CsvSource, ArffSource, LibSvmSource, SupervisedSimulation

CSV    = "id,name,label\r\n1,café,A\r\n2,thé,B\r\n"
LIBSVM = "1 1:0.5\n2 1:0.7\n1 2:0.1\n"
ARFF   = "@attribute a numeric\n@attribute b {x,y}\n@data\n1,x\n2,y\n"

tmp = tempfile.mkdtemp()
def write(name, text, bom):
    path = os.path.join(tmp, name)
    with open(path, "wb") as f: f.write((codecs.BOM_UTF8 if bom else b"") + text.encode("utf-8"))
    return path

class Handler(http.server.BaseHTTPRequestHandler):
    def do_GET(self):
        body = codecs.BOM_UTF8 + CSV.encode("utf-8")
        self.send_response(200)
        self.send_header("Content-Type", "text/csv; charset=utf-8")
        self.send_header("Content-Length", str(len(body)))
        self.end_headers()
        self.wfile.write(body)
    def log_message(self, *args): pass
server = http.server.HTTPServer(("127.0.0.1", 0), Handler)
threading.Thread(target=server.serve_forever, daemon=True).start()

failed = False

print("--- csv (RFC 4180, written the way Excel 'CSV UTF-8' writes it)")
plain = next(iter(CsvSource(write("plain.csv",CSV,False), has_header=True).read()))
bom   = next(iter(CsvSource(write("bom.csv"  ,CSV,True ), has_header=True).read()))
http  = next(iter(CsvSource(HttpSource(f"http://127.0.0.1:{server.server_port}/bom.csv", chunk_size=1024), has_header=True).read()))
print("headers without BOM     :", list(plain.headers))
print("headers with BOM (disk) :", list(bom.headers))
print("headers with BOM (http) :", list(http.headers))
if list(bom.headers) != list(plain.headers) or list(http.headers) != list(plain.headers): failed = True
try:
    print("row['id'] ->", bom['id'])
except Exception as e:
    print("row['id'] ->", type(e).__name__, e)

print("--- libsvm")
def actions(path):
    return next(iter(SupervisedSimulation(LibSvmSource(path)).read()))['actions']
a_plain = actions(write("plain.libsvm",LIBSVM,False))
a_bom   = actions(write("bom.libsvm"  ,LIBSVM,True ))
print("actions without BOM:", a_plain)
print("actions with BOM   :", a_bom)
if a_plain != a_bom: failed = True

print("--- arff whose first line is an @attribute")
def arff(path):
    try: return [list(r) for r in ArffSource(path).read()]
    except Exception as e: return f"{type(e).__name__}: {e}"
r_plain = arff(write("plain.arff",ARFF,False))
r_bom   = arff(write("bom.arff"  ,ARFF,True ))
print("without BOM:", r_plain)
print("with BOM   :", r_bom)
if r_plain != r_bom: failed = True

server.shutdown()
if failed:
    print("\nVIOLATION: a UTF-8 byte order mark ends up inside the first header / label / keyword")
    sys.exit(1)
print("ok")
