"""
A CSV table with zero rows (an empty file, a file of blank lines, or -- without has_header -- nothing at all) is not read as the
empty table: CsvReader.filter does `first = next(lines)` outside of any generator, so a bare StopIteration escapes from
CsvSource.read(). ArffSource, LibSvmSource and ManikSource return an empty table for the same file.

A StopIteration that escapes from an ordinary call is worse than an error message:
  * inside a generator (SupervisedSimulation.read, every Environment filter) it is turned into
    `RuntimeError: generator raised StopIteration`, which says nothing about the file,
  * inside anything that is driven by next() (map, zip, itertools...) it is taken for the regular end of the iteration:
    the loop over several data sets below silently stops at the empty one and the data set after it is never read.
"""
import os, sys, tempfile

from coba.environments import Environments, CsvSource, ArffSource, LibSvmSource, ManikSource

d = tempfile.mkdtemp()
empty = os.path.join(d,"empty.csv");  open(empty,"w").close()
blank = os.path.join(d,"blank.csv");  open(blank,"w").write("\n\n\r\n")
full  = os.path.join(d,"full.csv" );  open(full ,"w").write("1,2,a\n3,4,b\n")

problems = []

for name,make in [("CsvSource(empty)"          , lambda: CsvSource(empty)),
                  ("CsvSource(blank lines)"    , lambda: CsvSource(blank)),
                  ("CsvSource(empty,has_header)",lambda: CsvSource(empty,has_header=True)),
                  ("ArffSource(empty)"         , lambda: ArffSource(empty)),
                  ("LibSvmSource(empty)"       , lambda: LibSvmSource(empty)),
                  ("ManikSource(empty)"        , lambda: ManikSource(empty))]:
    try:
        print(f"{name:<28} -> {list(make().read())}")
    except BaseException as e:
        print(f"{name:<28} -> raised {type(e).__name__}({e})")
        problems.append(name)

try:
    env = Environments.from_supervised(CsvSource(empty), label_col=2, label_type='c')[0]
    print(f"{'from_supervised(empty csv)':<28} -> {list(env.read())}")
except BaseException as e:
    print(f"{'from_supervised(empty csv)':<28} -> raised {type(e).__name__}({e})")
    problems.append("from_supervised")

#the silent variant: three data sets are read one after the other, the second one happens to be empty
tables = list(map(lambda src: [list(r) for r in src.read()], [CsvSource(full), CsvSource(empty), CsvSource(full)]))
print(f"\nreading [full, empty, full] with map() gave {len(tables)} table(s): {tables}")
if len(tables) != 3:
    problems.append("map")
    print("  -> the empty file ended the loop without any error, the third data set was never read")

if problems:
    print(f"\nVIOLATION: an empty CSV table is neither parsed (as the empty table) nor rejected with an error: {problems}")
    sys.exit(1)

print("OK")
sys.exit(0)
