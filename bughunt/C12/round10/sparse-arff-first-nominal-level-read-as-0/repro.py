"""
Sparse ARFF as written by Weka / served by OpenML: a nominal value that is the FIRST declared level is not what coba reads.

In the sparse ARFF format a value is left out of a row when its internal value is 0. For a numeric attribute that is the
number 0, for a nominal attribute it is the level with index 0, i.e. the first level in the declaration (this is what
weka.core.SparseInstance.toString / ArffSaver write and what weka's ArffLoader reads back; see the 'Sparse ARFF files'
section of the ARFF specification: "{1 X, 3 Y, 4 "class A"}" / omitted == value 0 == first label).

coba does not map an omitted nominal value to the first declared level. ArffAttrReader._encoder puts an invented level "0"
in front of the declared levels of every nominal attribute of a sparse file and LazySparse reports an omitted nominal value
as that "0". So
  * every row whose class is the first declared class gets the label '0', a label that does not exist in the file,
  * the attribute has one level more than declared (n_actions of the simulation is 3 for a 2 class problem),
  * for a declaration such as {1,0} (omitted == 1) the omitted rows are read as '0': the two classes are merged.
"""
import os, sys, tempfile

from coba.environments import Environments, ArffSource
from coba.pipes import DiskSink

def weka_sparse(levels, rows):
    """rows are (x0, x1, label) -- written the way weka.core.SparseInstance does: internal value 0 is left out."""
    lines = ["@relation sparse", "@attribute x0 numeric", "@attribute x1 numeric", "@attribute class {"+",".join(levels)+"}", "@data"]
    for x0,x1,lbl in rows:
        ents = []
        if x0 != 0: ents.append(f"0 {x0}")
        if x1 != 0: ents.append(f"1 {x1}")
        if levels.index(lbl) != 0: ents.append(f"2 {lbl}")
        lines.append("{"+",".join(ents)+"}")
    return lines

d      = tempfile.mkdtemp()
failed = False

for levels in (["neg","pos"], ["1","0"], ["-1","1"]):
    a,b  = levels
    rows = [(1,0,a),(0,2,b),(3,4,a),(0,0,b),(5,0,a)]
    path = os.path.join(d, f"sparse_{'_'.join(levels)}.arff")
    DiskSink(path).write(weka_sparse(levels,rows))

    print(f"--- @attribute class {{{a},{b}}}")
    for l in list(open(path))[5:]: print("      "+l.rstrip())

    parsed      = list(ArffSource(path).read())
    got_labels  = [ str(r['class']) for r in parsed ]
    got_levels  = list(parsed[0]['class'].levels)
    want_labels = [ r[2] for r in rows ]

    env = Environments.from_supervised(ArffSource(path), label_col='class', label_type='c')[0]
    interactions = list(env.read())
    n_actions    = len(interactions[0]['actions'])

    print("  labels written :", want_labels, " levels written :", levels)
    print("  labels read    :", got_labels , " levels read    :", got_levels, f" -> simulation has {n_actions} actions")

    if got_labels != want_labels or got_levels != levels or n_actions != len(levels):
        failed = True

if failed:
    print("\nVIOLATION: labels / categorical levels of a Weka sparse ARFF file are not read as written")
    sys.exit(1)

print("OK")
sys.exit(0)
