"""
The value coba reports for a row of a dense ARFF file depends on WHICH OTHER ROWS WERE LOOKED AT BEFORE IT.

ArffReader hands out lazy rows (LazyDense) that all share one ArffLineReader. That line reader is a state machine: it
starts with a csv.reader based parser and switches -- for good -- to a hand written fallback parser (_dense_advanced) as
soon as it has seen a line that contains both ' and ". The two parsers do not treat a backslash the same way (the csv
one honours the escape, the fallback deletes every backslash). Because the rows are parsed lazily, on first access, the
parser that is used for a given line is decided by the order in which the *consumer* touches the rows, not by the file.

The file below is exactly what Weka's ArffSaver writes for the three string values  a\b , say "hi" , c\d
(Weka escapes \ as \\ and " as \" and wraps such values in single quotes).

Reading the rows in file order gives a\b for row 0. Reading the very same file but touching row 1 first (which is what
`take=` (a Reservoir in front of the label access), a Shuffle/Sort joined to the source, or any consumer that looks at
the rows out of order does) gives ab -- and c\\d instead of cd for row 2.
"""
import os, sys, tempfile

from coba.environments import Environments, ArffSource
from coba.pipes import DiskSink, Pipes, Shuffle

ARFF = [
    "@relation weka_written",
    "@attribute id numeric",
    "@attribute txt string",
    "@attribute y {n,p}",
    "@data",
    r"0,'a\\b',n",          # the value  a\b
    r"1,'say \"hi\"',p",    # the value  say "hi"
    r"2,'c\\d',n",          # the value  c\d
]
WRITTEN = {0.0: "a\\b", 1.0: 'say "hi"', 2.0: "c\\d"}

path = os.path.join(tempfile.mkdtemp(), "weka.arff")
DiskSink(path).write(ARFF)

def table(rows):
    return { r['id']: r['txt'] for r in rows }

#1) plain ArffSource, two access orders over the very same parsed file
rows     = list(ArffSource(path).read())
in_order = table(rows)
rows     = list(ArffSource(path).read())
reverse  = table(reversed(rows))

print("written in the file :", WRITTEN)
print("rows read in order  :", in_order)
print("rows read backwards :", reverse)

#2) the same through the public Environments API. `take=3` asks for all three rows of the file (in a random order):
#   the only thing that differs from the run without `take` is the order in which the lazy rows are first touched.
def contexts(env):
    return { i['context'][0]: i['context'][1] for i in env.read() }

by_cfg = {}
for take in [None,3]:
    env = Environments.from_supervised(ArffSource(path), label_col='y', label_type='c', take=take)[0]
    by_cfg[f"take={take}"] = contexts(env)
for seed in [1,2,3,4]:
    env = Environments.from_supervised(Pipes.join(ArffSource(path), Shuffle(seed)), label_col='y', label_type='c')[0]
    by_cfg[f"Shuffle({seed})"] = contexts(env)
for k,v in by_cfg.items():
    print(f"from_supervised {k:<11}:", dict(sorted(v.items())))

distinct = { tuple(sorted(t.items())) for t in list(by_cfg.values())+[in_order,reverse] }

if len(distinct) > 1:
    print(f"\nVIOLATION: the same file gave {len(distinct)} different tables depending only on the order the rows were accessed in.")
    sys.exit(1)

if in_order != WRITTEN:
    print("\n(the table is the same for every order but it is not what was written -- a different, already known, problem)")

print("OK: the parsed table does not depend on the access order")
sys.exit(0)
