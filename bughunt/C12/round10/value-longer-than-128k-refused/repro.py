"""
A CSV or dense ARFF file in which one value is longer than 131072 characters is refused.

CsvReader and the dense ARFF line parser hand every line to Python's csv module, which has a process wide
csv.field_size_limit() of 131072 characters by default. A perfectly well formed file (written here by csv.writer, i.e. RFC-4180,
and in the Weka dialect for ARFF) that holds one long text value -- a document, a base64 blob, a long sequence -- makes the read
fail with `_csv.Error: field larger than field limit (131072)`. The statement says such files are always accepted.
(With OpenmlSource the _csv.Error is not a CobaException, so on top of that the cached download is thrown away on every attempt.)
"""
import csv, os, sys, tempfile

from coba.environments import CsvSource, ArffSource

d   = tempfile.mkdtemp()
bad = []

for n in [131072, 131073, 500000]:
    doc   = "x"*n
    table = [["1", doc, "a"], ["2", "short", "b"]]

    #RFC-4180 csv as written by csv.writer
    p_csv = os.path.join(d, f"t{n}.csv")
    with open(p_csv, "w", newline='', encoding='utf-8') as f:
        csv.writer(f).writerows(table)

    #dense arff as written by weka (a value without special characters is written bare)
    p_arff = os.path.join(d, f"t{n}.arff")
    with open(p_arff, "w", encoding='utf-8') as f:
        f.write("@relation r\n\n@attribute id numeric\n@attribute doc string\n@attribute y {a,b}\n\n@data\n")
        f.writelines(",".join(r)+"\n" for r in table)

    for name, read, expected in [
        ("CsvSource ", lambda: [list(r) for r in CsvSource(p_csv).read()], table),
        ("ArffSource", lambda: [list(map(str,[int(r[0]),r[1],r[2]])) for r in ArffSource(p_arff).read()], table) ]:
        try:
            got = read()
            ok  = got == expected
            print(f"{name} longest value {n:>6} chars: "+("read back identically" if ok else "MISREAD"))
            if not ok: bad.append((name,n,"misread"))
        except Exception as e:
            print(f"{name} longest value {n:>6} chars: REFUSED with {type(e).__module__}.{type(e).__name__}: {e}")
            bad.append((name,n,repr(e)))

if bad:
    print(f"\nVIOLATION: {len(bad)} well formed files were not accepted")
    sys.exit(1)

print("OK")
sys.exit(0)
