"""
The feature part of a labelled dense row (what SupervisedSimulation / OpenmlSimulation hand out as 'context') does not say what
the file says once it is addressed by anything but a non negative position:

 1. label in the LAST column (the usual layout of ARFF / CSV data sets): context[-1] is the LABEL of the row, context[-2] is the
    last feature. len(context) and list(context) say the row has no such element.
 2. label in the FIRST column: the context still advertises the column names of the file through context.headers
    ({'y':0,'a':1,'b':2,'c':3}), but its positions are shifted by one, so context[context.headers['a']] is the value of column b,
    ..., and the last name raises IndexError. Addressing by name directly (context['a']), which works for the row the context was
    cut from, raises TypeError.

Root cause for all of it: DropOne.__getitem__ only does `if key >= ind: key += 1` and DropOne forwards every other attribute
(headers) to the row it wraps.

Who sees it: everything that looks at the interactions of a SupervisedSimulation/OpenmlSimulation before Environments' closing
Finalize step has turned the context into a plain list, i.e. SupervisedSimulation(...).read() used directly, LabelRows rows
(row.feats / row.labeled) and every EnvironmentFilter joined with Environments.filter(...) (shown at the end).
"""
import os, sys, tempfile

from coba.environments import Environments, SupervisedSimulation, ArffSource, CsvSource
from coba.pipes import DiskSink

d = tempfile.mkdtemp()
problems = []

# 1 --- label last ------------------------------------------------------------------------------------------------------
arff = os.path.join(d,"last.arff")
DiskSink(arff).write(["@relation r","@attribute a numeric","@attribute b numeric","@attribute y {n,p}","@data","1,2,p","3,4,n"])
csvf = os.path.join(d,"last.csv")
DiskSink(csvf).write(["a,b,y","1,2,p","3,4,n"])

for name,src in [("arff",ArffSource(arff)), ("csv ",CsvSource(csvf,has_header=True))]:
    first = next(iter(SupervisedSimulation(src, label_col='y', label_type='c').read()))
    ctx   = first['context']
    as_list = list(ctx)
    print(f"[{name}] label last : list(context)={as_list} len={len(ctx)}  context[-1]={ctx[-1]!r}  context[-2]={ctx[-2]!r}")
    if ctx[-1] != as_list[-1]:
        problems.append(f"{name}: context[-1] is {ctx[-1]!r} (the label), the last feature is {as_list[-1]!r}")

# 2 --- label first -----------------------------------------------------------------------------------------------------
arff = os.path.join(d,"first.arff")
DiskSink(arff).write(["@relation r","@attribute y {n,p}","@attribute a numeric","@attribute b numeric","@attribute c numeric","@data","p,1,2,3","n,4,5,6"])
written = {'a':1.0,'b':2.0,'c':3.0}

first = next(iter(SupervisedSimulation(ArffSource(arff), label_col='y', label_type='c').read()))
ctx   = first['context']
print(f"[arff] label first: list(context)={list(ctx)} context.headers={dict(ctx.headers)}")
for col,val in written.items():
    try:
        got = ctx[ctx.headers[col]]
    except Exception as e:
        got = f"{type(e).__name__}"
    try:
        by_name = ctx[col]
    except Exception as e:
        by_name = f"{type(e).__name__}"
    print(f"        column {col}: written {val}   context[context.headers[{col!r}]] -> {got}   context[{col!r}] -> {by_name}")
    if got != val:
        problems.append(f"column {col} addressed through context.headers gives {got}, the file says {val}")

# 3 --- the same object is what a user written filter gets through the Environments API ---------------------------------------
class LastFeature:
    """an EnvironmentFilter that keeps only the last feature of every context"""
    params = {}
    def filter(self, interactions):
        for i in interactions:
            yield {**i, 'context': [i['context'][-1]]}

arff = os.path.join(d,"last.arff")
env  = Environments.from_supervised(ArffSource(arff), label_col='y', label_type='c').filter(LastFeature())[0]
seen = [ i['context'] for i in env.read() ]
print(f"[arff] Environments...filter(LastFeature): contexts {seen} (last features written in the file: [2.0] and [4.0])")
if seen != [[2.0],[4.0]]:
    problems.append(f"a filter taking context[-1] got the (one-hot encoded) label {seen} instead of the last feature")

if problems:
    print("\nVIOLATION:")
    for p in problems: print("  - "+p)
    sys.exit(1)

print("OK")
sys.exit(0)
