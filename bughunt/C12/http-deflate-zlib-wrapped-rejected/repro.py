"""
HttpSource asks every server for 'Accept-Encoding: gzip, deflate'. RFC 9110 (and 7230/2616 before it) define the
"deflate" content coding as the ZLIB format (RFC 1950: two header bytes + deflate data + adler32). HttpSource
decompresses it with zlib.decompressobj(-zlib.MAX_WBITS), i.e. as a RAW deflate stream (RFC 1951), which is the
non-conforming variant some old servers sent. A server that answers with standard deflate is therefore rejected
with "zlib.error: Error -3 while decompressing data: invalid stored block lengths" although identity, gzip and raw
deflate deliveries of the very same file work.

No external network is used: the file is served by a throw-away http.server on 127.0.0.1.
"""
import sys, gzip, zlib, threading, http.server, warnings
warnings.simplefilter("ignore")

from coba.pipes import HttpSource, ArffReader

ARFF = "@relation t\n@attribute a numeric\n@attribute b {x,y}\n@data\n" + "".join(f"{i},{'xy'[i%2]}\n" for i in range(500))
RAW  = ARFF.encode("utf-8")

def raw_deflate(b):
    c = zlib.compressobj(wbits=-zlib.MAX_WBITS)
    return c.compress(b)+c.flush()

BODIES = {
    "/identity"    : (None     , RAW),
    "/gzip"        : ("gzip"   , gzip.compress(RAW)),
    "/deflate-raw" : ("deflate", raw_deflate(RAW)),      #RFC 1951 only, not what the http RFCs call deflate
    "/deflate-zlib": ("deflate", zlib.compress(RAW)),    #RFC 1950 = "deflate" as defined by RFC 9110 8.4.1.2
}

class Handler(http.server.BaseHTTPRequestHandler):
    def do_GET(self):
        assert "deflate" in self.headers.get("Accept-Encoding","") #coba asked for it
        encoding, body = BODIES[self.path]
        self.send_response(200)
        self.send_header("Content-Type", "text/plain; charset=utf-8")
        if encoding: self.send_header("Content-Encoding", encoding)
        self.send_header("Content-Length", str(len(body)))
        self.end_headers()
        self.wfile.write(body)
    def log_message(self, *args): pass

server = http.server.HTTPServer(("127.0.0.1", 0), Handler)
threading.Thread(target=server.serve_forever, daemon=True).start()
base = f"http://127.0.0.1:{server.server_port}"

expected = [list(r) for r in ArffReader().filter(ARFF.splitlines())]
failed = False
for path in BODIES:
    for chunk_size in [None, 64, 10*1024*1024]:
        try:
            lines = HttpSource(base+path, chunk_size=chunk_size).read()
            lines = lines.splitlines() if isinstance(lines,str) else list(lines)
            rows  = [list(r) for r in ArffReader().filter(lines)]
            result = "same table" if rows == expected else f"DIFFERENT table ({len(rows)} rows)"
            failed |= rows != expected
        except Exception as e:
            result = f"REJECTED {type(e).__module__}.{type(e).__name__}: {e}"
            failed = True
        print(f"{path:14} chunk_size={str(chunk_size):9} -> {result}")

server.shutdown()
if failed:
    print("\nVIOLATION: the standard (zlib wrapped) form of 'Content-Encoding: deflate', which coba itself requests, can't be read")
    sys.exit(1)
print("ok")
