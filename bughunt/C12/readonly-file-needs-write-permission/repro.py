"""
DiskSource opens every file with mode 'rt+' (read AND write) although it only ever reads. A dataset file the user may
read but not write (mode 0444 / owned by somebody else, a read-only bind mount or network share, a package/Nix store,
a Perforce checkout, ...) can therefore not be loaded: CsvSource(path) / ArffSource(path) / LibSvmSource(path) raise
PermissionError (OSError 'Read-only file system' on a ro mount) while open(path).read() works. The .gz branch is the
same (gzip.open(path,'rt+') -> open(path,'r+b')).

root ignores file modes, so when run as root the check is done in a forked child that has dropped to uid 65534.
"""
import os, sys, gzip, tempfile, warnings
warnings.simplefilter("ignore")

from coba.environments import CsvSource, ArffSource
import encodings.utf_8, encodings.ascii, encodings.latin_1 #loaded now, the unprivileged child may not be able to import

tmp = tempfile.mkdtemp(dir="/tmp"); os.chmod(tmp, 0o755)
csv_path  = os.path.join(tmp, "readonly.csv")
arff_path = os.path.join(tmp, "readonly.arff.gz")
with open(csv_path,"w") as f: f.write("a,b\r\n1,2\r\n")
with gzip.open(arff_path,"wt") as f: f.write("@relation r\n@attribute a numeric\n@attribute b {x,y}\n@data\n1,x\n")
os.chmod(csv_path, 0o444); os.chmod(arff_path, 0o444)

def check() -> int:
    failed = 0
    for path, make, plain_open in [(csv_path, lambda p: CsvSource(p,has_header=True), open), (arff_path, ArffSource, lambda p: gzip.open(p,"rt"))]:
        with plain_open(path) as f: text = f.read()
        print(f"{os.path.basename(path)}: readable by uid {os.getuid()}: {text.splitlines()[:2]} ...")
        try:
            print("   coba ->", [list(r) for r in make(path).read()])
        except OSError as e:
            print(f"   coba -> {type(e).__name__}: {e}")
            failed = 1
    return failed

if os.getuid() == 0:
    pid = os.fork()
    if pid == 0:
        code = 2
        try:
            os.setgroups([]); os.setgid(65534); os.setuid(65534)
            code = check()
        finally:
            sys.stdout.flush()
            os._exit(code)
    failed = os.waitstatus_to_exitcode(os.waitpid(pid,0)[1])
else:
    failed = check()

if failed == 1:
    print("\nVIOLATION: a well formed file that can be read, but not written, is refused")
    sys.exit(1)
if failed: sys.exit(failed)
print("ok")
