"""
C04: envs.save(path, processes=2) returns the environments in the order in which the worker processes finished,
not in the order of envs: envs.save(...)[i] is not envs[i].

The interleaving is forced with a first environment that takes 12 seconds to start reading while the second one
is immediate (both are plain LinearSyntheticSimulation otherwise).
"""
import os, sys, time, tempfile, warnings
warnings.simplefilter('ignore')

from coba.context import CobaContext, NullLogger
from coba.environments import Environments, LinearSyntheticSimulation

class SlowLinearSynthetic(LinearSyntheticSimulation):
    def read(self):
        time.sleep(12)
        yield from super().read()

if __name__ == '__main__':
    CobaContext.logger = NullLogger()

    path = os.path.join(tempfile.mkdtemp(), "envs.zip")
    envs = Environments(SlowLinearSynthetic(5, 2, 2, 2, seed=1), LinearSyntheticSimulation(5, 2, 2, 2, seed=2))

    saved = envs.save(path, processes=2)

    want = [e.params['seed'] for e in envs ]
    have = [e.params['seed'] for e in saved]
    print("seeds of envs                     :", want)
    print("seeds of envs.save(path,processes=2):", have)

    same = len(envs)==len(saved) and all([i['context'] for i in a.read()] == [i['context'] for i in b.read()] for a,b in zip(envs,saved))
    print("envs.save(...)[i] reads like envs[i] for all i:", same)

    if not same:
        print("VIOLATION: save() with several processes re-ordered the environments")
        sys.exit(1)

    print("OK")
    sys.exit(0)
