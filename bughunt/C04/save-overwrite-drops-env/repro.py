"""
C04: envs.save(path, overwrite=True) over a save file that only partly matches drops the environments that
did match: the returned Environments (and the file) no longer contain them.
"""
import os, sys, tempfile, warnings
warnings.simplefilter('ignore')

from coba.context import CobaContext, NullLogger
from coba.environments import Environments

CobaContext.logger = NullLogger()

path = os.path.join(tempfile.mkdtemp(), "envs.zip")

#an earlier run saved seeds 1 and 2
Environments.from_linear_synthetic(10, seed=[1,2]).save(path)

#now we want seeds 2 and 3
envs  = Environments.from_linear_synthetic(10, seed=[2,3])
saved = envs.save(path, overwrite=True)

print("seeds in envs              :", [e.params['seed'] for e in envs ])
print("seeds in envs.save(path,..):", [e.params['seed'] for e in saved])
print("seeds in from_save(path)   :", [e.params['seed'] for e in Environments.from_save(path)])

same_len = len(saved) == len(envs)
same_int = same_len and all([i['context'] for i in a.read()] == [i['context'] for i in b.read()] for a,b in zip(envs,saved))

if not same_int:
    print("VIOLATION: the environments returned by save() are not the environments that were saved (seed 2 was dropped)")
    sys.exit(1)

print("OK")
sys.exit(0)
