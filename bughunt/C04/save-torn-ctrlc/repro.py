"""
C04: a Ctrl-C while Environments.save() is writing leaves a *valid* zip whose last member is truncated at a
pickle boundary. Reading it gives fewer interactions without any error and a later envs.save(path) accepts
the file as complete (params match) and returns the truncated environment.

The KeyboardInterrupt is injected deterministically on the 4th write into the zip member, i.e. after the
header, the params and the first batch of 1000 interactions were written.
"""
import os, sys, tempfile, warnings, zipfile
warnings.simplefilter('ignore')

from coba.context import CobaContext, NullLogger
from coba.environments import Environments

CobaContext.logger = NullLogger()

path = os.path.join(tempfile.mkdtemp(), "envs.zip")
envs = Environments.from_linear_synthetic(2500, n_actions=2, n_context_features=2, n_action_features=0, seed=[1,2])

expected = [[i['context'] for i in e.read()] for e in envs]

original_write = zipfile._ZipWriteFile.write
calls = {'n':0}
def interrupted_write(self, data):
    calls['n'] += 1
    if calls['n'] == 4: raise KeyboardInterrupt() #the user hits Ctrl-C here
    return original_write(self, data)

zipfile._ZipWriteFile.write = interrupted_write
try:
    envs.save(path)
    print("save was not interrupted?!")
except KeyboardInterrupt:
    print("save() interrupted by Ctrl-C while writing environment 0")
finally:
    zipfile._ZipWriteFile.write = original_write

print("members in the file after the interrupt:", zipfile.ZipFile(path).namelist())

#the script is run again
saved  = envs.save(path)
actual = [[i['context'] for i in e.read()] for e in saved]

print("interactions per environment, expected:", [len(e) for e in expected])
print("interactions per environment, from save:", [len(e) for e in actual])
print("params equal:", [e.params for e in saved] == [e.params for e in envs])

if actual != expected:
    print("VIOLATION: save() returned a silently truncated environment (torn member accepted as complete)")
    sys.exit(1)

print("OK")
sys.exit(0)
