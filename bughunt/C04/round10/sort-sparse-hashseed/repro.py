"""
envs.sort() (no keys = 'sort on everything', the default shown as sort_keys='*') on an environment with sparse
contexts read from a sparse ARFF source orders the interactions by `tuple(context)`, i.e. by the tuple of the
context's feature NAMES in iteration order. For the lazy sparse rows of the ARFF reader that iteration order
is the iteration order of a Python set of strings (DropSparse.__iter__ -> `self._row.keys()-self._drop_set`,
LazySparse.keys() -> `set(...)`), which depends on the interpreter's string hash seed. So the very same
(pickled) environment yields its interactions in a different order in every process with another hash seed -
e.g. in each of the spawned worker processes of Experiment.run(processes=n) and from one run of a script to the
next - and everything downstream (take, shuffle, learners) sees another sequence.

The parent pickles ONE environment; children with PYTHONHASHSEED=1,2,3 unpickle and read it.
"""
import sys, os, pickle, subprocess, tempfile, warnings
warnings.filterwarnings("ignore")

CHILD = r'''
import sys, pickle, warnings
warnings.filterwarnings("ignore")
env = pickle.load(open(sys.argv[1],'rb'))
first  = [ i['context']['id'] for i in env.read() ]
second = [ i['context']['id'] for i in env.read() ]
assert first == second
print(",".join(str(int(v)) for v in first))
'''

if __name__ == '__main__':
    import coba
    from coba import Environments, ArffSource
    from coba.pipes import IterableSource

    lines = ["@relation r","@attribute id numeric","@attribute alpha numeric","@attribute beta numeric","@attribute gamma numeric","@attribute delta numeric","@attribute lbl {p,q}","@data"]
    for i in range(1,25):
        feats = [f"0 {i}"] + [f"{k} {i*k}" for k in (1,2,3,4) if (i>>(k-1))&1] + [f"5 {'pq'[i%2]}"]
        lines.append("{"+",".join(feats)+"}")

    env = Environments.from_supervised(ArffSource(IterableSource(lines)), label_col='lbl').sort()[0]

    path = tempfile.mktemp(suffix='.pkl')
    pickle.dump(env, open(path,'wb'))
    orders = {}
    try:
        for seed in ['1','2','3']:
            environ = dict(os.environ, PYTHONHASHSEED=seed, PYTHONPATH=os.environ.get('PYTHONPATH','/tmp/w11_c04'))
            r = subprocess.run([sys.executable,'-W','ignore','-c',CHILD,path],env=environ,capture_output=True,text=True,timeout=100)
            if r.returncode != 0: print(r.stderr[-2000:]); sys.exit(2)
            orders[seed] = r.stdout.strip()
            print(f"PYTHONHASHSEED={seed}: ids of the interactions in the order they are yielded: {orders[seed]}")
    finally:
        os.remove(path)

    if len(set(orders.values())) > 1:
        print("VIOLATION: the same pickled environment yields its interactions in a different order depending on the process that reads it")
        sys.exit(1)
    print("OK")
