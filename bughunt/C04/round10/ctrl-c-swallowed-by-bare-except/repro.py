"""
A Ctrl-C that arrives while Impute / Where / Unbatch are working is swallowed by a bare `except:` and
replaced by a fall-back value. The read carries on, silently yields OTHER interactions than every other
read of the same environment (un-imputed None's / an empty environment / a whole batch where one value
should be), a cache() behind it keeps the wrong data for good, and the user's Ctrl-C is lost.

Site 1 uses a real SIGINT (signal.raise_signal) delivered while the column mean is being summed.
Sites 2 and 3 deliver the KeyboardInterrupt at one chosen line with sys.settrace (what an asynchronous
Ctrl-C between two bytecodes of that line does).  coba itself is not modified.
"""
import sys, signal, warnings
warnings.filterwarnings("ignore")

import coba
from coba import Environments
coba.CobaContext.logger = coba.NullLogger()

failures = []

def interrupt_at(filename_end, funcname, text_in_line):
    """Raise KeyboardInterrupt the first time the given source line is about to execute."""
    import linecache
    state = {'fired':False}
    def local(frame, event, arg):
        if event == 'line' and not state['fired']:
            if text_in_line in linecache.getline(frame.f_code.co_filename, frame.f_lineno):
                state['fired'] = True
                raise KeyboardInterrupt()
        return local
    def trace(frame, event, arg):
        if frame.f_code.co_filename.endswith(filename_end) and frame.f_code.co_name == funcname:
            return local
    return trace, state

def read_contexts(env): return [i['context'] for i in env.read()]

# ---------------------------------------------------------------- site 1: Impute._get_imputation
class Trip(float):
    armed = False
    def __radd__(self, o):
        if Trip.armed:
            Trip.armed = False
            signal.raise_signal(signal.SIGINT) #the user's Ctrl-C, while sum(values) of the column is running
        return float.__add__(self,o)
    __add__ = __radd__

X = [[1.0, None if i%4==1 else Trip(i)] for i in range(40)]
Y = ['ab'[i%2] for i in range(40)]
expected = read_contexts(Environments.from_supervised(X,Y).impute('mean',indicator=False)[0])
env = Environments.from_supervised(X,Y).impute('mean',indicator=False).cache()[0]

Trip.armed = True
try:
    got = read_contexts(env)
    print("[impute] the Ctrl-C never reached the caller; the read returned normally")
    print("[impute]   expected contexts[:3]:", expected[:3])
    print("[impute]   got      contexts[:3]:", got[:3])
    if got != expected: failures.append("impute: a read that was hit by Ctrl-C silently yielded un-imputed data")
    again = read_contexts(env)
    if again != expected:
        print("[impute]   and every later read of the cached environment repeats it:", again[:3])
        failures.append("impute: later reads keep yielding the un-imputed data")
except KeyboardInterrupt:
    print("[impute] KeyboardInterrupt propagated (correct)")
    if read_contexts(env) != expected: failures.append("impute: later read differs")

# ---------------------------------------------------------------- site 2: Where._context_len
X2 = [[float(i),float(i+1),float(i+2)] for i in range(30)]
expected = read_contexts(Environments.from_supervised(X2,Y[:30]).where(n_features=3)[0])
env = Environments.from_supervised(X2,Y[:30]).where(n_features=3).cache()[0]
trace, state = interrupt_at('environments/filters.py', '_context_len', 'return try_else')
sys.settrace(trace)
try:
    got = read_contexts(env); ki = False
except KeyboardInterrupt:
    ki = True
finally:
    sys.settrace(None)
if state['fired'] and not ki:
    print(f"[where]  the Ctrl-C never reached the caller; expected {len(expected)} interactions, got {len(got)}")
    if got != expected: failures.append("where: a read hit by Ctrl-C silently yielded an empty environment")
    again = read_contexts(env)
    if again != expected:
        print(f"[where]    and every later read of the cached environment has {len(again)} interactions")
        failures.append("where: later reads stay empty")
else:
    print("[where]  KeyboardInterrupt propagated (correct)" if ki else "[where]  injection point not reached")

# ---------------------------------------------------------------- site 3: Unbatch._unbatch
def mk(): return Environments.from_linear_synthetic(12,n_actions=2,n_context_features=2,n_action_features=0,seed=1).batch(3).unbatch()
expected = read_contexts(mk()[0])
env = mk().cache()[0]
trace, state = interrupt_at('environments/filters.py', '_unbatch', 'new[k] = interaction[k][i]')
sys.settrace(trace)
try:
    got = read_contexts(env); ki = False
except KeyboardInterrupt:
    ki = True
finally:
    sys.settrace(None)
if state['fired'] and not ki:
    print("[unbatch] the Ctrl-C never reached the caller")
    print("[unbatch]   expected first context:", expected[0])
    print("[unbatch]   got      first context:", got[0])
    if got != expected: failures.append("unbatch: a read hit by Ctrl-C silently yielded a whole batch in place of one value")
    again = read_contexts(env)
    if again != expected: failures.append("unbatch: later reads of the cached environment repeat it")
else:
    print("[unbatch] KeyboardInterrupt propagated (correct)" if ki else "[unbatch] injection point not reached")

print()
if failures:
    print("VIOLATION:")
    for f in failures: print("  -",f)
    sys.exit(1)
print("OK: every Ctrl-C reached the caller and no read differed")
