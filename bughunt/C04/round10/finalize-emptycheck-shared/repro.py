"""
Environments.filter(f) puts the ONE filter object f into every environment's pipeline. Finalize (a public,
documented filter: "Final preparation for built-in Evaluators") owns an EmptyCheck that remembers, on its
first use, whether what it was given was empty - and answers from that memory for ever after, whatever
it is given later. Shared by several environments, the environment that happens to be read first decides
for all of them: if that one is empty (e.g. where() rejected it) every other environment yields nothing.
"""
import sys, warnings
warnings.filterwarnings("ignore")
import coba
from coba import Environments
from coba.environments import Finalize
coba.CobaContext.logger = coba.NullLogger()

def build():
    small = Environments.from_linear_synthetic( 50,n_actions=2,n_context_features=2,n_action_features=0,seed=1)
    large = Environments.from_linear_synthetic(200,n_actions=2,n_context_features=2,n_action_features=0,seed=2)
    #keep environments with at least 100 interactions, prepare them for the evaluators once, keep the result in memory
    return (small+large).where(n_interactions=(100,None)).filter(Finalize()).cache()

envs = build()
large_alone = len(list(envs[1].read()))                      # read the large environment first
print("large environment read first            :", large_alone, "interactions")

envs = build()
n_small = len(list(envs[0].read()))                          # the small one is rejected by where(): empty, as it should be
n_large = len(list(envs[1].read()))
print("small environment (rejected by where)   :", n_small, "interactions")
print("large environment read after the small  :", n_large, "interactions")
n_large_again = len(list(envs[1].read()))
print("large environment read once more        :", n_large_again, "interactions")

if n_large != large_alone or n_large_again != large_alone:
    print("VIOLATION: what an environment yields depends on which other environment was read before it")
    sys.exit(1)
print("OK")
