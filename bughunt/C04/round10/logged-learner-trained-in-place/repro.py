"""
envs.logged(learner) keeps a live reference to the caller's learner and only copies it when the environment
is read. An Experiment trains the learners it is given IN PLACE whenever a learner occurs in a single task
(coba/experiments/process.py copies only when learner_counts[lrn] > 1). So after

    lrn  = BanditEpsilonLearner(.1)
    envs = Environments.from_linear_synthetic(...).logged(lrn)      # one environment
    Experiment(envs, lrn).run()

the very same `envs[0]` object yields OTHER logged actions / probabilities / rewards than before the run
(the logging policy is now the trained learner). With two environments the learner is copied per task and
nothing changes - which makes the behaviour depend on how many environments there happen to be.
"""
import sys, warnings
warnings.filterwarnings("ignore")
import coba
from coba import Environments, Experiment, BanditEpsilonLearner, SequentialCB
coba.CobaContext.logger = coba.NullLogger()

def logged(env): return [(i['action'],round(i['probability'],4),round(i['reward'],4)) for i in env.read()]

def scenario(n_envs):
    lrn  = BanditEpsilonLearner(0.1)
    envs = Environments.from_linear_synthetic(100,n_actions=3,n_context_features=0,n_action_features=0,seed=list(range(1,n_envs+1))).logged(lrn)
    env  = envs[0]
    first  = logged(env)
    second = logged(env)
    assert first == second
    params_before = dict(env.params)
    Experiment(envs,[lrn],SequentialCB(learn='off',eval='ips')).run(quiet=True,processes=1)
    third  = logged(env)
    n_diff = sum(a!=b for a,b in zip(first,third))
    print(f"{n_envs} environment(s): reads before the experiment agree; after Experiment.run() {n_diff} of {len(first)} logged interactions differ")
    if n_diff:
        print("   before:", first[:4])
        print("   after :", third[:4])
    if dict(env.params) != params_before: print("   params changed too")
    return n_diff

bad = scenario(1)
ok  = scenario(2)
if bad:
    print("VIOLATION: the same logged() environment object yields other interactions after it was used in an Experiment with the learner it was built from")
    sys.exit(1)
print("OK")
