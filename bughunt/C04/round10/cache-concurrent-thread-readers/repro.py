"""
Two threads that read environments sharing one cache()/chunk() (the same environment, or siblings such as
envs.cache().shuffle(n=5)) corrupt each other. pipes.Cache takes a slice from the shared source iterator
and appends it to the shared buffer in two separate steps and without any lock:

    current = list(islice(source,n_slice))      # thread A gets items 0..24
                                                # <- thread switch: B gets 25..49, appends, goes on to the end
    self._cache.extend(current)                 # A appends 0..24 BEHIND everything B appended

Schedule 1 (forced with a per-thread trace hook that parks thread A between the two statements; no coba code
is changed): nobody gets an error, reader B gets 75 of the 100 interactions, reader A gets all 100 in the wrong
order and the wrong order stays in the cache for every later read.
Schedule 2 (thread A parked inside the source, no trace hook needed): B fails with 'generator already
executing', B's failure resets the cache under A's feet and A fails with AttributeError.
"""
import sys, threading, warnings, linecache
warnings.filterwarnings("ignore")
import coba
from coba import Environments
coba.CobaContext.logger = coba.NullLogger()

failures = []
ids = lambda env: [i['context'][0] for i in env.read()]

# ------------------------------------------------------------------ schedule 1: silent reordering
def make(): return Environments.from_lambda(100, lambda i: [i], lambda i,c: [0,1], lambda i,c,a: a).cache()
expected = ids(make()[0])
env = make()[0]

a_has_slice, b_finished = threading.Event(), threading.Event()
out = {}

def reader_a():
    state = {'parked':False}
    def local(frame, event, arg):
        if event=='line' and not state['parked'] and 'self._cache.extend(current)' in linecache.getline(frame.f_code.co_filename,frame.f_lineno):
            state['parked'] = True
            a_has_slice.set()          #A holds its slice but hasn't stored it yet
            b_finished.wait(20)        #...the scheduler lets B run now
        return local
    def trace(frame, event, arg):
        if frame.f_code.co_name == '_next_slice' and frame.f_code.co_filename.endswith('pipes/filters.py'): return local
    sys.settrace(trace)
    try:     out['A'] = ids(env)
    except BaseException as e: out['A'] = repr(e)
    finally: sys.settrace(None)

def reader_b():
    a_has_slice.wait(20)
    try:     out['B'] = ids(env)
    except BaseException as e: out['B'] = repr(e)
    finally: b_finished.set()

ta,tb = threading.Thread(target=reader_a), threading.Thread(target=reader_b)
ta.start(); tb.start(); ta.join(); tb.join()
later = ids(env)

def describe(x): return x if isinstance(x,str) else f"{len(x)} interactions, first ids {x[:3]}, {'in order' if x==expected else 'NOT the expected sequence'}"
print("schedule 1 (A parked between taking a slice and storing it)")
print("  expected  :", describe(expected))
print("  reader A  :", describe(out['A']))
print("  reader B  :", describe(out['B']))
print("  later read:", describe(later))
if out['A']!=expected: failures.append("schedule 1: reader A got a wrong sequence without any error")
if out['B']!=expected: failures.append("schedule 1: reader B got a wrong sequence without any error")
if later!=expected:    failures.append("schedule 1: every later read replays the scrambled cache")

# ------------------------------------------------------------------ schedule 2: both readers fail
in_source, release = threading.Event(), threading.Event()
def ctx(i):
    if i==3 and threading.current_thread().name=='A' and not in_source.is_set():
        in_source.set(); release.wait(20)   #A is inside the source generator (think: a slow download/parse)
    return [i]
env = Environments.from_lambda(100, ctx, lambda i,c: [0,1], lambda i,c,a: a).cache()[0]
out = {}
def reader(name, before=None, after=None):
    if before: before.wait(20)
    try:     out[name] = ids(env)
    except BaseException as e: out[name] = repr(e)
    finally:
        if after: after.set()
ta = threading.Thread(target=reader, name='A', args=('A',))
tb = threading.Thread(target=reader, name='B', args=('B',in_source,release))
ta.start(); tb.start(); ta.join(); tb.join()
print("schedule 2 (B starts while A is inside the source)")
print("  reader A  :", describe(out['A']))
print("  reader B  :", describe(out['B']))
print("  later read:", describe(ids(env)))
if out['A']!=expected: failures.append("schedule 2: reader A failed: "+str(out['A'])[:80])
if out['B']!=expected: failures.append("schedule 2: reader B failed: "+str(out['B'])[:80])

print()
if failures:
    print("VIOLATION:")
    for f in failures: print("  -",f)
    sys.exit(1)
print("OK")
