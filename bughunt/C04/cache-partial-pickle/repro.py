"""
C04: an environment with cache()/chunk() can no longer be pickled once a read stopped before the upstream
iterator was exhausted - after an abandoned partial read, but also after a perfectly normal *complete* read
when a take()/slice() follows the cache. (pickling happens e.g. in Experiment.run(processes>1) and save(processes>1)).
A completely read cache of lazily parsed ARFF rows has the same problem for a second reason.
"""
import os, sys, pickle, tempfile, warnings
warnings.simplefilter('ignore')

from coba.environments import Environments, ArffSource

bad = False

def check(title, env, expected):
    global bad
    try:
        clone = pickle.loads(pickle.dumps(env))
        same  = [i['context'] for i in clone.read()] == expected
        print(f"{title}: pickled fine, clone reads the same: {same}")
        if not same: bad = True
    except BaseException as e:
        print(f"{title}: VIOLATION pickling raised {type(e).__name__}: {e}")
        bad = True

#1) a look at the first interaction of a cached environment
env      = Environments.from_linear_synthetic(100, n_actions=2, seed=1).cache()[0]
fresh    = Environments.from_linear_synthetic(100, n_actions=2, seed=1).cache()[0]
expected = [i['context'] for i in Environments.from_linear_synthetic(100, n_actions=2, seed=1)[0].read()]
check("never read                         ", fresh, expected)
first = next(iter(env.read()))
check("after looking at first interaction ", env, expected)

#2) a complete read of chunk().take(30): take stops the cache before the source is exhausted
env      = Environments.from_linear_synthetic(100, n_actions=2, seed=1).chunk().take(30)[0]
expected = [i['context'] for i in env.read()]
check("after a complete read of chunk().take(30)", env, expected)

#3) completely read cache in front of lazily parsed arff rows with a string attribute
path = os.path.join(tempfile.mkdtemp(), "data.arff")
with open(path,"w") as f:
    f.write("@relation r\n@attribute s string\n@attribute n numeric\n@attribute c {a,b}\n@data\nx,1,a\ny,2,b\nz,3,a\n")
env      = Environments.from_supervised(ArffSource(path), label_col='c').cache()[0]
expected = [i['context'] for i in env.read()]
check("after a complete read of an arff env with cache()", env, expected)

sys.exit(1 if bad else 0)
