"""
C04: a Cache passed to Environments.filter() is ONE object shared by every environment.

Environments.cache() makes one Cache per environment, but the public filter class
coba.environments.Cache handed to the public Environments.filter() (the documented way to
"apply a custom filter", e.g. to get another slice size than the hard coded 25) is joined,
as the very same object, to every environment. Whichever environment is read first fills it;
every other environment then yields THAT environment's interactions (under its own params),
and what an environment yields depends on which environment was read before it.

run: PYTHONPATH=/tmp/w12_c04 /venv/bin/python /tmp/w12_c04/findings/shared-cache-filter/repro.py
"""
import sys, warnings
warnings.filterwarnings("ignore")

from coba.environments import Environments, Cache

def canon(interactions):
    return [ (tuple(i['context']), tuple(map(tuple,i['actions'])), tuple(map(i['rewards'],i['actions']))) for i in interactions ]

def make(with_cache):
    envs = Environments.from_linear_synthetic(40, n_actions=3, n_action_features=0, seed=[1,2,3])
    return envs.filter(Cache(100)) if with_cache else envs

#what each environment has to yield (no caching at all)
expected = [ canon(e.read()) for e in make(False) ]
assert expected[0] != expected[1] != expected[2]

failures = []

#history 1: read in order 0,1,2
envs = list(make(True))
got  = [ canon(e.read()) for e in envs ]
for i,(g,x) in enumerate(zip(got,expected)):
    if g != x:
        same_as = [j for j,y in enumerate(expected) if y == g]
        failures.append(f"order 0,1,2: environment {i} (params seed={envs[i].params['seed']}) yields the interactions of environment {same_as}")

#history 2: same construction, but environment 2 is read first
envs = list(make(True))
first = canon(envs[2].read())
then0 = canon(envs[0].read())
if first != expected[2]: failures.append("order 2,0: environment 2 is wrong even when read first")
if then0 != expected[0]:
    same_as = [j for j,y in enumerate(expected) if y == then0]
    failures.append(f"order 2,0: environment 0 (params seed={envs[0].params['seed']}) yields the interactions of environment {same_as}")

#the same environment object therefore gives different sequences depending on the history of OTHER objects
if got[0] != then0:
    failures.append("environment 0 yields different interactions depending on which environment was read before it")

#the built-in way keeps them apart (this is what a user would expect of filter(Cache(...)) as well)
envs = list(make(False).cache())
if [canon(e.read()) for e in envs] != expected: failures.append("Environments.cache() itself is broken (unexpected)")

if failures:
    print("VIOLATION: Environments.filter(Cache(...)) shares one cache between all environments")
    for f in failures: print("  -",f)
    sys.exit(1)

print("ok: every environment yields its own interactions")
sys.exit(0)
