"""
C04: a Ctrl-C at the start of reading a sparse ARFF file is swallowed by a bare `except: pass`
(coba/pipes/readers.py, ArffReader.filter, the loop that finds the "not sparse" columns) and the read
silently yields OTHER interactions: the column that was being looked at is no longer known to be
"not sparse", so every row that leaves it out loses that feature. A cache()/chunk()/materialize()
further down keeps the wrong interactions for every later read.

The SIGINT is delivered for real (signal.raise_signal) at a fixed point: we wrap the encoder the
reader makes for the string attribute so that the first time it is called it raises the signal.
The default SIGINT handler then raises KeyboardInterrupt inside `v('0')` exactly as a Ctrl-C at
that moment would.

run: PYTHONPATH=/tmp/w12_c04 /venv/bin/python /tmp/w12_c04/findings/arff-sparse-ctrlc-swallowed/repro.py
"""
import os, sys, signal, tempfile, warnings
warnings.filterwarnings("ignore")

from coba.environments import Environments, ArffSource
from coba.pipes.readers import ArffAttrReader

ARFF = """@relation r
@attribute a numeric
@attribute s string
@attribute y {n,p}
@data
{0 1,1 foo,2 p}
{0 3,2 n}
{1 bar,2 p}
{0 7,2 n}
{2 n}
{0 2,1 baz,2 p}
"""

path = os.path.join(tempfile.mkdtemp(), "sparse.arff")
with open(path,"w") as f: f.write(ARFF)

def canon(interactions):
    return [ (sorted(dict(i['context']).items()), list(map(i['rewards'],i['actions']))) for i in interactions ]

def make():
    return Environments.from_supervised(ArffSource(path), label_col='y').cache()[0]

expected = canon(make().read())

#--- deliver a real SIGINT while the reader evaluates `v('0')` for the string column
armed = {'on': False, 'fired': False}
make_encoder = ArffAttrReader._encoder
def hooked_encoder(self, encoding):
    enc = make_encoder(self, encoding)
    if not encoding.lower().startswith("string"): return enc
    def encoder(x):
        if armed['on']:
            armed['on'], armed['fired'] = False, True
            signal.raise_signal(signal.SIGINT) #the user presses Ctrl-C now
        return enc(x)
    return encoder
ArffAttrReader._encoder = hooked_encoder

env = make()
armed['on'] = True
try:
    got = canon(env.read())
    interrupted = False
except KeyboardInterrupt:
    interrupted = True
finally:
    armed['on'] = False
    ArffAttrReader._encoder = make_encoder

assert armed['fired'], "the hook was never reached"

if interrupted:
    #this is the correct behaviour: the Ctrl-C ends the read. A later read must then be complete.
    again = canon(env.read())
    if again == expected:
        print("ok: the Ctrl-C stopped the read and the next read is correct")
        sys.exit(0)
    print("VIOLATION: the read after the interrupted one differs")
    sys.exit(1)

print("The Ctrl-C was swallowed: the read went on to the end without any exception.")
later = canon(env.read())
if got != expected or later != expected:
    print("VIOLATION: the environment yields other interactions than without the Ctrl-C")
    for n,(e,g,l) in enumerate(zip(expected,got,later)):
        flag = "" if e==g==l else "   <-- differs"
        print(f"  {n}: expected context {e[0]} | interrupted read {g[0]} | next read (from the cache) {l[0]}{flag}")
    sys.exit(1)

print("(the Ctrl-C was swallowed but the interactions are the same)")
sys.exit(1)
