"""
C04: an environment with a Densify filter (Environments.dense(...), either method) can never be pickled, so it can't
be used with Experiment.run(processes>1) / save(processes>1), and a Densify('lookup') that is shared by several
environments (envs.filter(Densify(..))) makes what one environment yields depend on which other environment was read first.
"""
import sys, pickle, warnings
warnings.simplefilter('ignore')

from coba.environments import Environments, Densify

bad = False

for method in ['lookup','hashing']:
    env = Environments.from_linear_synthetic(5, n_actions=2, seed=1).sparse().dense(10, method)[0]
    expected = [list(i['context']) for i in env.read()]
    try:
        clone = pickle.loads(pickle.dumps(env))
        print(f"dense(10,'{method}') pickled, clone reads the same:", [list(i['context']) for i in clone.read()] == expected)
    except BaseException as e:
        print(f"dense(10,'{method}'): VIOLATION pickling raised {type(e).__name__}: {e}")
        bad = True

#shared lookup: the same two environments, read in a different order
def make():
    X1 = [{'a':1,'b':2},{'c':3}]
    X2 = [{'c':1,'a':2},{'b':3}]
    return (Environments.from_supervised(X1,[0,1]) + Environments.from_supervised(X2,[0,1])).filter(Densify(3,'lookup'))

envs = make()
first_then_second  = [[list(i['context']) for i in envs[0].read()], [list(i['context']) for i in envs[1].read()]]
envs = make()
second = [list(i['context']) for i in envs[1].read()]
first  = [list(i['context']) for i in envs[0].read()]
print("env 1 when env 0 was read before:", first_then_second[1])
print("env 1 when it is read first     :", second)
if second != first_then_second[1] or first != first_then_second[0]:
    print("VIOLATION: what an environment yields depends on which other environment was read before it (shared Densify lookup)")
    bad = True

sys.exit(1 if bad else 0)
