"""
C04 (minor): looking up params of (or reading, via Environments.shuffle/sort/str) a logged(...) environment writes a
'family' entry into the params dict of the learner object the caller passed in.
"""
import sys, copy, warnings
warnings.simplefilter('ignore')

from coba.environments import Environments

class MyLearner:
    def __init__(self, shared): self._params = shared
    @property
    def params(self): return self._params
    def predict(self, context, actions): return actions[0]
    def learn(self, context, action, reward, probability): pass

class OtherLearner(MyLearner): pass

shared = {'lr': 0.1}                       #e.g. one hyper-parameter dict used to configure several learners
lrn1, lrn2 = MyLearner(shared), OtherLearner(shared)
before = copy.deepcopy(shared)

envs = Environments.from_linear_synthetic(5, n_actions=2, seed=1).logged([lrn1,lrn2])
p1 = envs[0].params
p2 = envs[1].params

print("caller's dict before:", before)
print("caller's dict after :", shared)
print("family reported for the OtherLearner environment:", p2['family'])

if shared != before:
    print("VIOLATION: a params look-up on the environment modified the dict the caller's learner holds"
          + (" (and the second learner is now reported with the first learner's family)" if p2['family'] != 'OtherLearner' else ""))
    sys.exit(1)

print("OK")
sys.exit(0)
