"""
C04: environments made with Environments.from_result(<path to a result file>) can't be pickled (they can when made
from the Result object), so they can't be read in a worker process (Experiment.run(processes>1), save(processes>1)).
"""
import os, sys, pickle, tempfile, warnings
warnings.simplefilter('ignore')

from coba.context import CobaContext, NullLogger
from coba.environments import Environments
from coba.experiments import Experiment
from coba.learners import RandomLearner
from coba.evaluators import SequentialCB

CobaContext.logger = NullLogger()

path = os.path.join(tempfile.mkdtemp(), "result.log")
envs = Environments.from_linear_synthetic(6, n_actions=3, seed=[1,2])
res  = Experiment(envs, RandomLearner(), SequentialCB(record=['context','actions','rewards','action','reward','probability'])).run(path, quiet=True)

bad = False
for title, made in [("from_result(Result)", Environments.from_result(res)), ("from_result(path)  ", Environments.from_result(path))]:
    env = made[0]
    expected = [i['context'] for i in env.read()]
    assert len(expected) == 6 and expected == [i['context'] for i in env.read()]
    try:
        clone = pickle.loads(pickle.dumps(env))
        same  = [i['context'] for i in clone.read()] == expected and clone.params == env.params
        print(f"{title}: pickled fine, clone reads the same: {same}")
        bad = bad or not same
    except BaseException as e:
        print(f"{title}: VIOLATION pickling raised {type(e).__name__}: {e}")
        bad = True

sys.exit(1 if bad else 0)
