"""
C04: a Ctrl-C that lands in Cache.filter right after a slice was pulled from the upstream iterator,
but before it was appended to the cache, makes the cached environment silently lose that slice.

The KeyboardInterrupt is injected deterministically with a trace function that raises at the line
`self._cache.extend(current)` of coba.pipes.filters.Cache.filter (an async exception delivered
between two bytecodes, which is exactly what a SIGINT does).
"""
import sys, warnings, inspect
warnings.simplefilter('ignore')

from coba.environments import Environments
import coba.pipes.filters as pf

env   = Environments.from_linear_synthetic(100, n_actions=2, n_context_features=2, n_action_features=0, seed=1)
truth = [i['context'] for i in env[0].read()]

cached = env.cache()[0]

#find the line of `self._cache.extend(current)` inside Cache.filter
src, start = inspect.getsourcelines(pf.Cache.filter)
target = start + next(n for n,l in enumerate(src) if 'self._cache.extend(current)' in l)
code   = pf.Cache.filter.__code__

state = {'hits':0}
def tracer(frame, event, arg):
    if frame.f_code is code:
        def local(frame, event, arg):
            if event == 'line' and frame.f_lineno == target:
                state['hits'] += 1
                if state['hits'] == 2: #the second slice of 25 has been pulled from the source but isn't cached yet
                    sys.settrace(None)
                    raise KeyboardInterrupt()
            return local
        return local
    return None

got_before = []
sys.settrace(tracer)
try:
    for i in cached.read(): got_before.append(i['context'])
except KeyboardInterrupt:
    print(f"read #1 interrupted by Ctrl-C after {len(got_before)} interactions")
finally:
    sys.settrace(None)

second = [i['context'] for i in cached.read()]
third  = [i['context'] for i in cached.read()]

print(f"uncached env : {len(truth)} interactions")
print(f"read #2      : {len(second)} interactions, identical to uncached: {second == truth}")
print(f"read #3      : {len(third)} interactions, identical to uncached: {third == truth}")

if second != truth or third != truth:
    missing = [n for n,c in enumerate(truth) if c not in second]
    print(f"VIOLATION: after the interrupted read the cached environment silently lost interactions {missing[0]}..{missing[-1]}")
    sys.exit(1)

print("OK: reads after the interrupted read are complete")
sys.exit(0)
