"""
C04: Environments.save(path) hands back environments whose interactions differ from the environments that
were saved, when a save file with equal *params* already exists. params do not contain everything that
determines the data (n_interactions, n_context_features, n_action_features for all synthetic environments;
nothing at all about the lambdas / X,Y for lambda and in-memory supervised environments).
"""
import os, sys, tempfile, warnings
warnings.simplefilter('ignore')

from coba.context import CobaContext, NullLogger
from coba.environments import Environments

CobaContext.logger = NullLogger()

path = os.path.join(tempfile.mkdtemp(), "envs.zip")

#yesterday's run of the script
Environments.from_linear_synthetic(10, n_context_features=2, seed=1).save(path)

#today the script was edited: more interactions and more context features
envs  = Environments.from_linear_synthetic(50, n_context_features=4, seed=1)
saved = envs.save(path)

a = list(envs [0].read())
b = list(saved[0].read())

print("params equal           :", envs[0].params == saved[0].params, envs[0].params)
print("interactions in envs   :", len(a), "with", len(a[0]['context']), "context features")
print("interactions after save:", len(b), "with", len(b[0]['context']), "context features")

bad = False

if [i['context'] for i in a] != [i['context'] for i in b]:
    print("VIOLATION: envs.save(path)[0] does not yield the interactions of envs[0] (the stale file was returned silently)")
    bad = True

#same thing for two different lambda environments
path2 = os.path.join(tempfile.mkdtemp(), "lambda.zip")
Environments.from_lambda(5, lambda i: [i], lambda i,c: [0,1], lambda i,c,a: a).save(path2)
lam   = Environments.from_lambda(5, lambda i: [-i], lambda i,c: [0,1,2], lambda i,c,a: -a)
saved = lam.save(path2)
x = [(i['context'],i['actions']) for i in lam  [0].read()]
y = [(i['context'],i['actions']) for i in saved[0].read()]
print("lambda env  :", x[:2])
print("after save  :", y[:2])
if x != y:
    print("VIOLATION: a different LambdaSimulation was returned by save()")
    bad = True

sys.exit(1 if bad else 0)
