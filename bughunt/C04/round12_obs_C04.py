import os, tempfile
from coba.context import CobaContext, NullLogger
from coba.environments import Environments
CobaContext.logger = NullLogger()
L = lambda k: Environments.from_lambda(3, lambda i: [i,k], lambda i,c: [0,1], lambda i,c,a: a*k)
with tempfile.TemporaryDirectory() as t:
    p = os.path.join(t,'e.zip')
    a = L(1).save(p)
    b = L(5).save(p)       # a different environment with the same params
    print('obs1 direct :', [i['rewards'] for i in L(5)[0].read()])
    print('obs1 saved  :', [i['rewards'] for i in b[0].read()])
with tempfile.TemporaryDirectory() as t:
    p = os.path.join(t,'e.zip')
    A = Environments.from_linear_synthetic(3,seed=1); B = Environments.from_linear_synthetic(3,seed=2); C = Environments.from_linear_synthetic(3,seed=3)
    (C+A).save(p)
    out = (A+B).save(p, overwrite=True)
    print('obs2 asked to save 2 environments, got back', len(out), [e.params['seed'] for e in out])
