"""
C04: a cache()d (or chunk()ed) supervised environment read from an ARFF source that has a string/date/relational
attribute can be pickled before it has been read but no longer after a COMPLETE read.

Run: PYTHONPATH=/tmp/w10_c04 /venv/bin/python /tmp/w10_c04/findings/cached-arff-string-unpicklable/repro.py
"""
import sys, os, pickle, tempfile, shutil, warnings
warnings.filterwarnings("ignore")

from coba.context import CobaContext, NullLogger
from coba.environments import Environments, ArffSource

CobaContext.logger = NullLogger()

arff = """@relation visits
@attribute age numeric
@attribute city {oslo,rome,lima}
@attribute note string
@attribute clicked {no,yes}
@data
""" + "\n".join(f"{20+i},{['oslo','rome','lima'][i%3]},note{i%4},{['no','yes'][(i*7)%2]}" for i in range(60)) + "\n"

def canon(env):
    return [ (list(i['context']), list(i['actions']), [i['rewards'](a) for a in i['actions']]) for i in env.read() ]

failed = False
tmp = tempfile.mkdtemp(dir=os.path.dirname(os.path.abspath(__file__)))
try:
    path = os.path.join(tmp,"visits.arff")
    with open(path,"w") as f: f.write(arff)

    for how in ["cache","chunk"]:
        envs = Environments.from_supervised(ArffSource(path), label_col="clicked")
        env  = (envs.cache() if how == "cache" else envs.chunk())[0]

        before = pickle.loads(pickle.dumps(env)) #works: this is what a multi-process experiment does with a fresh environment
        expected = canon(before)

        assert canon(env) == expected #one complete read (e.g. looking at the data in a notebook, or a first single-process experiment)
        assert canon(env) == expected #re-reading the same object is fine

        try:
            after = pickle.loads(pickle.dumps(env))
        except Exception as e:
            failed = True
            print(f"VIOLATION ({how}()): after one complete read the environment can't be pickled any more: {type(e).__name__}: {e}")
        else:
            ok = canon(after) == expected
            print(f"{how}(): pickled after a complete read, same interactions: {ok}")
            failed |= not ok

    #the same file without the string attribute has no such problem
    with open(path,"w") as f: f.write("\n".join(l for l in arff.splitlines() if "note string" not in l).replace(",note0,",",").replace(",note1,",",").replace(",note2,",",").replace(",note3,",","))
    env = Environments.from_supervised(ArffSource(path), label_col="clicked").cache()[0]
    expected = canon(env)
    print("without the string attribute, pickled after a complete read, same interactions:", canon(pickle.loads(pickle.dumps(env))) == expected)
finally:
    shutil.rmtree(tmp, ignore_errors=True)

sys.exit(1 if failed else 0)
