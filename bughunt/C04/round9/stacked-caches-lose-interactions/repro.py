"""
C04: with two cache layers (chunk()/cache() on a shared base and another cache()/chunk() further down) a read that is
merely ABANDONED (iterator dropped - e.g. a peek, a take(), a failed evaluation) leaves a live reader of the inner cache
parked inside the outer cache. Reading a sibling environment of the same base in between makes the next read of the first
environment silently skip interactions (and the outer cache keeps the wrong sequence), or fail with a TypeError.
No iterator is ever resumed by the caller.

Run: PYTHONPATH=/tmp/w10_c04 /venv/bin/python /tmp/w10_c04/findings/stacked-caches-lose-interactions/repro.py
"""
import sys, warnings
from itertools import islice
warnings.filterwarnings("ignore")

from coba.context import CobaContext, NullLogger
from coba.environments import Environments

CobaContext.logger = NullLogger()

def ids(env, k=None):
    #LambdaSimulation puts the index of the interaction in the context
    it  = iter(env.read())
    out = [ interaction['context'][0] for interaction in islice(it,k) ]
    del it #the reader is dropped, never resumed
    return out

def build():
    #an (expensive) base that is chunked so that everything derived from it re-uses what was read
    base = Environments.from_lambda(100, lambda i: [i,i%7], lambda i,c: [0,1,2], lambda i,c,a: float(a==i%3)).chunk()
    #a derived environment that is cached again after a (here cheap, normally expensive) step
    noisy = base.noise(reward=(0,.1)).cache()
    return base, noisy

failed = False

expected = ids(build()[1][0])
assert expected == list(range(100))

# --- history 1: silent loss -------------------------------------------------------------------------------------
base, noisy = build()
A = noisy[0]
B = base.take(60)[0]

peek = ids(A,1)                 #a look at the first interaction (what Experiment does with every environment, or a user in a notebook)
b    = ids(B)                   #a complete read of a sibling environment of the same chunked base
a1   = ids(A)                   #a complete read of the first environment
a2   = ids(A)                   #... and again

print("history 1: peek at A, read B=base.take(60), read A, read A")
print("   peek", peek, "| B ok:", b == list(range(60)))
print("   A yields %d interactions (expected %d); missing: %s" % (len(a1), len(expected), sorted(set(expected)-set(a1))[:5]+['...'] if set(expected)-set(a1) else []))
print("   A again yields %d interactions" % len(a2))
if a1 != expected or a2 != expected:
    failed = True
    print("   VIOLATION: interactions were silently skipped and the wrong sequence is now what A's cache replays")

# --- history 2: TypeError ---------------------------------------------------------------------------------------
base, noisy = build()
A10  = noisy.take(10)[0]        #all three share the base's cache; A10 and A100 also share the second cache
B    = base[0]
A100 = noisy.take(100)[0]

print("history 2: read noisy.take(10) completely, read base completely, read noisy.take(100) completely")
r1 = ids(A10); r2 = ids(B)
try:
    r3 = ids(A100)
    print("   sizes", len(r1), len(r2), len(r3))
    if r3 != expected:
        failed = True
        print("   VIOLATION: wrong interactions")
except Exception as e:
    failed = True
    print("   VIOLATION: reading noisy.take(100) raised %s: %s" % (type(e).__name__, e))

# --- history 3: the same inside an ordinary single-process Experiment -----------------------------------------
from collections import Counter
from coba.experiments import Experiment
from coba.learners import RandomLearner

base, noisy = build()
envs   = noisy.take(10) + base.take(60) + noisy.take(100)
counts = Counter(Experiment(envs, RandomLearner()).run(quiet=True).interactions['environment_id'])
print("history 3: Experiment(noisy.take(10) + base.take(60) + noisy.take(100), RandomLearner()): evaluated interactions per environment:", dict(sorted(counts.items())))
if dict(counts) != {0:10, 1:60, 2:100}:
    failed = True
    print("   VIOLATION: the third environment should have been evaluated on 100 interactions")

sys.exit(1 if failed else 0)
