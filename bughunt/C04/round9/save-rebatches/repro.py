"""
C04: save()/from_save() of a batched environment whose batches are not [full,...,full,short] returns an environment
with other interactions (other batch boundaries, even another number of interactions) than the one that was saved.

Run: PYTHONPATH=/tmp/w10_c04 /venv/bin/python /tmp/w10_c04/findings/save-rebatches/repro.py
"""
import sys, os, tempfile, shutil, warnings, pickle
warnings.filterwarnings("ignore")

from coba.context import CobaContext, NullLogger
from coba.environments import Environments

CobaContext.logger = NullLogger()

def describe(env):
    #one entry per (batched) interaction: the first feature of every context in the batch
    return [ [round(c[0],4) for c in interaction['context']] for interaction in env.read() ]

failed = False
tmp = tempfile.mkdtemp(dir=os.path.dirname(os.path.abspath(__file__)))

try:
    #an environment kept in memory (notebook style), then mini-batches of 4 presented in several random orders
    #(22 interactions -> batches of 4,4,4,4,4,2 whose order is shuffled)
    base = Environments.from_linear_synthetic(22, n_actions=2, n_context_features=2, n_action_features=0).materialize()
    envs = base.batch(4).shuffle(n=12)

    saved = envs.save(os.path.join(tmp,"envs.zip"))

    for i,(env,sav) in enumerate(zip(envs,saved)):
        original = describe(env)
        again    = describe(env)
        pickled  = describe(pickle.loads(pickle.dumps(env)))
        restored = describe(sav)

        assert original == again == pickled, "direct reads and pickling are fine"
        assert env.params == sav.params

        print(f"env {i} {env.params['shuffle_seed']=}: batch sizes read directly {[len(b) for b in original]} after save()/from_save() {[len(b) for b in restored]}")
        if original != restored:
            failed = True
            print(f"   VIOLATION: {len(original)} interactions before, {len(restored)} after saving; first difference at interaction "
                  f"{next((j for j,(a,b) in enumerate(zip(original,restored)) if a!=b), min(len(original),len(restored)))}")
            print(f"      direct  : {original[:3]} ...")
            print(f"      restored: {restored[:3]} ...")
finally:
    shutil.rmtree(tmp, ignore_errors=True)

sys.exit(1 if failed else 0)
