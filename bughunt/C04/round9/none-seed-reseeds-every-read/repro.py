"""
C04: environments/filters whose seed is None (the DEFAULT of BanditSyntheticSimulation, and an accepted value of
from_*_synthetic(seed=None), logged(seed=None), riffle(seed=None), Shuffle(None), Reservoir(seed=None), Noise(seed=None))
draw a new clock based seed at every read, so one and the same object yields different interactions each time it is read.

Run: PYTHONPATH=/tmp/w10_c04 /venv/bin/python /tmp/w10_c04/findings/none-seed-reseeds-every-read/repro.py
"""
import sys, time, pickle, warnings
warnings.filterwarnings("ignore")

from coba.context import CobaContext, NullLogger
from coba.environments import Environments, BanditSyntheticSimulation, Shuffle, Reservoir, Noise

CobaContext.logger = NullLogger()

def canon(env,k=None):
    out = []
    for n,i in enumerate(env.read()):
        if n == k: break
        acts = i.get('actions') or []
        out.append(( repr(i.get('context')), repr(acts), [round(i['rewards'](a),6) for a in acts] if callable(i.get('rewards')) else repr(i.get('rewards')), repr(i.get('action')) ))
    return out

class PmfPolicy:
    """A logging policy that returns a PMF (coba picks the action with the evaluator's/logged()'s seed)."""
    def predict(self, context, actions): return [1/len(actions)]*len(actions)
    def learn(self, context, action, reward, probability): pass

base = Environments.from_linear_synthetic(30, n_actions=3, n_context_features=2, n_action_features=0, seed=1)

cases = {
    "BanditSyntheticSimulation(30,3)  [seed defaults to None]": Environments(BanditSyntheticSimulation(30,3))[0],
    "from_bandit_synthetic(30,3,seed=None)"                   : Environments.from_bandit_synthetic(30,3,seed=None)[0],
    "from_linear_synthetic(30,seed=None)"                     : Environments.from_linear_synthetic(30,n_actions=3,seed=None)[0],
    "logged(PmfPolicy(),seed=None)"                           : base.logged(PmfPolicy(),seed=None)[0],
    "riffle(2,seed=None)"                                     : base.riffle(2,seed=None)[0],
    "filter(Shuffle(None))"                                   : base.filter(Shuffle(None))[0],
    "filter(Reservoir(10,seed=None))"                         : base.filter(Reservoir(10,seed=None))[0],
    "filter(Noise(seed=None))"                                : base.filter(Noise(seed=None))[0],
}

failed = False
for name,env in cases.items():
    params = dict(env.params)
    first  = canon(env)
    time.sleep(0.002)
    part   = canon(env,5)
    time.sleep(0.002)
    second = canon(env)
    time.sleep(0.002)
    copy   = canon(pickle.loads(pickle.dumps(env)))
    same   = first == second and part == first[:5] and copy == first and dict(env.params) == params
    print(f"{'ok       ' if same else 'VIOLATION'} {name}: reread equal={first==second}, partial read is a prefix={part==first[:5]}, pickled copy equal={copy==first}, params unchanged={dict(env.params)==params}")
    failed |= not same

sys.exit(1 if failed else 0)
