"""
C04: a logged() environment whose logging policy draws from the module-level functions of coba.random
(what coba itself recommends: "Please use coba.random.choicew(actions,pmf) to return an action instead")
yields different interactions on every read.

Run: PYTHONPATH=/tmp/w10_c04 /venv/bin/python /tmp/w10_c04/findings/logged-module-random/repro.py
"""
import sys, pickle, warnings
warnings.filterwarnings("ignore")

import coba.random
from coba.context import CobaContext, NullLogger
from coba.environments import Environments

CobaContext.logger = NullLogger()

class UniformPolicy:
    """A logging policy written the way coba's own deprecation message asks for."""
    @property
    def params(self): return {'family':'uniform'}
    def predict(self, context, actions):
        return coba.random.choicew(actions, [1/len(actions)]*len(actions))
    def learn(self, context, action, reward, probability):
        pass

def logged(env, k=None):
    out = []
    for i,interaction in enumerate(env.read()):
        if k is not None and i == k: break
        out.append((interaction['actions'].index(interaction['action']), round(interaction['reward'],5), interaction['probability']))
    return out

env = Environments.from_linear_synthetic(40, n_actions=3, n_context_features=2, n_action_features=0, seed=3).logged(UniformPolicy(), seed=1.23)[0]

failed = False

first  = logged(env)
second = logged(env)
print("logged action index, 1st read:", [a for a,_,_ in first ][:20])
print("logged action index, 2nd read:", [a for a,_,_ in second][:20])
if first != second:
    failed = True
    print("VIOLATION: two complete reads of the same logged environment differ (params are identical: %s)" % (env.params,))

#Even when the module generator is put in the same state before each read (what an Experiment does before every evaluation)
#the logged data depends on how much the *reader* draws from coba.random while it reads (e.g. the learner being evaluated).
coba.random.seed(7)
a = logged(env)
coba.random.seed(7)
b = []
for i,interaction in enumerate(env.read()):
    coba.random.random() #the consumer (say, an evaluated learner that also follows coba's advice) draws once per interaction
    b.append((interaction['actions'].index(interaction['action']), round(interaction['reward'],5), interaction['probability']))
print("same module seed, reader draws nothing   :", [x for x,_,_ in a][:20])
print("same module seed, reader draws 1 per step:", [x for x,_,_ in b][:20])
if a != b:
    failed = True
    print("VIOLATION: what the environment yields depends on what its reader does with coba.random while reading")

copy = pickle.loads(pickle.dumps(env))
coba.random.seed(7); c = logged(copy)
coba.random.seed(8); d = logged(copy)
if c != d:
    failed = True
    print("VIOLATION: a pickled copy read in a process with another module-level state gives other interactions")

sys.exit(1 if failed else 0)
