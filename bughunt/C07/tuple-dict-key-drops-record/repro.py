"""
C07: a dict keyed by something other than str/int/float/bool/None anywhere below the top level of a row (or
anywhere in a params dict) makes the WHOLE record unencodable: every row of the triple (or the whole params row
of the component) is dropped from the result. Only a logged TypeError remains, the experiment "finishes".

Row field names that aren't strings are handled (TransactionEncode turns them into str(key)), but json.dumps is
called with the default skipkeys=False and neither minimize nor the encoder touch the keys of nested dicts or of
params. In coba actions very often are tuples (one-hot actions of every synthetic environment, supervised
environments...) so "a dict per action" - e.g. how often each action was played - has tuple keys.
"""
import sys

from coba.experiments import Experiment
from coba.environments import Environments
from coba.learners import RandomLearner
from coba.evaluators import SequentialCB
from coba.context import CobaContext
from coba.pipes import ListSink

class CountingCB:
    """SequentialCB that also reports how often each action has been played so far."""
    def __init__(self, as_str): self._as_str = as_str
    @property
    def params(self): return {'as_str':self._as_str}
    def evaluate(self, env, lrn):
        counts = {}
        for row in SequentialCB().evaluate(env,lrn):
            key = str(row['action']) if self._as_str else row['action'] #actions are one-hot tuples
            counts[key] = counts.get(key,0)+1
            yield {**row, 'plays':dict(counts)}

class PerActionLearner(RandomLearner):
    """A learner that reports a prior per action."""
    @property
    def params(self): return {'family':'per_action', 'prior':{(1,0,0):.5,(0,1,0):.25,(0,0,1):.25}}

if __name__ == '__main__':
    logs = []
    CobaContext.logger.sink = ListSink(logs)

    envs = Environments.from_linear_synthetic(10,n_actions=3,n_context_features=2,n_action_features=0,seed=1)
    lrns = [RandomLearner(), PerActionLearner()]
    vals = [CountingCB(True), CountingCB(False)]

    result = Experiment(envs,lrns,vals).run(quiet=True)

    n_rows = {}
    for e,l,v in zip(*result.interactions[['environment_id','learner_id','evaluator_id']]):
        n_rows[(e,l,v)] = n_rows.get((e,l,v),0)+1

    print("rows per (env,lrn,val):", n_rows)
    print("learner ids in learners table:", list(result.learners['learner_id']))
    print("errors logged:", sorted({str(l).strip().splitlines()[-1].strip() for l in logs}))

    bad = False
    for triple in [(0,0,0),(0,1,0),(0,0,1),(0,1,1)]:
        if n_rows.get(triple,0) != 10:
            print(f"VIOLATION: triple {triple} completed with 10 rows but the result has {n_rows.get(triple,0)}")
            bad = True
    if list(result.learners['learner_id']) != [0,1]:
        print("VIOLATION: learner 1 (params with a dict keyed by actions) has no row in the learners table")
        bad = True

    sys.exit(1 if bad else 0)
