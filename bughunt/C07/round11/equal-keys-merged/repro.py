"""
C07: row fields whose names are equal (==, same hash) but have different str() - 1, 1.0 and True -
are recorded as ONE field, named after whichever of them python's set happened to keep.

The property says non-string field names are recorded as strings (1 -> '1', 1.0 -> '1.0', True -> 'True')
and that fields a row doesn't have are None. Here an evaluator counts by action. The environment's
actions are the ints 0/1, what comes back from SafeLearner.predict are the floats 0.0/1.0 (SafeLearner
turns the actions 0 and 1 into floats before it hands them to the learner), so some rows are keyed by 1
and others by 1.0.
"""
import sys, os, tempfile, warnings
warnings.filterwarnings("ignore")

from coba.experiments import Experiment
from coba.results import Result
from coba.context import CobaContext, NullLogger
from coba.safety import SafeLearner

CobaContext.logger = NullLogger()

class Env:
    params = {}
    def read(self):
        yield {'context':None,'actions':[0,1],'rewards':[0,1]}
        yield {'context':None,'actions':[0,1],'rewards':[0,1]}

class Lrn:
    params = {}
    def predict(self,context,actions): return actions[1], 1   #always the second action
    def learn(self,*args,**kwargs): pass

class ByAction:
    """One row per interaction: {<best action of the environment>: 'best'} then {<action played>: 'played'}."""
    params = {}
    def evaluate(self,env,lrn):
        lrn = SafeLearner(lrn)
        for interaction in env.read():
            best   = interaction['actions'][1]                                             # the int 1
            played = lrn.predict(interaction['context'],interaction['actions'])[0]          # the float 1.0
            yield {best  : 'best'  }
            yield {played: 'played'}
        yield {True: 'flag'}

def fields(row):
    return {k:v for k,v in row.items() if k not in ('environment_id','learner_id','evaluator_id','index') and v is not None}

yielded  = list(ByAction().evaluate(Env(),Lrn()))
expected = [ {str(k):v for k,v in row.items()} for row in yielded ]
print("rows the evaluator yields       :", yielded)
print("expected (field names as str)   :", expected)

tmp  = tempfile.mkdtemp()
path = os.path.join(tmp,"result.log")

results = {
    'no file'  : Experiment([Env()],[Lrn()],[ByAction()]).run(),
    'with file': Experiment([Env()],[Lrn()],[ByAction()]).run(path),
    'from_file': Result.from_file(path)
}

bad = False
for name,result in results.items():
    actual = [fields(r) for r in result.interactions.to_dicts()]
    print(f"recorded ({name:9})            :", actual, "columns:", result.interactions.columns[4:])
    if actual != expected: bad = True

print("I record in the file            :", [l for l in open(path).read().splitlines() if l.startswith('["I"')][0])

if bad:
    print("\nVIOLATION: the fields 1, 1.0 and True were recorded as a single field (named after the first of them seen)")
    sys.exit(1)

print("\nOK: every field was recorded under its own name")
sys.exit(0)
