"""
C07: with processes>1 a result that can't be PICKLED in the worker vanishes without a trace in coba's log.

Workers hand their results to a multiprocessing.Queue (QueueSink.write -> Queue.put). put() only buffers the
object; it is pickled later by the queue's feeder thread. When that fails the feeder thread prints a traceback to
the worker's stderr and drops the item (and, when the worker is already exiting, everything buffered behind it).
Nothing reaches coba: no exception is logged by CobaContext.logger, the evaluation is logged as "(completed)", the
experiment as "Finished", and the triple is simply not in the result. (The way INTO the workers is pickled
explicitly with a helpful CobaException; the way back is not.)

The rows here are fine for the result log (json can encode a defaultdict) and the same experiment is complete
with processes=1.
"""
import sys, time
from collections import defaultdict

from coba.experiments import Experiment
from coba.context import CobaContext
from coba.pipes import ListSink

class Env:
    def __init__(self,i): self.i = i
    @property
    def params(self): return {'i':self.i}
    def read(self):
        for i in range(4): yield {'context':i,'actions':['a','b'],'rewards':[0,1]}

class Lrn:
    params = {'family':'first'}
    def predict(self,c,a): return a[c%2]
    def learn(self,*a,**k): pass

class PlaysVal:
    def __init__(self, lam): self._lam = lam
    @property
    def params(self): return {'lam':self._lam}
    def evaluate(self, env, lrn):
        plays = defaultdict(lambda:0) if self._lam else defaultdict(int)
        for x in env.read():
            plays[lrn.predict(x['context'],x['actions'])] += 1
            yield {'reward':1, 'plays':plays.copy()}

def triples_in(result):
    return sorted(set(zip(*result.interactions[['environment_id','learner_id','evaluator_id']])))

if __name__ == '__main__':
    logs = []
    CobaContext.logger.sink = ListSink(logs)

    make = lambda: [(Env(i),Lrn(),PlaysVal(i==1)) for i in range(4)]

    one = Experiment(make()).run(quiet=False,processes=1)
    n1  = len(logs)
    two = Experiment(make()).run(quiet=False,processes=2)

    mp_logs = list(map(str,logs[n1:]))
    done    = sorted({l.split('Evaluating ')[1].split('...')[0] for l in mp_logs if 'Evaluating' in l and '(completed)' in l})
    errs    = [l for l in mp_logs if 'xception' in l or 'rror' in l]
    ended   = [l.split(' -- ')[-1] for l in mp_logs if 'Experiment' in l]

    time.sleep(.5)
    print()
    print("processes=1 triples:", triples_in(one))
    print("processes=2 triples:", triples_in(two))
    print("processes=2 coba log: completed evaluations:", done, "| errors:", errs, "| experiment:", ended)

    missing = sorted(set(triples_in(one))-set(triples_in(two)))
    if missing and not errs:
        print(f"VIOLATION: triples {missing} were evaluated to completion but are not in the result and coba logged no error "
              "(the only trace is the feeder thread's traceback on the worker's stderr above, if any)")
        sys.exit(1)
    sys.exit(0)
