"""
A result file that the current user may read but not write (an archived / shared result, a file
owned by somebody else, a read-only mount) cannot be loaded: Result.from_file opens it for UPDATE.

Exit code 1 when the violation shows, 0 when Result.from_file works on the read-only file.
"""
import os, sys, stat, tempfile, warnings, traceback
warnings.filterwarnings("ignore")

from coba.experiments import Experiment
from coba.results import Result
from coba.context import CobaContext, NullLogger

CobaContext.logger = NullLogger()

class Env:
    params = {'name':'e'}
    def read(self):
        for i in range(3): yield {'context':i,'actions':[0,1],'rewards':[0,1]}

class Lrn:
    params = {'name':'l'}
    def predict(self,c,a): return a[0],1
    def learn(self,*a,**k): pass

class Val:
    params = {'name':'v'}
    def evaluate(self,env,lrn):
        yield {'reward':1.0}
        yield {'reward':0.5}

def check(path):
    """returns 0 when the file could be loaded and holds what was written, 1 otherwise"""
    with open(path,'rb') as f: n_bytes = len(f.read()) #reading is allowed
    print(f"  open(path,'rb') works: {n_bytes} bytes")
    try:
        loaded = Result.from_file(path)
    except Exception as e:
        print(f"  Result.from_file raised {type(e).__name__}: {e}")
        return 1
    rows = list(loaded.interactions.to_dicts())
    print(f"  Result.from_file returned {len(rows)} interaction rows")
    return 0 if len(rows) == 2 else 1

failed = 0
for suffix in ['.log','.log.gz']:
    d = tempfile.mkdtemp()
    os.chmod(d, 0o755)
    path = os.path.join(d,'result'+suffix)

    returned = Experiment([Env()],[Lrn()],[Val()]).run(path,quiet=True)
    assert len(returned.interactions) == 2

    os.chmod(path, stat.S_IRUSR|stat.S_IRGRP|stat.S_IROTH) #0444: everybody may read, nobody may write
    print(f"{path} (mode 0444)")

    if os.geteuid() != 0:
        failed |= check(path)
    else:
        #root ignores file modes so the check is made by a child that has given up root
        sys.stdout.flush()
        pid = os.fork()
        if pid == 0:
            code = 1
            try:
                os.setgroups([]); os.setgid(65534); os.setuid(65534)
                code = check(path)
            except BaseException:
                traceback.print_exc()
            finally:
                sys.stdout.flush()
                os._exit(code)
        failed |= os.waitstatus_to_exitcode(os.waitpid(pid,0)[1])

if failed:
    print("VIOLATION: a complete, readable result file can't be loaded with Result.from_file because it is opened with mode 'rt+'")
sys.exit(1 if failed else 0)
