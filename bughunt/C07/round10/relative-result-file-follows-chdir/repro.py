"""
Experiment.run('result.log') (a relative path - the usual way to call it) does not bind the result file when the run
starts: DiskSink re-opens the path for EVERY record and DiskSource opens it again at the end. A component that changes
the working directory while it is evaluated (a model library that changes into its model directory, a data loader that
does os.chdir(data_dir), ...) therefore splits the log over two directories: the records of all triples completed
after the chdir go to a new file without header, and the read at the end of Experiment.run hits that file and raises
StopIteration - no Result is returned although every triple was completed; neither of the two files holds the result.

Exit code 1 when the violation shows, 0 otherwise.
"""
import os, sys, tempfile, warnings
warnings.filterwarnings("ignore")

from coba.experiments import Experiment
from coba.results import Result
from coba.context import CobaContext, NullLogger

CobaContext.logger = NullLogger()

start_dir = tempfile.mkdtemp()
model_dir = tempfile.mkdtemp()

class Env:
    def __init__(self,i): self.params = {'i':i}
    def read(self):
        for i in range(3): yield {'context':i,'actions':[0,1],'rewards':[0,1]}

class Lrn:
    params = {'name':'uses a library that changes into its model directory'}
    def predict(self,c,a):
        os.chdir(model_dir)
        return a[0],1
    def learn(self,*a,**k): pass

class Val:
    params = {}
    def evaluate(self,env,lrn):
        for x in env.read():
            lrn.predict(x['context'],x['actions'])
            yield {'reward':float(x['context'])}

def experiment(): return Experiment([Env(0),Env(1)],[Lrn()],[Val()])

os.chdir(start_dir)
expected = experiment().run() #no file
os.chdir(start_dir)
print(f"without a file: {len(expected.interactions)} interaction rows for the triples {sorted(set(zip(*expected.interactions[['environment_id','learner_id','evaluator_id']])))}")

failed = False
try:
    returned = experiment().run('result.log')
    print(f"with result.log: {len(returned.interactions)} interaction rows")
    failed |= returned.interactions != expected.interactions
except BaseException as e:
    print(f"with result.log: Experiment.run raised {type(e).__name__}({e}) instead of returning the Result")
    failed = True

for d in [start_dir,model_dir]:
    p = os.path.join(d,'result.log')
    if os.path.exists(p):
        print(f"{p}:")
        for line in open(p).read().splitlines(): print("    "+line[:100])
        try:
            loaded = Result.from_file(p)
            print(f"  Result.from_file: {len(loaded.interactions)} interaction rows, {len(loaded.learners)} learners")
            ok = loaded.interactions == expected.interactions and loaded.learners == expected.learners
        except BaseException as e:
            print(f"  Result.from_file raised {type(e).__name__}({e})")
            ok = False
        if d == start_dir: failed |= not ok
    else:
        print(f"{p}: does not exist")

if failed:
    print("VIOLATION: the records of one run are spread over two files, Experiment.run raises, no file gives the Result")
sys.exit(1 if failed else 0)
