"""
Non-string field names are documented to be read back as strings. For the rows of an evaluator that is str(name):
None -> 'None', True -> 'True'. For the params of environments, learners and evaluators the names None, True and False
come back as 'null', 'true' and 'false' (JSON spelling), so the same name is recorded differently in the interactions
table and in the environments / learners / evaluators tables.

Exit code 1 when the violation shows, 0 otherwise.
"""
import os, sys, tempfile, warnings
warnings.filterwarnings("ignore")

from coba.experiments import Experiment
from coba.results import Result
from coba.context import CobaContext, NullLogger

CobaContext.logger = NullLogger()

#e.g. counts per label where a missing label is None, or per outcome where the outcome is a bool
NAMES = {None:3, True:2, False:1, 7:4, 2.5:5}

class Env:
    params = dict(NAMES)
    def read(self):
        for i in range(3): yield {'context':i,'actions':[0,1],'rewards':[0,1]}

class Lrn:
    params = dict(NAMES)
    def predict(self,c,a): return a[0],1
    def learn(self,*a,**k): pass

class Val:
    params = dict(NAMES)
    def evaluate(self,env,lrn):
        yield dict(NAMES)

path = os.path.join(tempfile.mkdtemp(),'result.log')
results = {'no file':Experiment([Env()],[Lrn()],[Val()]).run(), 'file':Experiment([Env()],[Lrn()],[Val()]).run(path), 'from_file':Result.from_file(path)}

want = {str(k):v for k,v in NAMES.items()}
print(f"given names : {list(NAMES)}")
print(f"as strings  : {list(want)}")

failed = False
for name,result in results.items():
    print(f"[{name}]")
    for table,skip in [('interactions',['environment_id','learner_id','evaluator_id','index']),('environments',['environment_id','env_type']),('learners',['learner_id','family']),('evaluators',['evaluator_id','eval_type'])]:
        row = {k:v for k,v in next(getattr(result,table).to_dicts()).items() if k not in skip}
        ok  = row == want
        print(f"  {table:13}: {sorted(row)} {'ok' if ok else '<-- WRONG'}")
        failed |= not ok

if failed:
    print("VIOLATION: the names None/True/False of params are not recorded as their strings ('None','True','False') but as 'null','true','false'")
sys.exit(1 if failed else 0)
