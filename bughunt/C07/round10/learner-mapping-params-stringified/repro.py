"""
Learner.params is documented as Mapping[str,Any]. A learner whose params is a Mapping that is not a `dict`
(types.MappingProxyType to keep it read-only, a ChainMap of defaults and overrides, a UserDict, a frozen mapping...)
is recorded as ONE string column 'params' holding str(mapping) -- silently, nothing is logged. The very same mapping
returned by an environment or an evaluator is recorded key by key.

Exit code 1 when the violation shows, 0 otherwise.
"""
import os, sys, tempfile, warnings
warnings.filterwarnings("ignore")
from types import MappingProxyType
from collections import ChainMap

from coba.experiments import Experiment
from coba.results import Result
from coba.context import CobaContext, BasicLogger
from coba.pipes import ListSink

logs = []
CobaContext.logger = BasicLogger(ListSink(logs))

class Env:
    def __init__(self,params): self.params = params
    def read(self):
        for i in range(3): yield {'context':i,'actions':[0,1],'rewards':[0,1]}

class Lrn:
    def __init__(self,params): self._params = params
    @property
    def params(self): return self._params
    def predict(self,c,a): return a[0],1
    def learn(self,*a,**k): pass

class Val:
    def __init__(self,params): self.params = params
    def evaluate(self,env,lrn):
        yield {'reward':1.0}

def normal(params):
    #the documented normalisation: floats rounded to 5 decimals, top-level sequences as tuples, names as strings
    return {str(k):(tuple(v) if isinstance(v,(list,tuple)) else round(v,5) if isinstance(v,float) else v) for k,v in params.items()}

given = [
    MappingProxyType({'epsilon':0.1,'features':['a','xa'],'seed':3}),
    ChainMap({'epsilon':0.25},{'epsilon':0.1,'seed':3}),
]

failed = False
for params in given:
    path = os.path.join(tempfile.mkdtemp(),'result.log')
    lrn  = Lrn(params)
    exp  = lambda: Experiment([Env(params)],[lrn],[Val(params)])

    results = { 'no file':exp().run(), 'file':exp().run(path), 'from_file':Result.from_file(path) }

    want = normal(params)
    print(f"params given by the environment, the learner and the evaluator: {type(params).__name__} {dict(params)}")
    for name,result in results.items():
        env = {k:v for k,v in next(result.environments.to_dicts()).items() if k not in ['environment_id','env_type' ]}
        val = {k:v for k,v in next(result.evaluators  .to_dicts()).items() if k not in ['evaluator_id'  ,'eval_type']}
        row = {k:v for k,v in next(result.learners    .to_dicts()).items() if k not in ['learner_id'    ,'family'   ]}
        print(f"  [{name:9}] environments row: {env}")
        print(f"  [{name:9}] evaluators   row: {val}")
        print(f"  [{name:9}] learners     row: {row}   {'ok' if row==want else '<-- WRONG, wanted '+str(want)}")
        assert env == want and val == want, "environment/evaluator params are expected to be recorded as given"
        failed |= row != want

print("anything logged about it:", [l for l in logs if 'xception' in l.lower() or 'error' in l.lower() or 'params' in l.lower() and 'Recording' not in l])

if failed:
    print("VIOLATION: the learners table does not hold the learner's params (one string column instead of the params)")
sys.exit(1 if failed else 0)
