"""
A param whose name is the name of the table's own id column (learner_id in a learner's params, environment_id in
an environment's params, evaluator_id in an evaluator's params) REPLACES the id of the row: the learners table then
has no row for the id that the interactions refer to, and a resumed experiment doesn't recognise the learner as
recorded.  (The known issue is the other direction and another table: row fields of the interactions table with these
names are overwritten by the table's columns.)

Exit code 1 when the violation shows, 0 otherwise.
"""
import os, sys, tempfile, warnings
warnings.filterwarnings("ignore")

from coba.experiments import Experiment
from coba.results import Result
from coba.context import CobaContext, NullLogger

CobaContext.logger = NullLogger()

class Env:
    def __init__(self,params): self.params = params
    def read(self):
        for i in range(3): yield {'context':i,'actions':[0,1],'rewards':[0,1]}

class Lrn:
    #e.g. a policy that replays what learner 7 of an earlier experiment did
    def __init__(self,params): self.params = params
    def predict(self,c,a): return a[0],1
    def learn(self,*a,**k): pass

class Val:
    def __init__(self,params): self.params = params
    def evaluate(self,env,lrn):
        yield {'reward':1.0}

envs = [Env({'name':'A','environment_id':5})]
lrns = [Lrn({'name':'fresh'}), Lrn({'name':'replay','learner_id':7,'source':'earlier.log'})]
vals = [Val({'evaluator_id':9})]

path = os.path.join(tempfile.mkdtemp(),'result.log')
results = {'no file':Experiment(envs,lrns,vals).run(), 'file':Experiment(envs,lrns,vals).run(path), 'from_file':Result.from_file(path)}

failed = False
for name,result in results.items():
    int_ids = sorted(set(zip(*result.interactions[['environment_id','learner_id','evaluator_id']])))
    env_ids = list(result.environments['environment_id'])
    lrn_ids = list(result.learners['learner_id'])
    val_ids = list(result.evaluators['evaluator_id'])
    print(f"[{name}]")
    print(f"  ids of the completed triples in interactions: {int_ids}")
    print(f"  environments.environment_id = {env_ids}   learners.learner_id = {lrn_ids}   evaluators.evaluator_id = {val_ids}")
    print(f"  learners rows: {list(result.learners.to_dicts())}")
    ok = env_ids == [0] and lrn_ids == [0,1] and val_ids == [0]
    if not ok: print("  <-- the tables' id columns don't hold the ids of the components the interactions refer to")
    failed |= not ok

#a second run on the same file: everything is there, nothing should be written
before = open(path).read().splitlines()
Experiment(envs,lrns,vals).run(path)
after = open(path).read().splitlines()
print(f"records added by resuming the finished experiment: {after[len(before):]}")
failed |= len(after) != len(before)

if failed:
    print("VIOLATION: a param named like the table's id column replaces the id of the component's row")
sys.exit(1 if failed else 0)
