"""
C07: when a write to the result file fails part-way (disk full / quota / file size limit) the record that was
being written is left torn at the end of the file. Experiment.run notices the failure ("Experiment Failed") and
then tries to give back what was written - but reading the file back trips over the torn record, so run() raises
JSONDecodeError (for .gz: EOFError) instead of returning the completed triples, and Result.from_file raises too.
Only a later Experiment.run(result_file) (the restore path) knows how to skip a torn tail.

The write failure here is a real one produced by the OS: RLIMIT_FSIZE makes write() stop (short write, then EFBIG)
once the file reaches the limit, exactly like a full disk (ENOSPC) or an exhausted quota (EDQUOT) would.
"""
import os, sys, signal, resource, tempfile, json

from coba.experiments import Experiment
from coba.results import Result
from coba.context import CobaContext
from coba.pipes import ListSink

class Env:
    def __init__(self,i): self.i=i
    @property
    def params(self): return {'i':self.i}
    def read(self):
        for i in range(3): yield {'context':i,'actions':[0,1],'rewards':[0,1]}

class Lrn:
    params = {'family':'L'}
    def predict(self,c,a): return a[0]
    def learn(self,*a,**k): pass

class Val:
    params = {}
    def evaluate(self, env, lrn):
        #a few hundred bytes per triple
        for i in range(20): yield {'reward': i/7, 'note': 'x'*10}

def main(ext):
    logs = []
    CobaContext.logger.sink = ListSink(logs)

    path = os.path.join(tempfile.mkdtemp(), f"result.log{ext}")
    triples = [(Env(i),Lrn(),Val()) for i in range(6)]

    #1. find out how large the complete file is
    full = os.path.join(tempfile.mkdtemp(), f"full.log{ext}")
    expected = Experiment(triples).run(full,quiet=True)
    size = os.path.getsize(full)
    limit = int(size*.7) #the "disk" is full when 70% has been written

    #2. run with the limit in place
    signal.signal(signal.SIGXFSZ, signal.SIG_IGN)
    soft,hard = resource.getrlimit(resource.RLIMIT_FSIZE)
    resource.setrlimit(resource.RLIMIT_FSIZE,(limit,hard))
    try:
        try:
            result = Experiment(triples).run(path,quiet=True)
            outcome = None
        except BaseException as e:
            result,outcome = None,e
    finally:
        resource.setrlimit(resource.RLIMIT_FSIZE,(soft,hard))

    print(f"[{ext or 'plain'}] complete file is {size} bytes, writes were cut off at {limit} bytes; file now has {os.path.getsize(path)} bytes")
    print(f"[{ext or 'plain'}] coba logged:", [str(l).strip().splitlines()[-1][:90] for l in logs])

    bad = False
    if outcome is not None:
        print(f"[{ext or 'plain'}] VIOLATION: Experiment.run raised {type(outcome).__name__}: {str(outcome)[:100]}")
        bad = True
    else:
        n = len(set(zip(*result.interactions[['environment_id','learner_id','evaluator_id']])))
        print(f"[{ext or 'plain'}] Experiment.run returned a Result with {n} triples")

    try:
        from_file = Result.from_file(path)
        n = len(set(zip(*from_file.interactions[['environment_id','learner_id','evaluator_id']])))
        print(f"[{ext or 'plain'}] Result.from_file gives {n} triples")
    except BaseException as e:
        print(f"[{ext or 'plain'}] VIOLATION: Result.from_file raised {type(e).__name__}: {str(e)[:100]}")
        bad = True

    #the completed triples are all there, it is only the torn tail that gets in the way. The restore path knows this:
    resumed = Experiment(triples).run(path,quiet=True)
    n = len(set(zip(*resumed.interactions[['environment_id','learner_id','evaluator_id']])))
    print(f"[{ext or 'plain'}] (a second Experiment.run on the same file skips the torn tail and ends with {n} triples)")
    return bad

if __name__ == '__main__':
    bad = [main(''), main('.gz')]
    sys.exit(1 if any(bad) else 0)
