"""
C07: two different field names with the same str() (1 and '1', None and 'None', True and 'True', 1.5 and '1.5')
corrupt the packed record of the triple: the column gets one value per row PER colliding key, so the triple is
read back with MORE rows than the evaluator yielded (numbered 1..2N), values shifted, other columns misaligned.

TransactionEncode collects the distinct keys (1 and '1' are distinct dict keys) but appends under str(key).
"""
import sys

from coba.experiments import Experiment
from coba.context import CobaContext
from coba.pipes import ListSink

class Env:
    params = {}
    def read(self):
        yield {'context':0,'actions':[0,1],'rewards':[0,1]}

class Lrn:
    params = {}
    def predict(self,c,a): return a[0]
    def learn(self,*a,**k): pass

class PerArmVal:
    """Reports the running mean reward of every arm under the arm's name.
    Arms of the first phase are ints, a later phase (e.g. read from a csv) names the same arms with strings."""
    params = {}
    def evaluate(self, env, lrn):
        yield {'reward':1, 0:.5, 1:.25}
        yield {'reward':0, 0:.5, 1:.5}
        yield {'reward':1, '0':.75, '1':.5}

if __name__ == '__main__':
    logs = []
    CobaContext.logger.sink = ListSink(logs)

    yielded = list(PerArmVal().evaluate(None,None))
    result  = Experiment([(Env(),Lrn(),PerArmVal())]).run(quiet=True)
    rows    = list(result.interactions.to_dicts())

    print("yielded  :", yielded)
    print("read back:")
    for r in rows: print("   ", {k:v for k,v in r.items() if not k.endswith('_id')})
    print("logged   :", [str(l) for l in logs])

    try:
        import tempfile, os
        from coba.results import Result
        f = os.path.join(tempfile.mkdtemp(),'r.log')
        Experiment([(Env(),Lrn(),PerArmVal())]).run(f,quiet=True)
        print("file     :", open(f).read().splitlines()[-1])
    except Exception as e:
        print("with a file:", repr(e))

    expected = [{'reward':1,'0':.5,'1':.25},{'reward':0,'0':.5,'1':.5},{'reward':1,'0':.75,'1':.5}]
    got      = [{k:v for k,v in r.items() if k in ('reward','0','1')} for r in rows]

    col_lens = {c:len(result.interactions[c]) for c in result.interactions.columns}
    print("column lengths of the interactions table:", col_lens, "len(table):", len(result.interactions))

    if len(result.interactions) != 3 or len(set(col_lens.values())) != 1 or got != expected:
        print(f"VIOLATION: the evaluator yielded 3 rows; the interactions table reports {len(result.interactions)} rows, "
              f"its columns have different lengths and the values of rows 2 and 3 are wrong (see above)")
        sys.exit(1)
    sys.exit(0)
