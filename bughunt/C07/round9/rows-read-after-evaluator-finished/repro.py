"""
Rows are only looked at after the evaluator has finished (ProcessTasks does list(evaluate(...)) and the
record is encoded afterwards). Whatever changes between the moment a row is yielded and the end of the
evaluation is recorded with its final content - in every row.

 (1) built-in SequentialCB + a learner that reports its weights through CobaContext.learning_info (the documented
     way for a learner to get something into the result) and updates these weights in place, as learners do.
 (2) an evaluator (generator) that fills and yields one dict per interaction but re-uses the dict object.
"""
import sys, os, tempfile, warnings
warnings.filterwarnings("ignore")

from coba.environments import Environments
from coba.experiments import Experiment
from coba.evaluators import SequentialCB
from coba.results import Result
from coba.context import CobaContext

CobaContext.logger.sink = type("S",(),{"write":lambda self,x: None})()

class CountingLearner:
    """Counts how often each action was played and reports the counts with every learn call."""
    def __init__(self): self._counts = [0,0,0]
    @property
    def params(self): return {'family':'counting'}
    def predict(self, context, actions):
        return actions[sum(self._counts)%3]
    def learn(self, context, action, reward, probability):
        self._counts[sum(self._counts)%3] += 1        #in place, like the weights of any online learner
        CobaContext.learning_info['counts'] = self._counts

class Spy:
    def __init__(self,inner): self.inner,self.rows = inner,[]
    @property
    def params(self): return self.inner.params
    def evaluate(self,env,lrn):
        for row in self.inner.evaluate(env,lrn):
            self.rows.append({k:(list(v) if isinstance(v,list) else v) for k,v in row.items()}) #what the row holds when it is yielded
            yield row

class ReusingEvaluator:
    params = {}
    def evaluate(self,env,lrn):
        out = {}
        for i,interaction in enumerate(env.read()):
            out['i'] = i
            out['n_actions'] = len(interaction['actions'])
            yield out

failed = False
envs   = Environments.from_linear_synthetic(4,n_actions=3,n_context_features=1,n_action_features=0,seed=1)

with tempfile.TemporaryDirectory() as d:
    path = os.path.join(d,"r.log")

    spy = Spy(SequentialCB(record=['reward']))
    res = Experiment(envs,CountingLearner(),spy).run(path,quiet=True)
    yielded = [tuple(r['counts']) for r in spy.rows]
    logged  = list(res.interactions['counts'])
    in_file = list(Result.from_file(path).interactions['counts'])
    print("(1) 'counts' in the rows when SequentialCB yielded them:", yielded)
    print("    'counts' in the Result returned by run             :", logged)
    print("    'counts' in Result.from_file                       :", in_file)
    if logged != yielded or in_file != yielded: failed = True

    res = Experiment(envs,CountingLearner(),ReusingEvaluator()).run(quiet=True)
    logged = list(res.interactions['i'])
    print("(2) the evaluator yielded rows with i = [0, 1, 2, 3], the Result has i =", logged)
    if logged != [0,1,2,3]: failed = True

sys.exit(1 if failed else 0)
