"""
A Ctrl-C that arrives while a record is being written to a .gz result file makes Experiment.run
raise (EOFError / BadGzipFile) instead of returning the Result with the triples that were completed.
Result.from_file on the file raises too.

gzip writes are done by python code (gzip.GzipFile._write_raw / close / _write_gzip_header), so unlike for
plain files the KeyboardInterrupt of a Ctrl-C can be raised between any two of their steps. DiskSink opens a
new gzip member for every record, so this code runs all the time in the main process (with processes>1 the
main process does hardly anything else).

The Ctrl-C is delivered for real (signal.raise_signal(SIGINT) -> python's default handler -> KeyboardInterrupt)
at a deterministic point: when GzipFile.close is about to write the CRC of the member of the second "I" record.
"""
import sys, os, gzip, json, signal, tempfile, warnings
warnings.filterwarnings("ignore")

from coba.experiments import Experiment
from coba.results import Result
from coba.context import CobaContext

LOGS = []
CobaContext.logger.sink = type("S",(),{"write":lambda self,x: LOGS.append(str(x))})()

class Env:
    def __init__(self,i): self.params = {'i':i}
    def read(self): return [{'context':1,'actions':[1,2],'rewards':[0,1]}]
class Lrn:
    params = {}
    def predict(self,c,a): return a[0]
    def learn(self,*a,**k): pass
class Val:
    params = {}
    def evaluate(self,env,lrn): return [{'reward':env.params['i']},{'reward':env.params['i']+.5}]

def experiment(): return Experiment([Env(0),Env(1),Env(2)],Lrn(),Val())

with tempfile.TemporaryDirectory() as d:

    #dry run: which gzip member holds the second "I" record?
    dry = os.path.join(d,"dry.log.gz")
    expected = experiment().run(dry,quiet=True)
    assert len(expected.interactions) == 6
    lines  = [l for l in gzip.open(dry,'rt').read().splitlines() if l.strip()]
    member = [i for i,l in enumerate(lines,1) if json.loads(l)[0]=="I"][1] #1-based, one member per record

    #every member calls write32u three times: mtime (header), crc and size (close)
    target = 3*(member-1) + 2
    calls  = [0]
    real_write32u = gzip.write32u

    def write32u(output, value):
        calls[0] += 1
        if calls[0] == target:
            signal.raise_signal(signal.SIGINT) #the user presses Ctrl-C right now
        return real_write32u(output, value)

    gzip.write32u = write32u

    path = os.path.join(d,"real.log.gz")
    failed = False

    try:
        result = experiment().run(path)
    except BaseException as e:
        failed = True
        print(f"Experiment.run raised {type(e).__name__}: {e}")
        print("  coba's log says:", [l.split('-- ')[-1] for l in LOGS if 'Experiment' in l])
    else:
        rows = list(result.interactions.to_dicts())
        print("Experiment.run returned", len(rows), "rows")
        #the first triple was completely written before the Ctrl-C, it has to be there
        if [r['reward'] for r in rows if r['environment_id']==0] != [0,0.5]:
            failed = True
            print("  the rows of the first (completed) triple are missing:", rows)
    finally:
        gzip.write32u = real_write32u

    try:
        rows = list(Result.from_file(path).interactions.to_dicts())
        print("Result.from_file gives", len(rows), "rows")
    except BaseException as e:
        failed = True
        print(f"Result.from_file raised {type(e).__name__}: {e}")

    #for comparison: resuming repairs the file (so the completed triple is in the file, coba just doesn't hand it out)
    resumed = experiment().run(path,quiet=True)
    print("after resuming the experiment the result has", len(resumed.interactions), "rows (expected 6)")

sys.exit(1 if failed else 0)
