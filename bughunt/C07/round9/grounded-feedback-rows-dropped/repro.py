"""
The default evaluator (SequentialCB) on a grounded (IGL) environment: every row of every triple is lost.

SequentialCB copies every interaction field it doesn't know into its rows (userid, isnormal, feedbacks for
a grounded environment). 'feedbacks' is a Grounded.GroundedFeedback object which coba.json can't encode, and
one value that can't be encoded makes TransactionEncode drop the whole "I" record. Everything is built in,
nothing is user defined.
"""
import sys, os, tempfile, warnings
warnings.filterwarnings("ignore")

from coba.environments import Environments
from coba.experiments import Experiment
from coba.evaluators import SequentialCB
from coba.learners import RandomLearner
from coba.results import Result
from coba.context import CobaContext

LOGS = []
CobaContext.logger.sink = type("S",(),{"write":lambda self,x: LOGS.append(str(x))})()

class Spy:
    """Hands through what SequentialCB yields and remembers it (so that we know what should be in the log)."""
    def __init__(self): self.inner,self.rows = SequentialCB(),[]
    @property
    def params(self): return self.inner.params
    def evaluate(self,env,lrn):
        for row in self.inner.evaluate(env,lrn):
            self.rows.append(dict(row))
            yield row

def environments():
    return Environments.from_linear_synthetic(10,n_actions=3,n_context_features=2,n_action_features=0,seed=1).grounded(5,3,4,2)

failed = False

with tempfile.TemporaryDirectory() as d:
    for result_file in [None, os.path.join(d,"r.log"), os.path.join(d,"r.log.gz")]:
        LOGS.clear()
        spy    = Spy()
        result = Experiment(environments(), RandomLearner(), spy).run(result_file,quiet=True)
        n_rows = len(result.interactions)
        n_file = len(Result.from_file(result_file).interactions) if result_file else None
        print(f"result_file={os.path.basename(result_file) if result_file else None}: the evaluator yielded {len(spy.rows)} rows, "
              f"Experiment.run returned {n_rows} rows" + (f", Result.from_file has {n_file} rows" if result_file else ""))
        if n_rows != len(spy.rows) or (result_file and n_file != len(spy.rows)): failed = True

    print("first yielded row:", spy.rows[0])
    print("logged by coba   :", [l.strip().splitlines()[-1].strip() for l in LOGS if 'rror' in l])

    #the same with the plain, undecorated call a user would write
    plain = Experiment(environments(), RandomLearner()).run(quiet=True)
    print("Experiment(environments.grounded(...), RandomLearner()).run() ->", plain.interactions)
    if len(plain.interactions) != 10: failed = True

sys.exit(1 if failed else 0)
