"""
SafeEnvironment.params / SafeLearner.params / SafeEvaluator.params write 'env_type' / 'family' / 'eval_type'
INTO the object the component returned from its params property.

 (1) components that return the same dict (a shared config, a module level constant) get each other's keys:
     the environments table gets a 'family' (and 'eval_type') column, a second learner class is recorded with
     the first one's family.
 (2) a component whose params is a read-only Mapping (legal: the interface says Mapping[str,Any]) loses its row
     (environment, evaluator) or gets {'params': "<str of the mapping>"} instead of its params (learner).
"""
import sys, warnings
warnings.filterwarnings("ignore")
from types import MappingProxyType

from coba.experiments import Experiment
from coba.context import CobaContext

LOGS = []
CobaContext.logger.sink = type("S",(),{"write":lambda self,x: LOGS.append(str(x))})()

class Env:
    def __init__(self,params): self._params = params
    @property
    def params(self): return self._params
    def read(self): return [{'context':1,'actions':[1,2],'rewards':[0,1]}]

class LearnerA:
    def __init__(self,params): self._params = params
    @property
    def params(self): return self._params
    def predict(self,c,a): return a[0]
    def learn(self,*a,**k): pass

class LearnerB(LearnerA): pass

class Val:
    def __init__(self,params): self._params = params
    @property
    def params(self): return self._params
    def evaluate(self,env,lrn): return [{'reward':1}]

def rows(table,id_col): return [{k:v for k,v in r.items() if k!=id_col and v is not None} for r in table.to_dicts()]

failed = False

# (1) one config dict describes the whole set-up and every component reports it
config = {'dim':5, 'noise':0.1}
res = Experiment(Env(config),[LearnerA(config),LearnerB(config)],Val({'k':1})).run(quiet=True)
envs,lrns = rows(res.environments,'environment_id'), rows(res.learners,'learner_id')
print("(1) every component's params is {'dim':5,'noise':0.1} (+ its own type)")
print("    environments table:", envs)
print("    learners table    :", lrns)
if envs != [{'dim':5,'noise':0.1,'env_type':'Env'}]: failed = True
if lrns != [{'dim':5,'noise':0.1,'family':'LearnerA'},{'dim':5,'noise':0.1,'family':'LearnerB'}]: failed = True

# (2) read-only mappings
LOGS.clear()
ro  = lambda **kw: MappingProxyType(kw)
res = Experiment(Env(ro(a=1)),LearnerA(ro(b=2)),Val(ro(c=3))).run(quiet=True)
envs,lrns,vals = rows(res.environments,'environment_id'), rows(res.learners,'learner_id'), rows(res.evaluators,'evaluator_id')
print("(2) params are read-only mappings {'a':1} / {'b':2} / {'c':3}")
print("    environments table:", envs)
print("    learners table    :", lrns)
print("    evaluators table  :", vals)
print("    logged by coba    :", sorted(set(l.strip().splitlines()[-1].strip() for l in LOGS if 'rror' in l)))
if envs != [{'a':1,'env_type':'Env'}] or lrns != [{'b':2,'family':'LearnerA'}] or vals != [{'c':3,'eval_type':'Val'}]: failed = True

sys.exit(1 if failed else 0)
