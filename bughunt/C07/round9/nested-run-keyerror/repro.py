"""
Experiment.run inside Experiment.run (an evaluator, learner or environment that runs a small experiment of
its own, e.g. to tune something or to create logged data) : the inner run deletes CobaContext.store['experiment_seed'],
the outer run evaluates everything and then raises KeyError('experiment_seed') instead of returning the Result.
Without a result file everything that was computed is gone; with a file the outer call still raises.
Two experiments run at the same time from two threads end the same way.
"""
import sys, os, tempfile, warnings
warnings.filterwarnings("ignore")

from coba.environments import Environments
from coba.experiments import Experiment
from coba.evaluators import SequentialCB
from coba.learners import RandomLearner, BanditEpsilonLearner
from coba.results import Result
from coba.context import CobaContext

CobaContext.logger.sink = type("S",(),{"write":lambda self,x: None})()

class TunedEpsilon:
    """Before the first prediction picks epsilon with a small experiment on a synthetic problem."""
    def __init__(self): self._learner = None
    @property
    def params(self): return {'family':'tuned_epsilon'}
    def _tune(self):
        sim  = Environments.from_linear_synthetic(20,n_actions=2,n_context_features=0,n_action_features=0,seed=3)
        lrns = [BanditEpsilonLearner(e) for e in (.05,.3)]
        res  = Experiment(sim,lrns).run(quiet=True)
        mean = lambda l: sum(res.interactions.where(learner_id=l)['reward'])/20
        return lrns[max([0,1],key=mean)]
    def predict(self,context,actions):
        if self._learner is None: self._learner = self._tune()
        return self._learner.predict(context,actions)
    def learn(self,*args,**kwargs):
        self._learner.learn(*args,**kwargs)

envs   = Environments.from_linear_synthetic(10,n_actions=2,n_context_features=0,n_action_features=0,seed=1)
failed = False

with tempfile.TemporaryDirectory() as d:
    for result_file in [None, os.path.join(d,"r.log")]:
        try:
            result = Experiment(envs,[TunedEpsilon(),RandomLearner()]).run(result_file,quiet=True)
            print(f"result_file={result_file and 'r.log'}: run returned {len(result.interactions)} rows (expected 20)")
            if len(result.interactions) != 20: failed = True
        except BaseException as e:
            failed = True
            print(f"result_file={result_file and 'r.log'}: Experiment.run raised {type(e).__name__}({e})")
            if result_file:
                print("    ... although the file holds", len(Result.from_file(result_file).interactions), "rows (both triples completed)")
            print("    experiment_seed still in CobaContext.store:", 'experiment_seed' in CobaContext.store)

sys.exit(1 if failed else 0)
