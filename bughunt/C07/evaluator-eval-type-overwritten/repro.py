"""
C07: the evaluators table does not hold an evaluator's own params when they include 'eval_type': SafeEvaluator.params
ALWAYS replaces it with the class (or function) name - unlike environments ('env_type') and learners ('family'),
whose own value is kept and only filled in when absent. It also writes the name into the evaluator's own dict.
"""
import sys

from coba.experiments import Experiment
from coba.context import CobaContext
from coba.pipes import ListSink

class Env:
    params = {'env_type':'my_env'}
    def read(self):
        yield {'context':0,'actions':[0,1],'rewards':[0,1]}

class Lrn:
    params = {'family':'my_family'}
    def predict(self,c,a): return a[0]
    def learn(self,*a,**k): pass

class Holdout:
    """One class, several kinds of evaluation: the kind is reported as 'eval_type'."""
    def __init__(self, kind): self._params = {'eval_type':kind, 'folds':5}
    @property
    def params(self): return self._params
    def evaluate(self, env, lrn):
        yield {'reward':1}

if __name__ == '__main__':
    CobaContext.logger.sink = ListSink([])

    vals   = [Holdout('holdout'),Holdout('cross-val')]
    given  = [dict(v.params) for v in vals]
    result = Experiment([Env()],[Lrn()],vals).run(quiet=True)

    print("environments:", list(result.environments.to_dicts()))
    print("learners    :", list(result.learners.to_dicts()))
    print("evaluators  :", list(result.evaluators.to_dicts()))
    print("params given:", given)
    print("params now  :", [v.params for v in vals])

    got = [{k:v for k,v in d.items() if k!='evaluator_id'} for d in result.evaluators.to_dicts()]
    if got != given:
        print("VIOLATION: the evaluators table doesn't hold the evaluators' params: 'eval_type' was replaced by the class name "
              "(env_type and family given by the environment/learner were kept)")
        sys.exit(1)
    sys.exit(0)
