"""
C07: a learner whose params say family='vw' but don't have 'args' and 'seed' makes every way of getting at the
result fail: Result.__init__ builds a display name for each learner and for family 'vw' reads value['args'] and
value['seed'] unconditionally. Experiment.run raises KeyError after the whole experiment has been evaluated and
written, and Result.from_file raises KeyError for the file.
"""
import sys, os, tempfile

from coba.experiments import Experiment
from coba.results import Result
from coba.context import CobaContext
from coba.pipes import ListSink

class Env:
    params = {}
    def read(self):
        for i in range(3): yield {'context':i,'actions':[0,1],'rewards':[0,1]}

class MyVW:
    """A user's own wrapper around vowpal wabbit (here without the package) that describes itself its own way."""
    def __init__(self, lr): self._lr = lr
    @property
    def params(self): return {'family':'vw', 'learning_rate':self._lr, 'interactions':'xxa'}
    def predict(self,c,a): return a[0]
    def learn(self,*a,**k): pass

class Val:
    params = {}
    def evaluate(self, env, lrn):
        for i in range(3): yield {'reward':i}

if __name__ == '__main__':
    CobaContext.logger.sink = ListSink([])
    path = os.path.join(tempfile.mkdtemp(),'result.log')
    bad  = False

    for kwargs in [{}, {'result_file':path}]:
        try:
            result = Experiment([Env()],[MyVW(.1),MyVW(.5)],Val()).run(quiet=True,**kwargs)
            print(f"run({kwargs}) returned", len(result.interactions), "rows; learners:", list(result.learners.to_dicts()))
        except BaseException as e:
            print(f"VIOLATION: Experiment.run({kwargs}) raised {type(e).__name__}: {e}")
            bad = True

    print("the file holds:", [l[:60] for l in open(path).read().splitlines()])
    try:
        Result.from_file(path)
    except BaseException as e:
        print(f"VIOLATION: Result.from_file raised {type(e).__name__}: {e}")
        bad = True

    sys.exit(1 if bad else 0)
