"""
C07: with processes>1 the rows of completed triples silently disappear when ONE result can't be rebuilt in the parent.

The parent reads the workers' results with QueueSource.read, which wraps `queue.get()` in
`except (EOFError,BrokenPipeError,TypeError): pass`. queue.get() unpickles the item, and the most common way for
unpickling to fail is a TypeError (a str/tuple subclass whose __new__ takes other arguments than pickle hands it,
an exception class with a custom __init__, ...). That TypeError is swallowed, the read loop ends as if the workers
had sent their poison pill, Multiprocessor.filter drains and discards whatever else the workers produced and
returns normally: the log says every evaluation "(completed)" and "Experiment Finished", nothing is reported,
but the result (and the result file) only holds what arrived before the bad item.

Here the environment's actions are a small user-defined tuple subclass (hashable actions with a name). The default
SequentialCB records the chosen 'action' in every row. With processes=1 everything is logged. With processes=2
only the triples that arrived before the first such row survive.
"""
import sys, time

from coba.experiments import Experiment
from coba.evaluators import SequentialCB
from coba.context import CobaContext
from coba.pipes import ListSink

class Arm(tuple):
    """An action with a name and features."""
    def __new__(cls, name, feats):
        return super().__new__(cls,(name,*feats))
    @property
    def name(self): return self[0]

class Env:
    def __init__(self, i, arms, delay=0):
        self.i,self.arms,self.delay = i,arms,delay
    @property
    def params(self): return {'i':self.i, 'arms':self.arms}
    def read(self):
        time.sleep(self.delay)
        A = [Arm('a',[1,0]),Arm('b',[0,1])] if self.arms else [('a',1,0),('b',0,1)]
        for i in range(3): yield {'context':i,'actions':A,'rewards':[0,1]}

class Lrn:
    params = {'family':'first'}
    def predict(self,c,a): return a[0]
    def learn(self,*a,**k): pass

def triples_in(result):
    return sorted(set(zip(*result.interactions[['environment_id','learner_id','evaluator_id']])))

if __name__ == '__main__':
    logs = []
    CobaContext.logger.sink = ListSink(logs)

    #env 0 uses Arm actions and is evaluated first, the others use plain tuples and take a little longer
    make = lambda: [(Env(0,True),Lrn(),SequentialCB())] + [(Env(i,False,.3),Lrn(),SequentialCB()) for i in range(1,6)]

    one = Experiment(make()).run(quiet=False,processes=1)
    two = Experiment(make()).run(quiet=False,processes=2)

    done  = sorted({l.split('Evaluating ')[1].split('...')[0] for l in map(str,logs) if 'pid-' in l and 'Evaluating' in l and '(completed)' in l})
    ended = [str(l).split(' -- ')[-1] for l in logs if 'pid-' in str(l) and 'Experiment' in str(l)]
    errs  = [str(l) for l in logs if 'xception' in str(l) or 'rror' in str(l)]

    print("processes=1 triples:", triples_in(one))
    print("processes=2 triples:", triples_in(two))
    print("processes=2 log: evaluations reported as completed:", len(done), "| errors logged:", errs, "| experiment:", ended)
    print("processes=2 environments table ids:", list(two.environments['environment_id']))

    #Experiment.run came back while its workers were still busy (they now wait for work forever). We stop
    #our own children here so that the interpreter can shut down quietly.
    import multiprocessing
    time.sleep(2)
    for p in multiprocessing.active_children(): p.terminate()
    while multiprocessing.active_children(): time.sleep(.1)
    time.sleep(.5)

    missing  = sorted(set(triples_in(one))-set(triples_in(two)))
    silent   = not errs
    finished = 'Experiment Finished' in ended
    others   = [m for m in missing if m != (0,0,0)] #(0,0,0) is the triple whose rows can't be unpickled

    if missing and (silent or (others and finished)):
        print(f"VIOLATION: {len(missing)} completed triples are missing from the multi-process result without any error: {missing}")
        sys.exit(1)
    sys.exit(0)
