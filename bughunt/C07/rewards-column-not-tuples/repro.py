"""
C07 (minor): top-level sequences in rows are read back as tuples - except in a field that happens to be called
'rewards', which is read back as lists. The same value in any other field ('actions', 'probs', ...) is a tuple, so
row['rewards'] == row['actions'] is False after the round trip although the evaluator yielded equal values, and
comparing a Result against the yielded rows under the documented normalisation fails for this one field name.
"""
import sys

from coba.experiments import Experiment
from coba.environments import Environments
from coba.learners import RandomLearner
from coba.evaluators import SequentialCB
from coba.context import CobaContext
from coba.pipes import ListSink

class Val:
    params = {}
    def evaluate(self, env, lrn):
        yield {'rewards':[1,0], 'scores':[1,0]}
        yield {'rewards':(0,1), 'scores':(0,1)}

class Env:
    params = {}
    def read(self): yield {'context':0,'actions':[0,1],'rewards':[0,1]}

if __name__ == '__main__':
    CobaContext.logger.sink = ListSink([])

    rows = list(Experiment([(Env(),RandomLearner(),Val())]).run(quiet=True).interactions.to_dicts())
    for r in rows: print({k:v for k,v in r.items() if k in ('rewards','scores')})

    #the built in evaluator: 'actions' comes back as a tuple, 'rewards' as a list
    envs = Environments.from_linear_synthetic(2,n_actions=2,n_context_features=1,n_action_features=0)
    for r in Experiment(envs,RandomLearner(),SequentialCB(record=['actions','rewards'])).run(quiet=True).interactions.to_dicts():
        print({k:v for k,v in r.items() if k in ('actions','rewards')})

    if any(not isinstance(r['rewards'],tuple) for r in rows):
        print("VIOLATION: the top-level sequence in field 'rewards' is not read back as a tuple (field 'scores' with the same value is)")
        sys.exit(1)
    sys.exit(0)
