import sys
import coba.random as cr
from coba.environments import Environments
from coba.primitives import SimulatedInteraction
from coba.experiments import Experiment
from coba.context import CobaContext, NullLogger

class NoisyEnv:
    #a deterministic user environment: its noise comes from coba.random's module level functions,
    #which ProcessTasks seeds with the experiment seed before every evaluation
    @property
    def params(self): return {'env_type':'NoisyEnv'}
    def read(self):
        for i in range(30):
            yield SimulatedInteraction([i%3], [0,1,2], [cr.random(),cr.random(),cr.random()])

class ModuleRandomLearner:
    def __init__(self,name): self._name=name
    @property
    def params(self): return {'family':'ModRand','name':self._name}
    def predict(self,context,actions): return cr.choice(actions)
    def learn(self,*a,**k): pass

def make():
    return Experiment(Environments.from_custom(NoisyEnv()).chunk(), [ModuleRandomLearner('a'),ModuleRandomLearner('b')])

def rows(r): return [ (d['environment_id'],d['learner_id'],d['index'],d['action'],d['reward']) for d in r.interactions.to_dicts() ]

if __name__ == '__main__':
    CobaContext.logger = NullLogger()
    a = rows(make().run(quiet=True,seed=5,processes=1))
    b = rows(make().run(quiet=True,seed=5,processes=2,maxtasksperchunk=1))
    print(len(a),len(b)); print("in-process first row:",a[0]); print("workers    first row:",b[0])
    diff = [ (x,y) for x,y in zip(a,b) if x!=y ]
    print("differences:",len(diff)); print(diff[:3])
    sys.exit(1 if diff or len(a)!=len(b) else 0)
