"""
C01: what a learner reports through CobaContext.learning_info while it is evaluated by RejectionCB ends up in the
rows of OTHER (learner,evaluator) pairs -- but only when the evaluations share a lazily filled logged().chunk()
cache, i.e. depending on maxtasksperchunk / on whether tasks run in one process or on workers.

run: PYTHONPATH=/tmp/w9_c01 /venv/bin/python /tmp/w9_c01/findings/learning-info-leak-via-logged-cache/repro.py
"""
import sys

from coba.context      import CobaContext, NullLogger
from coba.environments import Environments
from coba.experiments  import Experiment
from coba.learners     import RandomLearner
from coba.evaluators   import SequentialCB, RejectionCB

class CountingLearner:
    """A deterministic learner that reports a diagnostic via the documented CobaContext.learning_info feature."""
    def __init__(self):
        self._n = 0
    @property
    def params(self):
        return {'family':'counting'}
    def score(self, context, actions, action):
        return 1/len(actions)
    def predict(self, context, actions):
        return actions[self._n%len(actions)], 1/len(actions)
    def learn(self, context, action, reward, probability):
        self._n += 1
        CobaContext.learning_info['n_updates'] = self._n

def make_experiment():
    #everything is freshly constructed and seeded
    envs = Environments.from_linear_synthetic(300,n_actions=3,seed=2).logged(RandomLearner(seed=3)).chunk()
    lrns = [CountingLearner(), RandomLearner(seed=7)]
    vals = [SequentialCB(learn='off',eval='ips'), RejectionCB()]
    return Experiment(envs,lrns,vals)

def rows(result):
    table = result.interactions
    cols  = [c for c in table.columns if c not in ('predict_time','learn_time')]
    return cols, sorted([tuple((c,repr(r[c])) for c in cols) for r in table.to_dicts()])

def run(**config):
    CobaContext.logger = NullLogger()
    return rows(make_experiment().run(quiet=True,seed=1,**config))

if __name__ == '__main__':
    configs = [
        dict(processes=1,maxchunksperchild=0,maxtasksperchunk=0),
        dict(processes=2,maxchunksperchild=0,maxtasksperchunk=0),
        dict(processes=2,maxchunksperchild=0,maxtasksperchunk=1),
        dict(processes=2,maxchunksperchild=1,maxtasksperchunk=1),
    ]

    results = [run(**c) for c in configs]
    base_cols,base_rows = results[0]

    #learner 1 is the built-in RandomLearner. It never reports anything so no row of it may have a value for n_updates
    def foreign(rs): return [dict(r) for r in rs if dict(r)['learner_id']=='1' and dict(r).get('n_updates','None') not in ('None',)]

    failed = False
    for config,(cols,rs) in zip(configs,results):
        f = foreign(rs)
        print(f"{config}: {len(rs)} rows, columns={cols}")
        print(f"    rows of RandomLearner (learner_id=1) that carry CountingLearner's n_updates: {len(f)}")
        for r in f[:3]: print("       ",r)
        if (cols,rs) != (base_cols,base_rows):
            failed = True
            print("    !! Result differs from the in-process Result")
        if f: failed = True

    if failed:
        print("\nVIOLATION: the Result depends on the execution configuration (and holds rows with another learner's info)")
        sys.exit(1)
    print("\nOK: same Result for every configuration")
