"""
C01 - a component that starts processes of its own (here: an evaluator that tunes a hyper-parameter with an inner
Experiment.run(processes=2); the same happens to a learner that uses a multiprocessing.Pool / a torch DataLoader with
num_workers>0) works when the outer experiment runs in-process but fails on coba's worker processes, because coba
creates its workers with daemon=True and Python refuses to let a daemonic process have children.

The failure is silent for the outer experiment: the inner run logs 'daemonic processes are not allowed to have
children', reports 'Experiment Failed' and returns an EMPTY Result, the outer evaluation carries on with it and the
outer experiment reports 'Experiment Finished'. So the Result depends on `processes`.

(The inner processes>1 does not have to be written in the component: a .coba config file with
{"experiment":{"processes":4}} is the default for every Experiment.run, the nested one included.)
"""
import sys, math

from coba.context      import CobaContext, NullLogger
from coba.environments import Environments
from coba.experiments  import Experiment
from coba.learners     import BanditEpsilonLearner, RandomLearner

class TuneThenScore:
    """Picks the best epsilon with an inner experiment on 2 processes and reports how it did."""

    @property
    def params(self): return {'tuner':'inner-experiment'}

    def evaluate(self, env, lrn):
        inner_envs = Environments.from_linear_synthetic(40,n_actions=3,seed=9)
        inner_lrns = [BanditEpsilonLearner(e) for e in (.05,.5)]
        inner_res  = Experiment(inner_envs,inner_lrns).run(quiet=True,processes=2)

        rewards = {}
        if len(inner_res.interactions) > 0:
            for lid,rwd in zip(inner_res.interactions['learner_id'],inner_res.interactions['reward']):
                rewards.setdefault(lid,[]).append(rwd)

        best = max(rewards, key=lambda l: sum(rewards[l])/len(rewards[l])) if rewards else None

        yield {'inner_rows': len(inner_res.interactions), 'best_learner': best}

def _square(x): return x*x

class PoolLearner:
    """A learner that computes its features with a process pool (think: torch DataLoader(num_workers=2), joblib, ...)."""
    def __init__(self): self._pool = None
    @property
    def params(self): return {'family':'PoolLearner'}
    def predict(self, context, actions):
        if self._pool is None:
            import multiprocessing as mp
            self._pool = mp.get_context('spawn').Pool(1)
        self._pool.map(_square,[1,2,3])
        return actions[0]
    def learn(self, context, action, reward, probability):
        pass
    def __getstate__(self):
        return {'_pool':None}
    def __del__(self):
        if self._pool is not None: self._pool.terminate()

def make2():
    return Experiment(Environments.from_linear_synthetic(5,n_actions=3,seed=1),[PoolLearner()])

def make():
    return Experiment(Environments.from_linear_synthetic(20,n_actions=3,seed=1),[RandomLearner()],TuneThenScore())

def rows(result):
    cols = [c for c in result.interactions.columns if c not in ('predict_time','learn_time')]
    return sorted(tuple(zip(cols,r)) for r in zip(*[result.interactions[c] for c in cols]))

if __name__ == '__main__':
    CobaContext.logger = NullLogger()

    in_process = rows(make().run(quiet=True,processes=1))
    on_workers = rows(make().run(quiet=True,processes=2))

    print("outer experiment in-process  :", in_process)
    print("outer experiment on 2 workers:", on_workers)

    in_process2 = rows(make2().run(quiet=True,processes=1))
    on_workers2 = rows(make2().run(quiet=True,processes=2))

    print()
    print("learner with a process pool, in-process  : %d rows" % len(in_process2))
    print("learner with a process pool, on 2 workers: %d rows" % len(on_workers2))

    if in_process != on_workers or in_process2 != on_workers2:
        print("VIOLATION: the same experiment gives different interactions rows in-process and on worker processes")
        print("           (on the workers the nested run could not start its processes: daemonic processes are not allowed to have children)")
        sys.exit(1)

    print("OK: same rows")
    sys.exit(0)
