"""
C01 - a Ctrl-C that arrives while Unbatch is taking a batched interaction apart is swallowed by a bare `except:`.
The experiment is NOT aborted: it carries on, reports 'Experiment Finished' and its Result holds a row that no
uninterrupted run in any configuration produces (the whole batch of rewards where one reward should be). When it is
the 'context' or 'actions' key that is hit (BatchSafe(Finalize()) unbatches in front of the learner) the learner is
silently handed a whole batch as the context of one interaction.

coba/environments/filters.py Unbatch._unbatch:
        for k in interaction:
            try:
                new[k] = interaction[k][i]      <-- SIGINT here ...
            except:                             <-- ... ends up here
                new[k] = interaction[k]

Every batched evaluation spends a good share of its time in exactly this loop (SequentialCB.evaluate pushes all its
rows through Unbatch, and BatchSafe pushes all interactions through it), so this is not a narrow window.

The SIGINT is delivered deterministically: a trace function raises it (signal.raise_signal) the moment the main thread
executes the line inside the try block for key 'reward' of the 2nd row of the 2nd batch.
"""
import sys, signal, inspect

from coba.context      import CobaContext, IndentLogger
from coba.pipes        import ListSink
from coba.environments import Environments
from coba.environments import filters as F
from coba.experiments  import Experiment
from coba.learners     import RandomLearner

class FirstActionLearner:
    """A plain batch-capable learner."""
    @property
    def params(self): return {'family':'first'}
    def predict(self, context, actions):
        return [a[0] for a in actions]
    def learn(self, context, action, reward, probability):
        pass

def make():
    return Experiment(Environments.from_linear_synthetic(24,n_actions=3,seed=1).batch(4),[FirstActionLearner()])

def rows(result):
    cols = [c for c in result.interactions.columns if c not in ('predict_time','learn_time')]
    return sorted(tuple(zip(cols,map(str,r))) for r in zip(*[result.interactions[c] for c in cols]))

#the line inside the try block of Unbatch._unbatch
src,first = inspect.getsourcelines(F.Unbatch._unbatch)
TRY_LINE  = first + [i for i,l in enumerate(src) if 'new[k] = interaction[k][i]' in l][0]
CODE      = F.Unbatch._unbatch.__code__

def run(inject:bool):
    log = ListSink()
    CobaContext.logger = IndentLogger(log)
    state = {'batches':0, 'fired':False}

    def local_trace(frame,event,arg):
        if event == 'line' and frame.f_lineno == TRY_LINE and not state['fired']:
            loc = frame.f_locals
            if loc.get('k') == 'reward' and loc.get('i') == 1 and 'reward' in loc['interaction'] and 'rewards' not in loc['interaction']:
                state['batches'] += 1
                if state['batches'] == 2:
                    state['fired'] = True
                    signal.raise_signal(signal.SIGINT) #the user presses Ctrl-C now (KeyboardInterrupt is raised right here)
        return local_trace

    def global_trace(frame,event,arg):
        return local_trace if frame.f_code is CODE else None

    if inject: sys.settrace(global_trace)
    try:
        result = make().run(processes=1)
    finally:
        sys.settrace(None)

    return rows(result), [l for l in log.items if 'Experiment' in l], state['fired']

if __name__ == '__main__':
    clean_rows, clean_log, _   = run(inject=False)
    ctrlc_rows, ctrlc_log, hit = run(inject=True)

    print("uninterrupted run:", clean_log[-1].strip(), "-", len(clean_rows), "rows")
    print("run with Ctrl-C  :", ctrlc_log[-1].strip(), "-", len(ctrlc_rows), "rows", "(SIGINT delivered: %s)" % hit)

    odd = [r for r in ctrlc_rows if r not in clean_rows]
    for r in odd: print("   row only the interrupted run has:", r)

    finished = 'Finished' in ctrlc_log[-1]

    if hit and finished and odd:
        print("VIOLATION: the Ctrl-C was swallowed; the experiment went on, says it finished and its Result holds a corrupted row")
        sys.exit(1)

    if hit and finished:
        print("VIOLATION: the Ctrl-C was swallowed; the experiment went on and says it finished")
        sys.exit(1)

    print("OK: the run was aborted by the Ctrl-C" if hit else "inconclusive: the injection point was never reached")
    sys.exit(0 if hit else 2)
