"""
C01 - Impute on sparse (dict) contexts appends its '<feature>_is_missing' indicators in the iteration order of a SET
of feature names, i.e. in the order of the names' str hashes. Str hashes are randomised per interpreter, and coba's
spawned workers are new interpreters with a hash seed of their own, so

  * the worker processes build contexts whose features are ordered differently from the ones the main process builds
    for the very same environment  ->  in-process and multi-process runs of one experiment disagree, and
  * running the same script twice gives different Results even in-process.

The contexts compare equal as dicts, but every consumer for which feature ORDER matters sees different data: anything
that turns the context into a vector (list(context.values()) - legitimate here, all contexts have the same keys), a
network with seeded weight initialisation, Densify('lookup'), features interactions whose names are built by
concatenation, ...

Step 1 is deterministic: the same in-process experiment in two interpreters started with PYTHONHASHSEED=1 and =2.
Step 2 is the natural situation (PYTHONHASHSEED unset): in-process vs 2 workers inside one interpreter, a few attempts
(the orders coincide by chance with probability 1/24).
"""
import sys, os, json, subprocess

from coba.context      import CobaContext, NullLogger
from coba.random       import CobaRandom
from coba.environments import Environments
from coba.experiments  import Experiment

class VectorLearner:
    """A linear scorer with seeded initial weights on the context as a vector (think: a small seeded network)."""
    def __init__(self, seed=1):
        self._seed = seed
        self._w    = None
    @property
    def params(self): return {'family':'VectorLearner','seed':self._seed}
    def _scores(self, x, actions):
        if self._w is None:
            rng = CobaRandom(self._seed)
            self._w = {a:rng.gausses(len(x)) for a in actions}
        return [sum(wi*xi for wi,xi in zip(self._w[a],x)) for a in actions]
    def predict(self, context, actions):
        x = list(context.values())
        s = self._scores(x,actions)
        return actions[s.index(max(s))]
    def learn(self, context, action, reward, probability):
        x = list(context.values())
        p = self._scores(x,[action])[0]
        self._w[action] = [wi+.05*(reward-p)*xi for wi,xi in zip(self._w[action],x)]

def make():
    X = [{'age'   : None if i%3==0 else (i*7)%10/10,
          'height': None if i%4==0 else (i*3)%10/10,
          'weight': None if i%5==0 else (i*9)%10/10,
          'bmi'   : None if i%2==0 else (i*1)%10/10} for i in range(1,81)]
    Y = ['a' if (i*7)%10 > 4 else 'b' if (i*3)%10 > 4 else 'c' for i in range(1,81)]
    envs = Environments.from_supervised(X,Y).impute('mean',indicator=True)
    return Experiment(envs,[VectorLearner()])

def digest(result):
    return [result.interactions['reward'], [str(a) for a in result.interactions['action']]]

def child(mode):
    CobaContext.logger = NullLogger()
    first_context = next(iter(list(make()._triples[0][0].read())))['context']

    out = {'order': list(first_context.keys())[4:]}
    out['in_process'] = digest(make().run(quiet=True,processes=1))
    if mode == 'both':
        out['on_workers'] = digest(make().run(quiet=True,processes=2))
    print("RESULT"+json.dumps(out))

def run_child(mode, hashseed):
    env = dict(os.environ)
    env.pop('PYTHONHASHSEED',None)
    if hashseed is not None: env['PYTHONHASHSEED'] = str(hashseed)
    out = subprocess.run([sys.executable,'-W','ignore',__file__,mode],env=env,capture_output=True,text=True,timeout=100)
    line = [l for l in out.stdout.splitlines() if l.startswith("RESULT")]
    if not line: raise Exception(out.stdout+out.stderr)
    return json.loads(line[0][6:])

if __name__ == '__main__':
    if len(sys.argv) > 1:
        child(sys.argv[1])
        sys.exit(0)

    bad = False

    print("step 1: the same experiment, in-process, in two interpreter sessions")
    r1 = run_child('inproc',1)
    r2 = run_child('inproc',2)
    print("   PYTHONHASHSEED=1: indicators appended as", r1['order'], " total reward %.3f" % sum(r1['in_process'][0]))
    print("   PYTHONHASHSEED=2: indicators appended as", r2['order'], " total reward %.3f" % sum(r2['in_process'][0]))
    if r1['in_process'] != r2['in_process']:
        n = sum(a!=b for a,b in zip(r1['in_process'][1],r2['in_process'][1]))
        print(f"   VIOLATION: constructing and running the same experiment a second time gave a different Result ({n} of {len(r1['in_process'][1])} actions differ)")
        bad = True

    print("step 2: PYTHONHASHSEED unset, in-process vs 2 worker processes in one interpreter")
    for attempt in range(3):
        r = run_child('both',None)
        same = r['in_process'] == r['on_workers']
        print(f"   attempt {attempt+1}: main process appends {r['order']}; in-process total reward %.3f, on workers %.3f -> %s" % (sum(r['in_process'][0]),sum(r['on_workers'][0]),'same' if same else 'DIFFERENT'))
        if not same:
            print("   VIOLATION: the Result depends on whether the experiment ran in-process or on worker processes")
            bad = True
            break

    sys.exit(1 if bad else 0)
