"""
C01 - two experiments that run at the same time in two threads of one process (a notebook / service that uses a
ThreadPoolExecutor to run several experiments, each of which may itself use worker processes) take each other's seed.

Experiment.run keeps "the" experiment seed in the process-global CobaContext.store['experiment_seed'] for the whole
duration of the run and the evaluators read it from there at the start of every evaluation. Run B (seed=2) starts while
run A (seed=1) is in its first evaluation: A's second evaluation samples its actions with seed 2. When A ends it pops
the key, so B's remaining evaluations find no seed at all (None = seeded by the clock) - B is not even repeatable.
The logger is swapped the same way: after both runs CobaContext.logger is still A's decorated logger.

Interleaving forced with events: A's learner stops in its first predict until B has started; B's learner stops in its
first predict until A has finished.
"""
import sys, threading

from coba.context      import CobaContext, NullLogger
from coba.environments import Environments
from coba.experiments  import Experiment

class UniformPmf:
    """Returns a PMF; the evaluator's SafeLearner samples the action with a generator seeded by the experiment seed."""
    def __init__(self, on_first_predict=None):
        self._hook = on_first_predict
    @property
    def params(self): return {'family':'UniformPmf'}
    def predict(self, context, actions):
        if self._hook: self._hook(); self._hook = None
        return [1/len(actions)]*len(actions)
    def learn(self, context, action, reward, probability):
        pass

def make(hook=None):
    envs = Environments.from_linear_synthetic(30,n_actions=4,seed=5).shuffle(n=2)
    return Experiment([(env,UniformPmf(hook if i==0 else None)) for i,env in enumerate(envs)])

def rows(result):
    cols = [c for c in result.interactions.columns if c not in ('predict_time','learn_time')]
    return sorted(tuple(zip(cols,map(str,r))) for r in zip(*[result.interactions[c] for c in cols]))

if __name__ == '__main__':
    base_logger = CobaContext.logger = NullLogger()

    alone_A = rows(make().run(quiet=True,seed=1))
    alone_B = rows(make().run(quiet=True,seed=2))

    a_in_first_eval = threading.Event()
    b_has_started   = threading.Event()
    a_has_finished  = threading.Event()
    out = {}

    def hook_A(): a_in_first_eval.set(); b_has_started.wait(30)
    def hook_B(): b_has_started.set(); a_has_finished.wait(30)

    def run_A():
        out['A'] = rows(make(hook_A).run(quiet=True,seed=1))
        a_has_finished.set()

    def run_B():
        a_in_first_eval.wait(30)
        out['B'] = rows(make(hook_B).run(quiet=True,seed=2))

    tA = threading.Thread(target=run_A); tB = threading.Thread(target=run_B)
    tA.start(); tB.start(); tA.join(60); tB.join(60)

    def n_diff(x,y): return sum(a!=b for a,b in zip(x,y)) + abs(len(x)-len(y))

    dA = n_diff(alone_A,out['A'])
    dB = n_diff(alone_B,out['B'])

    print(f"run A (seed=1): {len(alone_A)} rows alone; next to run B {dA} rows differ")
    print(f"run B (seed=2): {len(alone_B)} rows alone; next to run A {dB} rows differ")
    print( "rows of A's 2nd evaluation equal the rows B's seed gives alone:", [r for r in out['A'] if r[0][1]=='1'] == [r for r in alone_B if r[0][1]=='1'])
    print( "CobaContext.store afterwards :", dict(CobaContext.store))
    print( "CobaContext.logger afterwards:", type(CobaContext.logger).__name__, "(was", type(base_logger).__name__+")")

    if dA or dB:
        print("VIOLATION: the Result of an experiment depends on what else runs in the process at the same time")
        sys.exit(1)

    print("OK")
    sys.exit(0)
