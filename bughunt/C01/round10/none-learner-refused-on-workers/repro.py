"""
C01 - an evaluation without a learner - (environment, None, evaluator), which the Evaluator interface allows
(`def evaluate(self, environment: Optional[Environment], learner: Optional[Learner])`) and which is how environment
statistics are collected - runs fine in-process but is refused by the multi-process path: Experiment.run raises
CobaExit("Coba multiprocessing in Jupyter requires the cloudpickle package") although nothing here is defined in
Jupyter and everything pickles with the standard pickle module.

The pre-flight check `_check_for_cloudpickle_dependency` takes "inspect.getmodule(obj) has no __file__" to mean
"obj was defined in an interactive session". getmodule(None) is None (and getmodule of any instance of a builtin /
C-implemented type is a module without __file__), so None trips it.

Secondary damage: the CobaExit leaves run() after CobaContext.store['experiment_seed'] was set (and before anything
restores it), so the seed of the refused run stays in the global store.
"""
import sys, pickle

from coba.context      import CobaContext, NullLogger
from coba.exceptions   import CobaExit
from coba.environments import Environments
from coba.experiments  import Experiment

class EnvStats:
    """Describes an environment. It has no use for a learner."""
    @property
    def params(self): return {'kind':'env-stats'}
    def evaluate(self, env, lrn):
        n = 0; a = 0
        for interaction in env.read():
            n += 1
            a += len(interaction['actions'])
        yield {'n_interactions':n, 'mean_n_actions':a/n}

def make():
    envs = Environments.from_linear_synthetic(20,n_actions=3,seed=1).shuffle(n=2)
    return Experiment([(env,None,EnvStats()) for env in envs])

def rows(result):
    out = {}
    for name in ['environments','learners','evaluators','interactions']:
        table = getattr(result,name)
        cols  = [c for c in table.columns if c not in ('predict_time','learn_time')]
        out[name] = sorted(tuple(zip(cols,map(str,r))) for r in zip(*[table[c] for c in cols]))
    return out

if __name__ == '__main__':
    CobaContext.logger = NullLogger()

    #everything that is sent to a worker pickles with the standard library
    pickle.dumps(make()._triples)

    in_process = rows(make().run(quiet=True,processes=1))
    print("in-process  :", {k:len(v) for k,v in in_process.items()}, in_process['interactions'])

    try:
        on_workers = rows(make().run(quiet=True,processes=2))
        print("on 2 workers:", {k:len(v) for k,v in on_workers.items()}, on_workers['interactions'])
    except CobaExit as e:
        print("on 2 workers: Experiment.run raised CobaExit:", e)
        print("              CobaContext.store after the refused run:", dict(CobaContext.store))
        print("VIOLATION: a picklable experiment that runs in-process is refused on worker processes (false 'needs cloudpickle')")
        sys.exit(1)

    if in_process != on_workers:
        print("VIOLATION: different rows")
        sys.exit(1)

    print("OK: same Result")
    sys.exit(0)
