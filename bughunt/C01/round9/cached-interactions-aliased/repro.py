"""
C01 (lower priority): the interactions an evaluation hands to a learner alias data that outlives the evaluation.

 * environments.Cache gives every reader a *shallow* copy of each cached interaction (dict.copy()): the context
   list/dict and the actions list are the very objects that sit in the cache
 * Environments.from_supervised(X,Y) hands out the caller's X rows themselves on every read

A learner that changes its `context` argument in place (here: appends a bias feature, a common idiom) therefore changes
what the *next* evaluation on that environment sees - but only if that evaluation runs in the same process on the same
environment object (in-process; or the same chunk on a worker). With one task per chunk / several processes every
evaluation has its own unpickled copy and sees the original data. Nothing in the Learner interface says that the arguments
must not be touched and SafeLearner passes them through as they are.
"""
import sys
import warnings
warnings.filterwarnings("ignore")

from coba.environments import Environments
from coba.evaluators   import SequentialCB
from coba.experiments  import Experiment
from coba.context      import CobaContext, NullLogger

class BiasLearner:
    """A linear greedy learner that adds a bias feature to the (dense) context before using it."""
    def __init__(self):
        self._w = {}
    @property
    def params(self):
        return {'family':'bias'}
    def predict(self, context, actions):
        context.append(1.) #in place
        scores = [ sum(self._w.get((i,a),0)*x for i,x in enumerate(context)) for a in actions ]
        return actions[scores.index(max(scores))]
    def learn(self, context, action, reward, probability):
        for i,x in enumerate(context):
            self._w[(i,action)] = self._w.get((i,action),0)+.1*(reward-.5)*x

def make(kind):
    if kind == 'chunk':
        envs = Environments.from_linear_synthetic(40,n_actions=3,n_context_features=2,n_action_features=0,seed=1).chunk()
    else:
        X = [[i/10,(i*7%5)/5] for i in range(40)]
        Y = [ str(i%3) for i in range(40)]
        envs = Environments.from_supervised(X,Y)
    return Experiment(envs,[BiasLearner(),BiasLearner()],SequentialCB(['reward','action','context']))

def rows(result):
    cols = [c for c in result.interactions.columns if 'time' not in c]
    return sorted(zip(*[result.interactions[c] for c in cols])), cols

if __name__ == '__main__':
    CobaContext.logger = NullLogger()
    bad = False
    for kind in ['chunk','from_supervised(X,Y)']:
        a,cols = rows(make(kind).run(quiet=True, processes=1, maxtasksperchunk=0, seed=1))
        b,_    = rows(make(kind).run(quiet=True, processes=2, maxtasksperchunk=1, seed=1))
        ci     = cols.index('context')
        print(f"{kind:22}: in-process == (processes=2,maxtasksperchunk=1): {a==b}")
        if a != b:
            bad = True
            x,y = next((x,y) for x,y in zip(a,b) if x!=y)
            print(f"   first differing row (environment,learner,evaluator,index)={x[:4]}")
            print(f"   context seen in-process: {x[ci]}")
            print(f"   context seen on workers: {y[ci]}")
            print(f"   rows that differ: {sum(x!=y for x,y in zip(a,b))} of {len(a)}")
    if bad:
        print("VIOLATION: the second learner's rows depend on whether it shares the environment object with the first learner")
    else:
        print("OK: same Result in every configuration")
    sys.exit(1 if bad else 0)
