"""
C01: one process-global generator (coba.random's module level functions) is shared by everything that is active
during an evaluation, and the cache of a chunk() decides who is active.

SafeLearner tells users: "Please use coba.random.choicew(actions,pmf) to return an action instead" (of a PMF).
A learner written that way is used here both as the logging policy of logged() and as the evaluated learners.
logged().chunk() evaluates the logging policy lazily, slice by slice, *inside* the evaluation of the first learner
that reads the environment; the following learners replay the cache. ProcessTasks seeds the global generator
once per evaluation, so
  * first learner of a chunk : its draws are interleaved with the draws of the logging policy
  * later learners of a chunk: they have the stream for themselves
Which learner is 'first' depends on maxtasksperchunk / on whether the tasks share a process. The logged data
itself also depends on it (the policy's draws are interleaved with those of a different learner, or none).

To keep the peek task (which has its own defect: it is not seeded at all) out of the picture the history is:
run 1 is stopped by Ctrl-C during the first evaluation (parameters are in the result file, no interactions),
run 2 resumes from the file with fresh objects. Only run 2's configuration is varied.
"""
import sys, os, tempfile, shutil
import warnings
warnings.filterwarnings("ignore")

import coba.random as cr

from coba.environments import Environments
from coba.experiments  import Experiment
from coba.context      import CobaContext, NullLogger

class EpsGreedy:
    """Epsilon greedy over one-hot actions. Samples with coba.random.choicew as coba's warning advises."""
    def __init__(self, epsilon, interrupt=False):
        self._eps = epsilon
        self._sum = {}
        self._cnt = {}
        self._int = interrupt
    @property
    def params(self):
        return {'family':'EpsGreedy','epsilon':self._eps}
    def _pmf(self, actions):
        means = [ self._sum.get(a,0)/self._cnt.get(a,1) for a in actions ]
        best  = means.index(max(means))
        return [ self._eps/len(actions) + (1-self._eps)*(i==best) for i in range(len(actions)) ]
    def score(self, context, actions, action):
        return self._pmf(actions)[actions.index(action)]
    def predict(self, context, actions):
        if self._int: raise KeyboardInterrupt()
        return cr.choicew(actions, self._pmf(actions))
    def learn(self, context, action, reward, probability):
        self._sum[action] = self._sum.get(action,0)+reward
        self._cnt[action] = self._cnt.get(action,0)+1

def make(interrupt=False):
    envs = Environments.from_linear_synthetic(100, n_actions=3, n_context_features=0, n_action_features=0, seed=5)
    envs = envs.logged(EpsGreedy(.5)).chunk()
    return Experiment(envs, [EpsGreedy(.1,interrupt), EpsGreedy(.3)])

def rows(result):
    cols = [c for c in result.interactions.columns if 'time' not in c] #starts with environment_id, learner_id, evaluator_id, index
    return sorted(zip(*[result.interactions[c] for c in cols])), cols

def history(tmp, name, **config):
    path = os.path.join(tmp,name+".log")
    r1 = make(interrupt=True).run(path, quiet=True, processes=1, seed=1) #Ctrl-C during the first evaluation
    assert len(r1.environments) == 1 and len(r1.learners) == 2 and len(r1.interactions) == 0, "run 1 should only hold parameters"
    return rows(make().run(path, quiet=True, seed=1, **config))

if __name__ == '__main__':
    CobaContext.logger = NullLogger()
    tmp = tempfile.mkdtemp()
    try:
        a,cols = history(tmp,"a", processes=1, maxchunksperchild=0, maxtasksperchunk=0)
        a2,_   = history(tmp,"a2",processes=1, maxchunksperchild=0, maxtasksperchunk=0)
        b,_    = history(tmp,"b", processes=2, maxchunksperchild=0, maxtasksperchunk=0)
        c,_    = history(tmp,"c", processes=2, maxchunksperchild=0, maxtasksperchunk=1)
    finally:
        shutil.rmtree(tmp,ignore_errors=True)

    print("columns:", cols)
    print("rows    :", len(a), len(a2), len(b), len(c))
    print("in-process, resumed twice the same way    :", a==a2)
    print("in-process == 2 workers maxtasksperchunk=0:", a==b)
    print("in-process == 2 workers maxtasksperchunk=1:", a==c)

    if a != c or a != b:
        other = c if a!=c else b
        lid  = cols.index('learner_id')
        per  = { l: sum(x!=y for x,y in zip(a,other) if x[lid]==l) for l in (0,1) }
        print(f"VIOLATION: the resumed experiment gives different rows with maxtasksperchunk=1; differing rows per learner: {per}")
        for x,y in zip(a,other):
            if x!=y:
                print("   in-process:",x); print("   workers   :",y); break
        sys.exit(1)

    print("OK: same Result in every configuration")
    sys.exit(0)
