"""
C01: CobaRandom.__reduce__ drops the generator's position (it rebuilds the generator from its seed).

A learner that draws from its own seeded CobaRandom in __init__ (e.g., to initialise weights) and keeps using
that generator in predict is a perfectly deterministic, seeded user component. When it is evaluated in-process
and is listed once (no deepcopy) its generator carries on where __init__ left it. When the experiment runs on
worker processes (or with maxchunksperchild != 0) the learner is pickled and its generator restarts from the
seed, so the draws made in predict are different -> a different Result for the very same experiment.
"""
import sys
import warnings
warnings.filterwarnings("ignore")

from coba.random       import CobaRandom
from coba.environments import Environments
from coba.experiments  import Experiment
from coba.context      import CobaContext, NullLogger

class InitDrawLearner:
    """Random initial preference (drawn in __init__), epsilon-greedy afterwards. Fully determined by `seed`."""
    def __init__(self, seed=7, epsilon=.5):
        self._rng     = CobaRandom(seed)
        self._prefs   = self._rng.randoms(3)       #<-- draws in __init__
        self._epsilon = epsilon
    @property
    def params(self):
        return {'family':'InitDraw'}
    def predict(self, context, actions):
        if self._rng.random() < self._epsilon:     #<-- same generator used later on
            i = self._rng.randint(0,len(actions)-1)
        else:
            i = max(range(len(actions)), key=self._prefs.__getitem__)
        return actions[i], (self._epsilon/len(actions) + (1-self._epsilon)*(i==max(range(len(actions)), key=self._prefs.__getitem__)))
    def learn(self, context, action, reward, probability):
        pass

def make():
    envs = Environments.from_linear_synthetic(40, n_actions=3, n_context_features=2, n_action_features=0, seed=3)
    return Experiment(envs, [InitDrawLearner()])

def rows(result):
    cols = [c for c in result.interactions.columns if 'time' not in c]
    return sorted(zip(*[result.interactions[c] for c in cols])), cols

if __name__ == '__main__':
    CobaContext.logger = NullLogger()

    r_inproc,cols = rows(make().run(quiet=True, processes=1, maxchunksperchild=0, seed=1))
    r_again ,_    = rows(make().run(quiet=True, processes=1, maxchunksperchild=0, seed=1))
    r_worker,_    = rows(make().run(quiet=True, processes=2, maxchunksperchild=0, seed=1))
    r_mcpc  ,_    = rows(make().run(quiet=True, processes=1, maxchunksperchild=1, seed=1))

    print("columns:", cols)
    print("in-process rows       :", len(r_inproc))
    print("in-process == 2nd run :", r_inproc == r_again)
    print("in-process == 2 procs :", r_inproc == r_worker)
    print("in-process == mcpc=1  :", r_inproc == r_mcpc)

    if r_inproc != r_worker or r_inproc != r_mcpc:
        diff = [i for i,(a,b) in enumerate(zip(r_inproc,r_worker)) if a!=b]
        print(f"VIOLATION: {len(diff)} of {len(r_inproc)} interaction rows differ between processes=1 and processes=2")
        for i in diff[:3]:
            print("   in-process:", r_inproc[i])
            print("   2 workers :", r_worker[i])
        sys.exit(1)

    print("OK: same Result in every configuration")
    sys.exit(0)
