"""
C01: learners that are used more than once are deep-copied per evaluation (Task.copy) so that their state can't
travel from one evaluation to the next. Evaluators are not: in-process the one evaluator object is used for every
evaluation, on worker processes every chunk works with its own unpickled copy.

A custom evaluator that keeps a seeded generator (created in __init__, exactly like coba's own RandomLearner or
PMFPredictor do) therefore gives Results that depend on processes / maxchunksperchild / maxtasksperchunk:
in-process evaluation k continues the generator where evaluation k-1 left it, on workers every chunk starts
from the state the evaluator had when the experiment was built.
"""
import sys
import warnings
warnings.filterwarnings("ignore")

from coba.random       import CobaRandom
from coba.environments import Environments, Finalize, BatchSafe
from coba.learners     import RandomLearner, BanditEpsilonLearner
from coba.experiments  import Experiment
from coba.safety       import SafeLearner
from coba.context      import CobaContext, NullLogger

class SubsampledOnPolicy:
    """On-policy evaluation on a random half of the interactions (seeded)."""
    def __init__(self, seed=1):
        self._seed = seed
        self._rng  = CobaRandom(seed)       #state of the evaluator
    @property
    def params(self):
        return {'subsample':.5,'seed':self._seed}
    def evaluate(self, environment, learner):
        learner = SafeLearner(learner, self._seed)
        for interaction in BatchSafe(Finalize()).filter(environment.read()):
            if self._rng.random() < .5: continue
            a,p,kw = learner.predict(interaction['context'],interaction['actions'])
            r = interaction['rewards'](a)
            learner.learn(interaction['context'],a,r,p,**kw)
            yield {'reward':r}

def make():
    envs = Environments.from_linear_synthetic(50, n_actions=3, n_context_features=2, n_action_features=0, seed=[1,2])
    return Experiment(envs, [RandomLearner(seed=3),BanditEpsilonLearner(.1,seed=4)], SubsampledOnPolicy(seed=5))

def rows(result):
    cols = [c for c in result.interactions.columns if 'time' not in c]
    return sorted(zip(*[result.interactions[c] for c in cols]))

if __name__ == '__main__':
    CobaContext.logger = NullLogger()

    a = rows(make().run(quiet=True, processes=1, maxchunksperchild=0, seed=1))
    b = rows(make().run(quiet=True, processes=1, maxchunksperchild=0, seed=1))
    c = rows(make().run(quiet=True, processes=2, maxchunksperchild=0, seed=1))
    d = rows(make().run(quiet=True, processes=1, maxchunksperchild=1, seed=1))

    count = lambda R: { k: sum(1 for r in R if r[:2]==k) for k in sorted(set(r[:2] for r in R)) }

    print("in-process == in-process again :", a==b)
    print("in-process == 2 workers        :", a==c)
    print("in-process == maxchunksperchild=1:", a==d)
    print("rows per (environment,learner) in-process:", count(a))
    print("rows per (environment,learner) 2 workers :", count(c))

    if a != c or a != d:
        print("VIOLATION: the Result depends on whether the evaluations share one evaluator object (in-process) or not (workers)")
        sys.exit(1)

    print("OK: same Result in every configuration")
    sys.exit(0)
