"""
C01: an evaluation that ends the process it runs in (CobaExit from one of coba's own lazy PackageChecker calls, sys.exit(),
a crash in native code, the OOM killer ...) gives completely different outcomes depending on the execution configuration.
In-process the CobaExit reaches the caller. On worker processes every worker that meets such a task silently dies, the
tasks that are still queued (also perfectly healthy ones) are never evaluated once all workers are gone, and
Experiment.run() RETURNS a partial Result after logging "Experiment Finished". How much is missing depends on `processes`.

The trigger used here is coba's own: SequentialCB(eval='dr') needs vowpalwabbit and checks for it lazily inside the
evaluation (OpeRewards.__init__ -> PackageChecker.vowpalwabbit -> CobaExit). If vowpalwabbit is installed a learner
whose predict calls coba.utilities.coba_exit (what PackageChecker does) is used instead.

run: PYTHONPATH=/tmp/w9_c01 /venv/bin/python /tmp/w9_c01/findings/worker-death-reported-as-finished/repro.py
"""
import sys
from collections import Counter

from coba.context      import CobaContext, BasicLogger
from coba.pipes        import ListSink
from coba.utilities    import PackageChecker, coba_exit
from coba.environments import Environments
from coba.experiments  import Experiment
from coba.learners     import RandomLearner
from coba.evaluators   import SequentialCB

HAS_VW = PackageChecker.vowpalwabbit(strict=False)

class NeedsPackage:
    def predict(self, context, actions):
        coba_exit("ERROR: NeedsPackage requires the some_package package.")
    def learn(self, context, action, reward, probability):
        pass

def make_experiment():
    envs = Environments.from_linear_synthetic(30,n_actions=3,seed=2).logged(RandomLearner(seed=3)).shuffle(n=6)
    if not HAS_VW:
        return Experiment(envs,[RandomLearner(seed=5)],[SequentialCB(learn='off',eval='ips'),SequentialCB(learn='off',eval='dr')])
    else:
        return Experiment(envs,[RandomLearner(seed=5),NeedsPackage()],SequentialCB(learn='off',eval='ips'))

def run(**config):
    logs = ListSink()
    CobaContext.logger = BasicLogger(logs)
    try:
        result = make_experiment().run(seed=1,**config)
    except BaseException as e:
        return None, f"raised {type(e).__name__}: {str(e).strip()[:90]}", logs.items
    done = Counter((r['environment_id'],r['learner_id'],r['evaluator_id']) for r in result.interactions.to_dicts())
    return done, f"returned a Result with {len(done)} of the 6 healthy evaluations", logs.items

if __name__ == '__main__':
    outcomes = []
    for config in [dict(processes=1,maxchunksperchild=0), dict(processes=2,maxchunksperchild=0), dict(processes=4,maxchunksperchild=0)]:
        done,text,logs = run(**config)
        last = [l for l in logs if 'Experiment' in l][-1:]
        print(f"{config}: {text}; last experiment log line: {last}")
        outcomes.append((None if done is None else sorted(done),any('Experiment Finished' in l for l in logs)))

    inproc,multi2,multi4 = outcomes
    failed = False
    if multi2[0] != inproc[0] or multi4[0] != inproc[0]:
        print("\nVIOLATION: the outcome depends on the execution configuration")
        failed = True
    for name,(done,finished) in zip(['processes=2','processes=4'],[multi2,multi4]):
        if done is not None and len(done) < 6 and finished:
            print(f"VIOLATION: with {name} healthy evaluations are missing from the Result yet the experiment reported 'Experiment Finished' and raised nothing")
            failed = True
    sys.exit(1 if failed else 0)
