"""
C01 (fault: Ctrl-C at a particular point): a KeyboardInterrupt that arrives while ProcessTasks "peeks" at an environment
(the first read of every environment, i.e. where downloads/parsing/logged() policies run and so where a Ctrl-C is most
likely to land) is swallowed by a bare `except:`. In-process the experiment does not abort: it carries on, logs
"Experiment Finished" and returns a full Result whose environments row lacks the parameters that are only known after a
read (here n_actions). A Ctrl-C anywhere else in the same run aborts it ("Experiment Aborted (aborted via Ctrl-C)"); with
worker processes the parent always receives the SIGINT as well and aborts -- so the outcome of the same fault depends on
the execution configuration and on the exact moment.

run: PYTHONPATH=/tmp/w9_c01 /venv/bin/python /tmp/w9_c01/findings/ctrl-c-swallowed-in-environment-peek/repro.py
"""
import os, sys, signal

from coba.context      import CobaContext, BasicLogger
from coba.pipes        import ListSink
from coba.environments import Environments
from coba.experiments  import Experiment
from coba.learners     import RandomLearner

class SlowSource:
    """A (X,Y) source. The user's Ctrl-C arrives during the n-th read (a real SIGINT is sent to this process)."""
    def __init__(self, interrupt_on_read): self._n,self._k = 0,interrupt_on_read
    @property
    def params(self): return {'source':'slow'}
    def read(self):
        self._n += 1
        for i in range(30):
            if self._n == self._k and i == 5: os.kill(os.getpid(), signal.SIGINT) #Ctrl-C
            yield ([i%3, i%5], 'abc'[i%3])

def run(interrupt_on_read):
    logs = ListSink()
    CobaContext.logger = BasicLogger(logs)
    env    = Environments.from_supervised(SlowSource(interrupt_on_read), label_type='c')
    result = Experiment(env, [RandomLearner(seed=2)]).run(processes=1, seed=1)
    status = [l.split(' -- ')[-1] for l in logs.items if 'Experiment' in l][-1]
    return status, len(result.interactions), [dict(r) for r in result.environments.to_dicts()]

if __name__ == '__main__':
    s0,n0,e0 = run(interrupt_on_read=0) #no Ctrl-C
    s1,n1,e1 = run(interrupt_on_read=1) #Ctrl-C while the environment is peeked at (first read)
    s2,n2,e2 = run(interrupt_on_read=2) #Ctrl-C while the learner is evaluated (second read)

    print(f"no Ctrl-C              : {s0!r}, {n0} interaction rows, env row {e0}")
    print(f"Ctrl-C during the peek : {s1!r}, {n1} interaction rows, env row {e1}")
    print(f"Ctrl-C during the eval : {s2!r}, {n2} interaction rows, env row {e2}")

    if 'Finished' in s1 or n1 > 0:
        print("\nVIOLATION: the Ctrl-C during the peek was swallowed; the experiment ran on, reported 'Experiment Finished'"
              " and its environments table differs from the undisturbed run:", e1 != e0)
        sys.exit(1)
    print("\nOK: the experiment was aborted")
