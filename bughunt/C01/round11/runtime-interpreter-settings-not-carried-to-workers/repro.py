"""
C01 - settings of the interpreter that the main process makes at run time (warnings filters, recursion limit)
are not carried to coba's worker processes, so one and the same experiment gives a different Result on workers.

CobaMultiprocessor.ProcessFilter carries the logger, the cacher and CobaContext.store to the spawned workers
and nothing else. Two ordinary, deterministic set-ups are shown:

 (1) warnings are errors in the main process (what `pytest -W error` / `filterwarnings = error` or a
     `warnings.simplefilter('error')` in the main block does). coba's own Cycle filter warns ("Cycle only works
     for discrete environments without action features") for an environment whose actions are plain numbers:
         in-process : the warning is an exception, reading the environment fails, the evaluation has no rows
         on workers : it is only a warning, the evaluation is recorded
 (2) the main block raises the recursion limit for a learner that recurses (a tree walked recursively):
         in-process : the evaluation is recorded
         on workers : RecursionError in predict, the evaluation has no rows
"""
import sys, warnings

from coba.environments import Environments
from coba.learners import RandomLearner
from coba.experiments import Experiment

class DeepLearner:
    """A deterministic learner that walks a linked structure recursively."""
    def __init__(self, depth): self._depth = depth
    @property
    def params(self): return {'family':'deep','depth':self._depth}
    def _walk(self, n): return 0 if n == 0 else 1 + self._walk(n-1)
    def predict(self, context, actions): return actions[self._walk(self._depth) % len(actions)]
    def learn(self, context, action, reward, probability): pass

def n_rows(result):
    return len(result.interactions)

def exp1():
    #an environment whose actions are the numbers 0,1,2: Cycle can't cycle it and says so with warnings.warn
    envs = Environments.from_supervised([[i%7,(i*3)%5] for i in range(20)], [i%3 for i in range(20)], label_type='c').cycle(5)
    return Experiment(envs, [RandomLearner()])

def exp2():
    envs = Environments.from_linear_synthetic(20,n_actions=3,n_context_features=2,n_action_features=0,seed=1)
    return Experiment(envs, [DeepLearner(3000)])

if __name__ == '__main__':
    bad = False

    #(1)
    with warnings.catch_warnings():
        warnings.simplefilter('error')
        a = n_rows(exp1().run(quiet=True, processes=1))
        b = n_rows(exp1().run(quiet=True, processes=2))
    print(f"(1) warnings are errors in the main process : rows in-process = {a}, rows on 2 workers = {b}")
    if a != b: bad = True

    #(2)
    old = sys.getrecursionlimit()
    sys.setrecursionlimit(20000)
    try:
        c = n_rows(exp2().run(quiet=True, processes=1))
        d = n_rows(exp2().run(quiet=True, processes=2))
    finally:
        sys.setrecursionlimit(old)
    print(f"(2) recursion limit raised in the main block: rows in-process = {c}, rows on 2 workers = {d}")
    if c != d: bad = True

    if bad: print("VIOLATION: the Result depends on whether the experiment ran in-process or on worker processes")
    sys.exit(1 if bad else 0)
