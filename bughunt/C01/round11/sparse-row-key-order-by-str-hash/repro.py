"""
C01 - lazily parsed sparse rows iterate their keys in str-hash order, so Environments.sort() on a sparse
data set (sparse ARFF / OpenML) orders the interactions differently in every process.

The main process and every spawned worker have their own str hash seed (PYTHONHASHSEED is random unless
the user pins it). An experiment over `from_supervised(ArffSource(<sparse arff>)).sort()` therefore gives
a different Result in-process than on worker processes (and a different one in every new session).

Part 1 (deterministic, no luck involved): the order of the environment's interactions is computed in four
        interpreters with PYTHONHASHSEED=0,1,2,3 - they must all agree.
Part 2 (the property itself): Experiment.run in-process vs. on 2 worker processes. The parent is re-started
        with a pinned hash seed of 0 and 1; the workers inherit it, so for a given seed everything agrees, but
        the Results of the two sessions ("constructing and running the same experiment a second time")
        differ. Then the default situation (nothing pinned: parent and workers all differ) is shown.
"""
import os, sys, subprocess, hashlib, warnings
warnings.filterwarnings("ignore")

from coba.environments import Environments, ArffSource
from coba.pipes import ListSource
from coba.learners import BanditEpsilonLearner
from coba.experiments import Experiment

def arff_lines():
    L  = ["@relation t"]
    L += [f"@attribute feat_{c} numeric" for c in "abcdefgh"]
    L += ["@attribute y {0,1,2}", "@data"]
    for i in range(40):
        ks = sorted({(i*3)%8, (i*5+1)%8, (i*7+2)%8})
        L.append("{" + ",".join(f"{k} {i%4+1}" for k in ks) + f",8 {i%3}" + "}")
    return L

def make_envs():
    return Environments.from_supervised(ArffSource(ListSource(arff_lines())), label_col='y', label_type='c').sort()

def order_digest():
    out = [tuple(sorted(i['context'].items())) for i in make_envs()[0].read()]
    return hashlib.md5(repr(out).encode()).hexdigest()[:12]

def result_digest(**cfg):
    r = Experiment(make_envs(), [BanditEpsilonLearner(.1)]).run(quiet=True, seed=1, **cfg)
    rows = sorted(tuple(sorted((k,repr(v)) for k,v in d.items())) for d in r.interactions.to_dicts())
    return hashlib.md5(repr(rows).encode()).hexdigest()[:12], len(rows)

if __name__ == '__main__':

    if len(sys.argv) > 1 and sys.argv[1] == 'order':
        print(order_digest()); sys.exit(0)

    if len(sys.argv) > 1 and sys.argv[1] == 'run':
        print(result_digest(processes=1), result_digest(processes=2)); sys.exit(0)

    def child(mode, hashseed):
        env = dict(os.environ)
        env.pop('PYTHONHASHSEED',None)
        if hashseed is not None: env['PYTHONHASHSEED'] = str(hashseed)
        return subprocess.run([sys.executable, '-W', 'ignore', __file__, mode], env=env, capture_output=True, text=True, timeout=100).stdout.strip()

    bad = False

    print("Part 1: order of the interactions of from_supervised(<sparse arff>).sort(), by hash seed")
    digests = {s: child('order', s) for s in (0,1,2,3)}
    for s,d in digests.items(): print(f"   PYTHONHASHSEED={s}: {d}")
    if len(set(digests.values())) > 1:
        bad = True
        print("   VIOLATION: the same environment has a different order of interactions in different interpreters")

    print("Part 2: Experiment.run(processes=1) / Experiment.run(processes=2) digests of the interactions table")
    runs = {s: child('run', s) for s in (0,1,None)}
    for s,d in runs.items(): print(f"   PYTHONHASHSEED={'(not set)' if s is None else s}: {d}")
    if len(set(runs.values())) > 1:
        bad = True
        print("   VIOLATION: the Result of the same experiment depends on the interpreter's str hash seed")

    sys.exit(1 if bad else 0)
