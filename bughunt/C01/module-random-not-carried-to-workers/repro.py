"""
C01: a learner written as in coba's own documentation (doc/source/notebooks/Learners.ipynb: `cb.random.choice(actions)`,
seeded with `cb.random.seed(...)`) -- which is also what SafeLearner's PMF deprecation warning tells users to do
("Please use coba.random.choicew(actions,pmf) to return an action instead") -- gives a Result that depends on the
number of processes / maxchunksperchild / maxtasksperchunk, although Experiment.run(seed=...) is documented as
"The seed that will determine all randomness within the experiment".

run: PYTHONPATH=/tmp/w9_c01 /venv/bin/python /tmp/w9_c01/findings/module-random-not-carried-to-workers/repro.py
"""
import sys
import coba as cb

from coba.context      import CobaContext, NullLogger
from coba.environments import Environments
from coba.experiments  import Experiment

#Seeded at module level (not only under the __main__ guard as in the notebook) so that every spawned worker
#executes it too when it imports this file. This is the most favourable set-up for reproducibility.
cb.random.seed(1)

class MyRandomLearner:
    #verbatim from doc/source/notebooks/Learners.ipynb
    def predict(self, context, actions):
        return cb.random.choice(actions)
    def learn(self, context, action, reward, probability):
        pass

def make_experiment():
    envs = Environments.from_linear_synthetic(40,n_actions=4,seed=2).shuffle(n=4)
    return Experiment(envs,[MyRandomLearner()])

def rows(result):
    table = result.interactions
    cols  = [c for c in table.columns if c not in ('predict_time','learn_time')]
    return sorted([tuple((c,repr(r[c])) for c in cols) for r in table.to_dicts()])

def run(**config):
    cb.random.seed(1) #re-seed the module generator before every run (as the notebook does before every experiment)
    CobaContext.logger = NullLogger()
    return rows(make_experiment().run(quiet=True,seed=1,**config))

if __name__ == '__main__':
    inproc1 = run(processes=1,maxchunksperchild=0,maxtasksperchunk=0)
    inproc2 = run(processes=1,maxchunksperchild=0,maxtasksperchunk=0)
    print("in-process run == second in-process run:", inproc1==inproc2, f"({len(inproc1)} rows)")

    failed = False
    for config in [dict(processes=2,maxchunksperchild=0,maxtasksperchunk=0), dict(processes=1,maxchunksperchild=1,maxtasksperchunk=0), dict(processes=3,maxchunksperchild=2,maxtasksperchunk=1)]:
        r = run(**config)
        n_diff = sum(a!=b for a,b in zip(inproc1,r))
        print(f"{config}: {len(r)} rows, {n_diff} rows differ from the in-process Result")
        if r != inproc1: failed = True

    if failed or inproc1!=inproc2:
        print("\nVIOLATION: with a fixed experiment seed (and a fixed coba.random seed) the Result depends on the execution configuration")
        sys.exit(1)
    print("\nOK: same Result for every configuration")
