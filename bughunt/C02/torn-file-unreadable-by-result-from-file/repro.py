"""
C02: "A final record that was only partly written when the interruption happened never makes the file unusable."

Experiment.run(result_file) repairs such a file (Experiment._restore) but the documented way to LOAD a result file,
Result.from_file / Result.from_save (and Environments.from_result), has no such handling: for every byte-prefix that
ends inside a record it raises (json.JSONDecodeError for plain files, EOFError for .gz files) instead of returning
the records that are complete. Looking at what a killed (or still running!) experiment has produced so far is
impossible until the whole experiment has been set up and started again.
"""
import os, sys, tempfile, shutil, warnings
warnings.filterwarnings("ignore")

from coba.environments import Environments
from coba.learners import RandomLearner, BanditUCBLearner
from coba.experiments import Experiment
from coba.results import Result
from coba.context import CobaContext, NullLogger
CobaContext.logger = NullLogger()

def make():
    return Experiment(Environments.from_linear_synthetic(20,n_actions=2,seed=[1,2]), [RandomLearner(), BanditUCBLearner()])

d = tempfile.mkdtemp()
bad = []
try:
    for ext in [".log", ".log.gz"]:
        full = os.path.join(d, "full"+ext)
        make().run(full, quiet=True)
        raw = open(full,'rb').read()

        #the end of every record (for the plain file: every newline, for gz every member = every record)
        if ext == ".log":
            ends = [i+1 for i,b in enumerate(raw) if b == 10]
        else:
            ends = [i for i in range(1,len(raw)) if raw[i:i+3] == b'\x1f\x8b\x08'] + [len(raw)]

        n_tested = n_failed = 0
        first = None
        for n in range(ends[1]+1, len(raw), 7): #prefixes after the version + experiment record
            if n in ends: continue #between two records
            cut = os.path.join(d, "cut"+ext)
            open(cut,'wb').write(raw[:n])
            n_tested += 1
            try:
                Result.from_file(cut)
            except BaseException as e:
                n_failed += 1
                first = first or f"{type(e).__name__}: {e}"
        print(f"{ext:8}: Result.from_file failed for {n_failed} of {n_tested} prefixes that end inside a record (e.g. {first})")
        if n_failed: bad.append(ext)

    if bad:
        print("VIOLATION: a partly written final record makes the result file unreadable for Result.from_file")
        sys.exit(1)
    print("OK")
finally:
    shutil.rmtree(d, ignore_errors=True)
