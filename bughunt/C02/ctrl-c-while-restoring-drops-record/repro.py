"""
C02: a Ctrl-C (or a MemoryError) that arrives while Experiment._restore checks whether the last line of the
result file is a complete record is swallowed by the bare `except:` of coba.utilities.try_else. The check then
answers "not a record": the last -- perfectly complete -- record is dropped, the result file is REWRITTEN without it,
the Ctrl-C is ignored (the experiment goes on) and the triple that was recorded in the file is evaluated again.

The last record of a result file is normally an "I" record (all rows of an evaluation: easily several MB), so parsing it
is the longest single step of "Restoring Results".

The Ctrl-C is a real SIGINT that we send to ourselves when the check starts to parse the line.
"""
import os, sys, signal, time, json, tempfile, shutil, warnings
warnings.filterwarnings("ignore")

import coba.experiments.core as core
from coba.environments import Environments
from coba.learners import RandomLearner, BanditUCBLearner
from coba.evaluators import SequentialCB
from coba.experiments import Experiment
from coba.context import CobaContext, NullLogger
CobaContext.logger = NullLogger()

evaluated = []
class CountingCB(SequentialCB):
    def evaluate(self, env, lrn):
        evaluated.append(1)
        return super().evaluate(env, lrn)

def make():
    envs = Environments.from_linear_synthetic(20, n_actions=2, seed=[1,2,3])
    return Experiment(envs, [RandomLearner(), BanditUCBLearner()], CountingCB())

class JsonWithCtrlC:
    """What core.py sees as the json module: the first loads is interrupted by the user's Ctrl-C."""
    def __init__(self): self.fired = False
    def loads(self, s, *args, **kwargs):
        if not self.fired:
            self.fired = True
            os.kill(os.getpid(), signal.SIGINT) #Ctrl-C while the line is parsed
            time.sleep(0.01)                    #(python raises KeyboardInterrupt at the next bytecode)
        return json.loads(s, *args, **kwargs)
    def __getattr__(self, name): return getattr(json, name)

d = tempfile.mkdtemp()
try:
    log = os.path.join(d, "result.log")
    n_I = lambda: [tuple(json.loads(l)[1]) for l in open(log) if l.startswith('["I"')]

    #a killed run: 4 of the 6 triples were recorded (the file ends between two records)
    make().run(log, quiet=True)
    lines = open(log).readlines()
    keep  = [i for i,l in enumerate(lines) if l.startswith('["I"')][3]
    open(log,'w').writelines(lines[:keep+1])
    recorded = n_I()
    print("recorded triples in the file of the killed run:", recorded)
    del evaluated[:]

    core.json = JsonWithCtrlC()
    try:
        try:
            make().run(log, quiet=True) #resume with fresh objects, the user presses Ctrl-C while results are restored
            print("the Ctrl-C was swallowed: the experiment was not aborted")
        except KeyboardInterrupt:
            print("the Ctrl-C ended the run (fine)")
    finally:
        core.json = json

    after = n_I()
    print("triples evaluated by the resumed run:", len(evaluated), "(2 were missing)")
    print("recorded triples afterwards         :", after)

    if not set(recorded) <= set(after) or len(evaluated) > 2:
        print("VIOLATION: a complete record was removed from the result file and its triple was evaluated again")
        sys.exit(1)
    print("OK")
finally:
    shutil.rmtree(d, ignore_errors=True)
