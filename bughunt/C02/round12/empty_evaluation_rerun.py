import os, tempfile, warnings
warnings.simplefilter("ignore")
from coba.experiments import Experiment
from coba.learners import RandomLearner
from coba.evaluators import SequentialCB
from coba.context import CobaContext, NullLogger
CobaContext.logger = NullLogger()
CALLS=[]
class Env:
    def __init__(self,i,n): self.i=i; self.n=n
    @property
    def params(self): return {'id':self.i}
    def read(self):
        for k in range(self.n):
            yield {'context':k,'actions':[0,1,2],'rewards':[1,0,0]}
class CB(SequentialCB):
    def evaluate(self,e,l):
        CALLS.append(e.params['id']); return super().evaluate(e,l)
f=os.path.join(tempfile.mkdtemp(),'o.log')
exp=lambda: Experiment([Env(0,0),Env(1,3)],[RandomLearner()],CB())
exp().run(f,quiet=True,processes=1); print("first run evaluated envs",CALLS); CALLS.clear()
exp().run(f,quiet=True,processes=1); print("second run (complete file) evaluated envs",CALLS)
print(open(f).read())
