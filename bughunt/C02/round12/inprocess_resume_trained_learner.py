import os, tempfile, warnings
warnings.simplefilter("ignore")
from coba.experiments import Experiment
from coba.evaluators import SequentialCB
from coba.context import CobaContext, NullLogger
CobaContext.logger = NullLogger()
class Env:
    boom = False
    @property
    def params(self): return {'id':0}
    def read(self):
        for k in range(6):
            if Env.boom and k == 2: raise KeyboardInterrupt()
            yield {'context':k,'actions':[0,1,2],'rewards':[1,0,0]}
class Lrn:
    def __init__(self): self.n=0
    @property
    def params(self): return {'family':'cnt'}
    def predict(self,c,A): return A[self.n%3],1
    def learn(self,c,a,r,p): self.n+=1
ref = Experiment([Env()],[Lrn()]).run(quiet=True,processes=1).interactions['reward']
f=os.path.join(tempfile.mkdtemp(),'o.log')
exp = Experiment([Env()],[Lrn()])
Env.boom=True;  exp.run(f,quiet=True,processes=1)   #Ctrl-C during the only evaluation
Env.boom=False; got = exp.run(f,quiet=True,processes=1).interactions['reward']
print("uninterrupted",ref); print("resumed in the same process",got)
