"""
C02: a killed + resumed experiment does not give the Result of the uninterrupted run when a logged environment that is
cached (Environments.logged(policy).chunk(), which is what chunk() is documented for) has a logging policy that draws
with the module level functions of coba.random (what coba's own deprecation warning tells learner authors to use).

What the lazily evaluated logging policy draws depends on WHO pulls the interactions into the cache:
  * the "Peeking at Environment" task pulls the first 25 while coba.random is not seeded at all (clock seeded in a new
    interpreter / a new worker process)
  * the first evaluation that reads the environment pulls the rest while the logging policy shares (and interleaves on)
    the generator that ProcessTasks seeded for the evaluated learner
  * every later evaluation gets the frozen cache.
A resumed run skips the peek (E record is in the file) and has a different "first" evaluation, so the logged data, and with
it every remaining triple, differs from the uninterrupted run.

PART 1: two uninterrupted runs in two new interpreters (same seed) give different Results (nothing seeds the peek).
PART 2: with the clock taken out (the script seeds coba.random at start, as a careful user would) the run resumed from the
        file a kill after the first evaluation leaves behind gives a different Result than the uninterrupted run.
"""
import warnings; warnings.filterwarnings("ignore")
import os, sys, json, tempfile, subprocess, hashlib

import coba.random as cr
from coba.context import CobaContext, NullLogger
from coba.environments import Environments
from coba.evaluators import SequentialCB
from coba.experiments import Experiment

class EpsGreedy:
    """An epsilon greedy bandit learner that draws with coba.random's module functions (as coba recommends)."""
    def __init__(self, epsilon): self._eps = epsilon; self._q = {}; self._n = {}
    @property
    def params(self): return {'family':'EpsGreedy','epsilon':self._eps}
    def _key(self,a): return tuple(a) if isinstance(a,(list,tuple)) else a
    def predict(self, context, actions):
        if cr.random() < self._eps:
            i = cr.randint(0,len(actions)-1)
        else:
            i = max(range(len(actions)), key=lambda j: self._q.get(self._key(actions[j]),0))
        greedy = max(range(len(actions)), key=lambda j: self._q.get(self._key(actions[j]),0))
        p = self._eps/len(actions) + (1-self._eps)*(i==greedy)
        return actions[i], p
    def learn(self, context, action, reward, probability):
        k = self._key(action); n = self._n.get(k,0)+1
        self._n[k] = n; self._q[k] = self._q.get(k,0) + (reward-self._q.get(k,0))/n

def make_experiment():
    #fresh objects, exactly what a script builds when it is started again
    envs = Environments.from_linear_synthetic(100,n_actions=3,n_context_features=2,n_action_features=2).logged(EpsGreedy(.5)).chunk()
    return Experiment(envs, [EpsGreedy(.1), EpsGreedy(.3)], SequentialCB(learn='off',eval='ips'))

def canon(result):
    rows = sorted(json.dumps(sorted((k,repr(v)) for k,v in r.items() if 'time' not in k)) for r in result.interactions.to_dicts())
    return rows

def digest(rows): return hashlib.md5("\n".join(rows).encode()).hexdigest()

if __name__ == '__main__':
    CobaContext.logger = NullLogger()
    d = tempfile.mkdtemp(prefix="c02_repro_")

    if len(sys.argv) > 1 and sys.argv[1] == 'child':
        print(digest(canon(make_experiment().run(sys.argv[2],quiet=True))))
        sys.exit(0)

    failed = False

    print("PART 1: the same uninterrupted experiment in two new interpreters (seed=1 both times)")
    digests = []
    for i in range(2):
        out = subprocess.run([sys.executable,"-W","ignore",__file__,'child',os.path.join(d,f"p1_{i}.log")],capture_output=True,text=True,timeout=100,env={**os.environ})
        digests.append(out.stdout.strip().splitlines()[-1] if out.stdout.strip() else out.stderr[-300:])
    print("   digests of the interaction rows:",digests)
    if digests[0] != digests[1]:
        failed = True
        print("   VIOLATION: two uninterrupted runs of the same experiment differ, so a resumed run can't equal 'the' uninterrupted run")

    print("PART 2: clock removed (coba.random.seed(7) at script start), killed after the first evaluation, resumed")
    full = os.path.join(d,"full.log")
    cr.seed(7)
    full_rows = canon(make_experiment().run(full,quiet=True))
    lines = open(full).read().splitlines()
    print("   records of the uninterrupted run:",[l[:14] for l in lines])
    first_I = next(i for i,l in enumerate(lines) if l.startswith('["I"'))
    killed = os.path.join(d,"killed.log")
    open(killed,'w').write("\n".join(lines[:first_I+1])+"\n") #what a kill right after the first evaluation leaves
    cr.seed(7) #the script starts again
    resumed_rows = canon(make_experiment().run(killed,quiet=True))
    keys = [json.loads(l)[1] for l in open(killed).read().splitlines() if l.startswith('["I"')]
    print("   I records after the resumed run:",keys)
    if resumed_rows != full_rows:
        failed = True
        only_full = [r for r in full_rows if r not in set(resumed_rows)]
        key = lambda r: tuple(v for k,v in json.loads(r) if k in ('learner_id','index'))
        res_by_key = {key(r):r for r in resumed_rows}
        print(f"   VIOLATION: resumed Result != uninterrupted Result ({len(only_full)} of {len(full_rows)} interaction rows differ)")
        print("   e.g. uninterrupted:",only_full[0][:230])
        print("        resumed      :",res_by_key[key(only_full[0])][:230])
    else:
        print("   resumed Result equals the uninterrupted Result")

    sys.exit(1 if failed else 0)
