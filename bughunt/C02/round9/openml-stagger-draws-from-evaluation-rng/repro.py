"""
C02 ('re-runs using any execution configuration'): resuming a killed single process run with processes=2 gives different
rows than the uninterrupted run for a learner that draws with coba.random's module functions on an OpenML environment whose
data is downloaded during the evaluation (here: caching switched off with NullCacher; with the default disk cache the same
happens to whichever evaluation wins the race for the first download).

Reason: in a background process OpenmlSource._http_request staggers its requests with time.sleep(2*random()) where random
is coba.random.random - the module generator that ProcessTasks has just seeded for the evaluation. Every request made
during an evaluation takes one draw away from the learner. In a single process run no draw is taken (no semaphore).

No network is used: HttpSource is replaced by an in-memory fake (also in the background processes, the patch is at module level).
"""
import warnings; warnings.filterwarnings("ignore")
import sys, os, json, tempfile, time

import coba.random as cr
import coba.environments.openml as oml
from coba.context import CobaContext, NullCacher, NullLogger
from coba.environments import Environments
from coba.experiments import Experiment

def arff_lines():
    yield from ["@relation fake","@attribute f1 numeric","@attribute f2 numeric","@attribute class {a,b,c}","@data"]
    for i in range(60):
        yield f"{(i*37)%101/101:.4f},{(i*53)%89/89:.4f},{'abc'[(i*7+i//5)%3]}"

DATA = {"data_set_description":{"id":"123","name":"fake","file_id":"999","default_target_attribute":"class","status":"active"}}
FEAT = {"data_features":{"feature":[{"index":str(i),"name":n,"data_type":t,"is_target":str(n=='class').lower(),"is_ignore":"false","is_row_identifier":"false"}
        for i,(n,t) in enumerate([("f1","numeric"),("f2","numeric"),("class","nominal")])]}}

class FakeHttpSource:
    def __init__(self, url, chunk_size=None, timeout=None): self._url = url
    def read(self):
        if   '/json/data/features/' in self._url: yield json.dumps(FEAT)
        elif '/json/data/'          in self._url: yield json.dumps(DATA)
        elif '/data/v1/download/'   in self._url: yield from arff_lines()
        else: raise Exception("unexpected url "+self._url)

oml.HttpSource = FakeHttpSource
oml.time = type("T",(),{"sleep":staticmethod(lambda s: None)}) #we don't need to actually wait for the stagger

class ModuleRandomLearner:
    """uniformly random actions drawn with coba.random.choice (what coba recommends to learner authors)"""
    @property
    def params(self): return {'family':'ModuleRandom'}
    def predict(self, context, actions): return cr.choice(actions), 1/len(actions)
    def learn(self, context, action, reward, probability): pass

def make_experiment():
    return Experiment(Environments.from_openml(data_id=123), [ModuleRandomLearner(), ModuleRandomLearner()])

def rows(result):
    return sorted(json.dumps({k:v for k,v in d.items() if 'time' not in k},sort_keys=True,default=str) for d in result.interactions.to_dicts())

if __name__ == '__main__':
    CobaContext.logger = NullLogger()
    CobaContext.cacher = NullCacher()
    d = tempfile.mkdtemp(prefix="c02_oml_")

    full = os.path.join(d,"full.log")
    ref = rows(make_experiment().run(full,quiet=True))
    lines = open(full).read().splitlines()
    first_I = next(i for i,l in enumerate(lines) if l.startswith('["I"'))
    print("uninterrupted single process run:",[l[:12] for l in lines])

    failed = False
    for cfg in [dict(), dict(processes=2)]:
        killed = os.path.join(d,f"killed_{len(cfg)}.log")
        open(killed,'w').write("\n".join(lines[:first_I+1])+"\n") #what a kill after the first evaluation leaves
        res = rows(make_experiment().run(killed,quiet=True,**cfg))
        n_diff = len(set(ref)-set(res))
        print(f"resumed with {cfg or 'the same configuration'}: {len(res)} rows, {n_diff} rows differ from the uninterrupted run")
        if res != ref:
            failed = True
            a = sorted(set(ref)-set(res))[0]; k = json.loads(a)
            b = next(r for r in res if json.loads(r)['learner_id']==k['learner_id'] and json.loads(r)['index']==k['index'])
            print("   uninterrupted:",a[:200]); print("   resumed      :",b[:200])
    if failed: print("VIOLATION: the Result of the resumed run depends on the execution configuration")
    sys.exit(1 if failed else 0)
