"""
C02: a run that is killed while a data set is being downloaded into coba's disk cache leaves a partly written cache entry.
The resumed run finds the entry, fails on it while it peeks at the environment (the failure is swallowed, the entry is then
removed and downloaded again) and records the environment's parameters WITHOUT what only reading reveals (n_actions, ...).
That E record is never repaired by any later run, so the final Result differs from that of an uninterrupted run for good.

No network is used: coba.environments.openml.HttpSource is replaced by a fake that serves a small OpenML data set from
memory. The kill is real: the child process SIGKILLs itself while the (fake) ARFF download is written to the cache.

usage: repro.py            (driver)
       repro.py <mode> <cache_dir> <result_file>   (child; mode in full|kill|resume)
"""
import warnings; warnings.filterwarnings("ignore")
import sys, os, json, signal, subprocess, tempfile

import coba.environments.openml as oml
from coba.context import CobaContext, DiskCacher, NullLogger
from coba.environments import Environments
from coba.learners import RandomLearner, BanditEpsilonLearner
from coba.experiments import Experiment

N_ROWS, KILL_AT = 60000, 50000

def arff_lines():
    yield from ["@relation fake","@attribute f1 numeric","@attribute f2 numeric","@attribute f3 {x,y,z}","@attribute class {a,b,c}","@data"]
    for i in range(N_ROWS):
        yield f"{(i*37)%101/101:.4f},{(i*53)%89/89:.4f},{'xyz'[i%3]},{'abc'[(i*7+i//5)%3]}"

DATA = {"data_set_description":{"id":"123","name":"fake","file_id":"999","default_target_attribute":"class","status":"active"}}
FEAT = {"data_features":{"feature":[{"index":str(i),"name":n,"data_type":t,"is_target":str(n=='class').lower(),"is_ignore":"false","is_row_identifier":"false"}
        for i,(n,t) in enumerate([("f1","numeric"),("f2","numeric"),("f3","nominal"),("class","nominal")])]}}

class FakeHttpSource:
    kill_at = None #SIGKILL this process after this many ARFF lines have been handed to the cache
    def __init__(self, url, chunk_size=None, timeout=None): self._url = url
    def read(self):
        if   '/json/data/features/' in self._url: yield json.dumps(FEAT)
        elif '/json/data/'          in self._url: yield json.dumps(DATA)
        elif '/data/v1/download/'   in self._url:
            for i,l in enumerate(arff_lines()):
                if i == FakeHttpSource.kill_at: os.kill(os.getpid(), signal.SIGKILL)
                yield l
        else: raise Exception("unexpected url "+self._url)

oml.HttpSource = FakeHttpSource

def make_experiment():
    #a usual way to use a big OpenML data set: a random sample of its rows (take=), shuffled a few times
    envs = Environments.from_openml(data_id=123,take=150).shuffle(n=2)
    return Experiment(envs, [RandomLearner(), BanditEpsilonLearner()])

def summary(result):
    envs = sorted(json.dumps(d,sort_keys=True,default=str) for d in result.environments.to_dicts())
    ints = sorted(json.dumps({k:v for k,v in d.items() if 'time' not in k},sort_keys=True,default=str) for d in result.interactions.to_dicts())
    return {'envs':envs,'ints':ints}

def child(mode,cache,res):
    out = subprocess.run([sys.executable,"-W","ignore",__file__,mode,cache,res],capture_output=True,text=True,timeout=100)
    last = out.stdout.strip().splitlines()[-1] if out.stdout.strip() else None
    return out.returncode, (json.loads(last) if last and last.startswith('{') else None), out.stderr[-500:]

if __name__ == '__main__':
    if len(sys.argv) > 1:
        mode,cache,res = sys.argv[1:4]
        CobaContext.cacher = DiskCacher(cache)
        CobaContext.logger = NullLogger()
        if mode == 'kill': FakeHttpSource.kill_at = KILL_AT
        print(json.dumps(summary(make_experiment().run(res,quiet=True))))
        sys.exit(0)

    d = tempfile.mkdtemp(prefix="c02_cache_")
    rc,ref,err = child('full',os.path.join(d,'cacheA'),os.path.join(d,'full.log'))
    assert rc == 0 and ref, err
    print(f"uninterrupted run: {len(ref['envs'])} environments, {len(ref['ints'])} interaction rows")

    cacheB,resB = os.path.join(d,'cacheB'),os.path.join(d,'res.log')
    rc,_,err = child('kill',cacheB,resB)
    entry = os.path.join(cacheB,'openml_000123_arff.gz')
    print(f"killed run       : exit code {rc} (-9 = SIGKILL), result file has {len(open(resB).read().splitlines())} records, cache entry {os.path.basename(entry)} has {os.path.getsize(entry)} bytes (partly written)")
    assert rc == -signal.SIGKILL

    failed = False
    for i in (1,2):
        rc,res,err = child('resume',cacheB,resB)
        assert rc == 0 and res, err
        same_e, same_i = res['envs']==ref['envs'], res['ints']==ref['ints']
        print(f"resumed run #{i}   : environments equal to uninterrupted: {same_e}; interaction rows equal: {same_i} ({len(res['ints'])} rows)")
        if not (same_e and same_i):
            failed = True
            for a,b in zip(ref['envs'],res['envs']):
                if a!=b:
                    print("   uninterrupted E:",a)
                    print("   resumed       E:",b)
            if not same_i:
                print(f"   {len(set(ref['ints'])-set(res['ints']))} interaction rows of the uninterrupted run are missing")
    if failed: print("VIOLATION: the resumed run(s) never produce the Result of the uninterrupted run")
    sys.exit(1 if failed else 0)
