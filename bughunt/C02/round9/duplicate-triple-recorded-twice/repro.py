"""
C02 (minor): a (environment, learner, evaluator) triple that is given twice - the same learner object twice in the learner
list, or the same tuple twice in eval_tuples - is evaluated twice and recorded twice in the result file within one run,
although the first copy is already recorded in the file when the second one is started. MakeTasks only looks at what was
restored when the run started, not at what it has already handed out.
"""
import warnings; warnings.filterwarnings("ignore")
import os, sys, json, tempfile
from collections import Counter

import coba.experiments.process as proc
from coba.context import CobaContext, NullLogger
from coba.environments import Environments
from coba.learners import RandomLearner, BanditEpsilonLearner
from coba.experiments import Experiment

CobaContext.logger = NullLogger()

evaluated = []
_orig = proc.SafeEvaluator.evaluate
def counting(self, env, lrn):
    evaluated.append(type(lrn).__name__)
    return _orig(self, env, lrn)
proc.SafeEvaluator.evaluate = counting

def I_keys(path): return [tuple(json.loads(l)[1]) for l in open(path) if l.startswith('["I"')]

d = tempfile.mkdtemp(prefix="c02_dup_")
failed = False

#(1) the same learner object listed twice
shared = RandomLearner()
f1 = os.path.join(d,"a.log")
Experiment(Environments.from_linear_synthetic(30,n_actions=3), [shared, BanditEpsilonLearner(), shared]).run(f1,quiet=True)
c = Counter(I_keys(f1))
print("learners=[A,B,A]          : I records",dict(c),"evaluations",len(evaluated))
if any(n>1 for n in c.values()): failed = True

#(2) the same tuple twice in eval_tuples
evaluated.clear()
env = Environments.from_linear_synthetic(30,n_actions=3)[0]
lrn = RandomLearner()
from coba.evaluators import SequentialCB
val = SequentialCB()
f2 = os.path.join(d,"b.log")
Experiment([(env,lrn,val),(env,lrn,val)]).run(f2,quiet=True)
c = Counter(I_keys(f2))
print("eval_tuples=[t,t]         : I records",dict(c),"evaluations",len(evaluated))
if any(n>1 for n in c.values()): failed = True

if failed: print("VIOLATION: a triple was evaluated again although it was already recorded in the file, and it was recorded twice")
sys.exit(1 if failed else 0)
