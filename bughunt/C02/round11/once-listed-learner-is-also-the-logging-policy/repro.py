"""
C02 - killed+resumed Result differs from the uninterrupted Result when a learner that is listed once is also
the logging policy of the (logged) environment it is evaluated on:

    L    = BanditEpsilonLearner(.2)
    envs = Environments.from_linear_synthetic(...).logged(L)          #data logged by L
    Experiment(envs, [L, M], SequentialCB(learn='off',eval='ips'))    #off-policy evaluation of L itself and of M

(the standard sanity check of an off-policy estimator: the logging policy is evaluated next to the candidates).

NOTE: same root cause as the already known CorralLearner item (a learner that is listed once is trained in
place, process.py:85 copy=learner_counts[lrn]>1) - reached through a different alias: Logged keeps a reference to
the listed learner and deep-copies it every time the environment is read (filters.py:1465).

Exit code 1 = violation shown, 0 = behaves correctly.
"""
import warnings; warnings.simplefilter("ignore")
import os, sys, shutil, tempfile

from coba.experiments import Experiment
from coba.environments import Environments
from coba.learners import BanditEpsilonLearner, BanditUCBLearner
from coba.evaluators import SequentialCB
from coba.context import CobaContext, NullLogger

def make():
    L    = BanditEpsilonLearner(.2)
    M    = BanditUCBLearner()
    envs = Environments.from_linear_synthetic(100,n_actions=3,seed=5).logged(L)
    return Experiment(envs,[L,M],SequentialCB(learn='off',eval='ips'))

def same(a,b):
    return a==b and a.interactions==b.interactions

if __name__ == "__main__":
    CobaContext.logger = NullLogger()
    work = tempfile.mkdtemp(prefix="c02_logged_")
    try:
        full = os.path.join(work,"uninterrupted.log")
        R0   = make().run(full,quiet=True)
        recs = open(full).read().splitlines()

        #the run is killed right after the record of (environment 0, learner 0) was written
        k = next(i for i,l in enumerate(recs) if l.startswith('["I",[0,0,0]'))+1
        killed = os.path.join(work,"killed.log")
        with open(killed,"w") as f: f.write("".join(l+"\n" for l in recs[:k]))

        R1 = make().run(killed,quiet=True) #resumed with fresh objects

        print("records in the file when the run was killed:", [l[:12] for l in recs[:k]])
        print("resumed Result equals the uninterrupted one :", same(R0,R1))
        r0 = R0.interactions.where(learner_id=1)['reward']
        r1 = R1.interactions.where(learner_id=1)['reward']
        diff = [i for i,(a,b) in enumerate(zip(r0,r1),1) if a!=b]
        print(f"learner 1: {len(diff)} of {len(r0)} rewards differ, mean {sum(r0)/len(r0):.4f} (uninterrupted) vs {sum(r1)/len(r1):.4f} (killed+resumed)")

        if not same(R0,R1):
            print("VIOLATION: in the uninterrupted run learner 1 is evaluated on data logged by the TRAINED learner 0, in the resumed run on data logged by the untrained one")
            sys.exit(1)
        print("OK"); sys.exit(0)
    finally:
        shutil.rmtree(work,ignore_errors=True)
