"""
C02 - a Ctrl-C that arrives while NumericEncoder converts a value is swallowed and turned into a NaN feature
value. The experiment carries on with the damaged data and records the rows computed from it. When the user
finally gets the run to stop (second Ctrl-C) and resumes it, these rows are in the file, are not evaluated
again and so the final Result differs from the one of an uninterrupted run.

The SIGINT is a real signal (signal.raise_signal). To make it arrive at a known place we use sys.settrace: the
trace function sends the signal when the line `return float(value)` of NumericEncoder.encode is executed for
the n-th time. Python runs the signal handler right there, i.e. KeyboardInterrupt is raised inside encode's
`try:` exactly as it is when the user's Ctrl-C arrives while float(value) is being executed. Nothing of coba is
patched.

Exit code 1 = violation shown, 0 = behaves correctly.
"""
import warnings; warnings.simplefilter("ignore")
import os, sys, json, math, signal, shutil, tempfile

from coba.experiments import Experiment
from coba.environments import Environments
from coba.environments.supervised import CsvSource
from coba.encodings import NumericEncoder
from coba.pipes import Pipes, Encode
from coba.evaluators import SequentialCB
from coba.context import CobaContext, BasicLogger
from coba.pipes import ListSink

N_ROWS = 60

class Perceptron:
    """A small learner that uses the context (one weight vector per action)."""
    def __init__(self, lr=.1): self._lr=lr; self._w={}
    @property
    def params(self): return {'family':'perceptron','lr':self._lr}
    def _score(self,x,a): return sum(w*v for w,v in zip(self._w.get(a,[0]*len(x)),x))
    def predict(self,x,A):  return max(A,key=lambda a:self._score(x,a))
    def learn(self,x,a,r,p,**kw):
        w = self._w.setdefault(a,[0]*len(x))
        e = r-self._score(x,a)
        for i,v in enumerate(x): w[i] += self._lr*e*v

class Constant:
    """A second learner. The second Ctrl-C of the user arrives while it is evaluated."""
    second_ctrl_c_at = None #set for the interrupted run only (this is the user's key press, not part of the experiment)
    def __init__(self): self._n=0
    @property
    def params(self): return {'family':'constant'}
    def predict(self,x,A):
        self._n += 1
        if Constant.second_ctrl_c_at == self._n:
            Constant.second_ctrl_c_at = None
            signal.raise_signal(signal.SIGINT)
        return A[0]
    def learn(self,*a,**k): pass

def make(csv):
    source = Pipes.join(CsvSource(csv), Encode({0:NumericEncoder(),1:NumericEncoder(),2:NumericEncoder()}))
    envs   = Environments.from_supervised(source, label_col=3, label_type='c')
    return Experiment(envs, [Perceptron(), Constant()], SequentialCB())

def same(a,b):
    return a==b and a.interactions==b.interactions

def send_sigint_on_nth_conversion(n):
    code  = NumericEncoder.encode.__code__
    line  = code.co_firstlineno+2 #`return float(value)`
    count = [0]
    def local(frame,event,arg):
        if event == 'line' and frame.f_lineno == line:
            count[0] += 1
            if count[0] == n:
                sys.settrace(None)
                signal.raise_signal(signal.SIGINT) #the handler runs here: KeyboardInterrupt inside encode's try block
        return local
    def tracer(frame,event,arg):
        return local if frame.f_code is code else None
    sys.settrace(tracer)

if __name__ == "__main__":
    import inspect
    assert inspect.getsource(NumericEncoder.encode).splitlines()[2].strip() == "return float(value)", "the line to interrupt moved"

    work = tempfile.mkdtemp(prefix="c02_nan_")
    logs = ListSink()
    CobaContext.logger = BasicLogger(logs)
    try:
        csv = os.path.join(work,"data.csv")
        with open(csv,"w") as f:
            for i in range(N_ROWS):
                x = [((i*7)%11)/10, ((i*3)%5)/4, ((i*5)%7)/6]
                f.write(",".join(map(str,x))+","+("a" if x[0]+x[1]>x[2]+.5 else "b")+"\n")

        R0 = make(csv).run(os.path.join(work,"uninterrupted.log"),quiet=True)

        #--- the run that is interrupted -------------------------------------------------------------
        path = os.path.join(work,"result.log")
        logs.items.clear()
        Constant.second_ctrl_c_at = 10
        #conversions: the environment is read once to look at it and then once per evaluation (a classification data
        #set is read completely every time, all labels have to be known). We aim at a value of the 21st row while the
        #environment is read for the evaluation of the first learner (3 values per row).
        send_sigint_on_nth_conversion(N_ROWS*3 + 20*3 + 2)
        try:
            make(csv).run(path,quiet=True)
        finally:
            sys.settrace(None)
        recorded = [json.loads(l)[1] for l in open(path) if l.startswith('["I"')]
        stopped_by_first = [0,0,0] not in recorded
        print("1st Ctrl-C (inside NumericEncoder.encode) stopped the run:", stopped_by_first)
        print("2nd Ctrl-C stopped the run                              :", [0,1,0] not in recorded)
        print("triples in the file after the interrupted run            :", recorded)

        #--- resumed with fresh objects ---------------------------------------------------------------
        Constant.second_ctrl_c_at = None
        R1 = make(csv).run(path,quiet=True)
        recorded = [json.loads(l)[1] for l in open(path) if l.startswith('["I"')]
        print("triples in the file after the resumed run                :", recorded)

        r0 = R0.interactions.where(learner_id=0)['reward']
        r1 = R1.interactions.where(learner_id=0)['reward']
        diff = [i for i,(a,b) in enumerate(zip(r0,r1),1) if a!=b]
        print("final Result equals the uninterrupted one                :", same(R0,R1))
        if diff: print(f"rewards of learner 0 differ at interactions {diff[:10]}{'...' if len(diff)>10 else ''} (total reward {sum(r0)} vs {sum(r1)})")

        if not same(R0,R1) or not stopped_by_first:
            print("VIOLATION: the Ctrl-C was swallowed, became a NaN in the data and the rows computed from it stay in the result file")
            sys.exit(1)
        print("OK")
        sys.exit(0)
    finally:
        shutil.rmtree(work,ignore_errors=True)
