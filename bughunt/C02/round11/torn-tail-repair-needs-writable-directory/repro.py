"""
C02 - a partly written final record makes the result file unusable when a second file
cannot be created next to it.

Experiment._restore repairs a torn tail by writing a complete copy of the result file to
"<result_file>.partial" and renaming it over the result file. That needs (a) the right to
create files in the result file's directory, (b) free space for a second copy and (c) a
result file that can be renamed over (not a bind mounted file). The experiment itself only
ever needs to append to the result file. So in a directory where the run can append to its
result file but cannot create files
  * a run that was killed BETWEEN two records is resumed without any problem, but
  * a run that was killed INSIDE a record can never be resumed: every later run raises out
    of Experiment.run (the repair is not even inside run's try block).

The script drops root (if it is root) because root ignores directory permissions.
Exit code 1 = violation shown, 0 = resumed correctly.
"""
import warnings; warnings.simplefilter("ignore")
import os, sys, shutil, subprocess, tempfile, warnings, traceback

def child(work, say=print):
    import gzip, zlib, json
    from coba.experiments import Experiment
    from coba.environments import Environments
    from coba.learners import RandomLearner, BanditEpsilonLearner
    from coba.context import CobaContext, NullLogger
    CobaContext.logger = NullLogger()

    def make():
        envs = Environments.from_linear_synthetic(30, n_actions=3, seed=5).shuffle(n=2)
        return Experiment(envs, [RandomLearner(), BanditEpsilonLearner(0.1)])

    def same(a,b):
        return a==b and a.interactions==b.interactions and a.experiment==b.experiment

    bad = 0
    for ext in [".log", ".log.gz"]:
        full = os.path.join(work,"full"+ext)
        R0   = make().run(full,quiet=True)

        #the file sizes a killed run can leave: we write the records one by one as DiskSink(batch=1) does
        from coba.pipes import DiskSink, DiskSource
        recs = list(DiskSource(full).read())
        tmp  = os.path.join(work,"tmp"+ext)
        ends = []
        for r in recs:
            DiskSink(tmp).write([r]) #one open/write/close per record, as the experiment's DiskSink(batch=1) does
            ends.append(os.path.getsize(tmp))
        data = open(tmp,'rb').read()

        k = len(recs)-3                               #the run is killed while it writes record k
        between = data[:ends[k-1]]                    #killed between record k-1 and record k
        inside  = data[:(ends[k-1]+ends[k])//2]       #killed in the middle of record k

        for name,prefix in [("killed between two records",between),("killed inside a record",inside)]:
            d = os.path.join(work, ("ro_"+name.replace(" ","_")+ext).replace(".","_"))
            os.mkdir(d)
            p = os.path.join(d,"result"+ext)
            open(p,'wb').write(prefix)
            os.chmod(p,0o644)
            os.chmod(d,0o555) #we may append to the file but we may not create files next to it
            try:
                try:
                    R = make().run(p,quiet=True)
                    ok = same(R,R0)
                    say(f"[{ext:7}] {name:27}: resumed, result equal to the uninterrupted run: {ok}")
                    if not ok: bad += 1
                except BaseException as e:
                    bad += 1
                    say(f"[{ext:7}] {name:27}: Experiment.run RAISED {type(e).__name__}: {e}")
                    say(f"          (the file can be appended to: {os.access(p,os.W_OK)}; every further run fails in the same way)")
            finally:
                os.chmod(d,0o755)
    return bad

if __name__ == "__main__":
    work = tempfile.mkdtemp(prefix="c02_ro_")
    os.chmod(work,0o755)
    pid = os.fork() #a child, so that dropping root does not get in the way of cleaning up
    if pid == 0:
        rc = 2
        try:
            if os.geteuid() == 0:
                #root ignores directory permissions, so we become nobody. The interpreter lives under /root: everything
                #that is needed has to be imported before (a complete warm-up run in a scratch directory does that).
                warm = os.path.join(work,"warm"); os.mkdir(warm); child(warm,lambda *a:None); shutil.rmtree(warm)
                os.chown(work,65534,65534)
                os.setgroups([]); os.setgid(65534); os.setuid(65534)
            os.chdir(work)
            rc = 1 if child(work) else 0
        except BaseException:
            traceback.print_exc()
        finally:
            sys.stdout.flush(); os._exit(rc)
    else:
        rc = os.waitstatus_to_exitcode(os.waitpid(pid,0)[1])
        subprocess.run(["chmod","-R","u+rwx",work]); shutil.rmtree(work,ignore_errors=True)
        print("VIOLATION: a partly written final record made the result file unusable" if rc==1 else "OK" if rc==0 else "the script itself failed")
        sys.exit(rc)
