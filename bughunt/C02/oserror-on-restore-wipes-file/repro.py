"""
C02: Experiment._restore treats ANY OSError raised while the result file is opened/read as "the last
record was torn" and then REWRITES the result file with only the lines it managed to read.

The file is opened with mode 'rt+' (read AND write). So for a result file the user made read-only
(e.g. to protect the recorded work of a long, interrupted/finished experiment) the open fails with
PermissionError (an OSError) before a single line is read -> the file is replaced by an EMPTY file
(replacing only needs a writable directory) and everything is evaluated again.
The same happens for any transient OSError (EMFILE, EIO/ESTALE on a network drive, ...), at open (everything is
lost) or in the middle of the read (everything after that point is lost).

We run as root here (root ignores file permissions) so the scenario is executed in a child process that
switches to the user 'nobody' first.
"""
import os, sys, subprocess, tempfile, shutil, stat

CHILD = r'''
import os, sys, json, warnings
warnings.filterwarnings("ignore")
from coba.environments import Environments
from coba.learners import RandomLearner, BanditUCBLearner
from coba.evaluators import SequentialCB
from coba.experiments import Experiment
from coba.context import CobaContext, NullLogger
CobaContext.logger = NullLogger()

evaluated = []
class CountingCB(SequentialCB):
    def evaluate(self, env, lrn):
        evaluated.append(1)
        return super().evaluate(env, lrn)

def make():
    envs = Environments.from_linear_synthetic(20, n_actions=2, seed=[1,2,3])
    return Experiment(envs, [RandomLearner(), BanditUCBLearner()], CountingCB())

log = sys.argv[1]

#warm up as whoever we are (so that every lazily imported module is loaded) then become 'nobody' if we are root
make().run(None, quiet=True)
del evaluated[:]
if os.geteuid() == 0:
    os.setgid(65534); os.setuid(65534)
n_I = lambda: sum(l.startswith('["I"') for l in open(log))

#an experiment is interrupted (killed) after 4 of its 6 triples were recorded
make().run(log, quiet=True)
lines = open(log).readlines()
keep  = [i for i,l in enumerate(lines) if l.startswith('["I"')][3]
open(log,'w').writelines(lines[:keep+1])
print("recorded triples in the file of the killed run:", n_I())

os.chmod(log, 0o444) #the user protects the file
del evaluated[:]

make().run(log, quiet=True) #resume with fresh objects

print("triples evaluated by the resumed run          :", len(evaluated), "(2 are missing)")
print("recorded triples after the resumed run        :", n_I())
sys.exit(3 if len(evaluated) != 2 else 0)
'''

d = tempfile.mkdtemp()
try:
    os.chmod(d, 0o777)
    child = os.path.join(d,"child.py")
    open(child,'w').write(CHILD)
    os.chmod(child, 0o644)
    env = dict(os.environ, PYTHONDONTWRITEBYTECODE="1")
    p = subprocess.run([sys.executable, "-W", "ignore", child, os.path.join(d,"result.log")], env=env, timeout=100)
    if p.returncode not in (0,3):
        print("the scenario could not be executed"); sys.exit(0)
    if p.returncode == 3:
        print("VIOLATION: the resumed run threw away the recorded work (the read-only result file was replaced by an empty one) and evaluated already recorded triples again")
        sys.exit(1)
    print("OK")
finally:
    shutil.rmtree(d, ignore_errors=True)
