"""
C02: "the final Result [of a killed and resumed experiment] equals that of an uninterrupted run" does not hold
when a learner that is listed once shares a part with another learner -- the usual way to compare a CorralLearner
(or any ensemble/wrapper learner) with its own base learners:

    a, b = BanditEpsilonLearner(), BanditUCBLearner()
    Experiment(env, [a, b, CorralLearner([a,b])])

A learner that is used by one triple only is not copied (MakeTasks: copy = learner_counts[lrn] > 1). On a single
process the uninterrupted run therefore trains `a` and `b` in place and then evaluates the CorralLearner on top of
the already trained `a` and `b`. If the run is killed after the triples of `a` and `b` were recorded and the same
experiment is run again (fresh objects, new interpreter) the CorralLearner is evaluated with untrained base learners:
its rows differ from the uninterrupted run. (A run with processes=2 gives the "fresh" answer too, so the Result also
depends on the execution configuration of the re-run.)
"""
import os, sys, tempfile, shutil, warnings
warnings.filterwarnings("ignore")

from coba.environments import Environments
from coba.learners import BanditUCBLearner, BanditEpsilonLearner, CorralLearner
from coba.experiments import Experiment
from coba.context import CobaContext, NullLogger

def make():
    #fresh objects for every run
    env = Environments.from_linear_synthetic(100, n_actions=3, n_context_features=0, seed=3).binary()
    a,b = BanditEpsilonLearner(0.05), BanditUCBLearner()
    return Experiment(env, [a, b, CorralLearner([a,b], mode="off-policy")])

def corral_rewards(result):
    return [r for l,r in zip(result.interactions['learner_id'], result.interactions['reward']) if l == 2]

if __name__ == '__main__':
    CobaContext.logger = NullLogger()
    d = tempfile.mkdtemp()
    try:
        full = os.path.join(d, "full.log")
        ref  = make().run(full, quiet=True) #the uninterrupted run (single process, the default)

        #what a run that is killed after its second evaluation leaves on disk: a prefix of the log
        lines = open(full).readlines()
        keep  = max(i for i,l in enumerate(lines) if l.startswith('["I",[0,1,0]'))
        assert not any(l.startswith('["I",[0,2,0]') for l in lines[:keep+1])

        cut = os.path.join(d, "killed.log")
        open(cut,'w').writelines(lines[:keep+1])
        res = make().run(cut, quiet=True) #resumed with fresh objects

        cut2 = os.path.join(d, "killed2.log")
        open(cut2,'w').writelines(lines[:keep+1])
        res2 = make().run(cut2, quiet=True, processes=2) #resumed with another execution configuration

        print("total reward of the CorralLearner, uninterrupted run          :", sum(corral_rewards(ref)))
        print("total reward of the CorralLearner, killed + resumed           :", sum(corral_rewards(res)))
        print("total reward of the CorralLearner, killed + resumed (2 procs) :", sum(corral_rewards(res2)))
        same = ref.interactions._data == res.interactions._data
        print("interactions equal:", same)
        if not same:
            print("VIOLATION: the Result of the killed and resumed experiment differs from the Result of the uninterrupted run")
            sys.exit(1)
        print("OK")
    finally:
        shutil.rmtree(d, ignore_errors=True)
