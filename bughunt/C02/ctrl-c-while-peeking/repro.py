"""
C02: a Ctrl-C that arrives while the experiment is "Peeking at Environment N" (i.e. while the data
of a supervised / csv / arff / openml environment is being loaded, the slowest step of such an
experiment) is swallowed by a bare `except:` in ProcessTasks. The environment's E record is then
written WITHOUT the params that are only known after the first read (n_actions for every
SupervisedSimulation). The user has to press Ctrl-C again; when the experiment is resumed the E
record is "already recorded" so it is never repaired: the final Result differs from the Result of
an uninterrupted run.

The Ctrl-C's are real SIGINTs, sent to ourselves at deterministic points (inside the csv source's read).
"""
import os, sys, signal, tempfile, shutil, time, warnings
warnings.filterwarnings("ignore")

from coba.environments import Environments, CsvSource
from coba.pipes import IterableSource
from coba.learners import RandomLearner, BanditUCBLearner
from coba.experiments import Experiment
from coba.context import CobaContext, NullLogger

CobaContext.logger = NullLogger()

CSV = ["a,b,label"] + [f"{i%7},{(i*3)%5},{i%3}" for i in range(40)]

class Lines:
    """The lines of a csv file. `ctrl_c_on_reads` says during which reads (0-based) the user presses Ctrl-C."""
    def __init__(self, ctrl_c_on_reads=()):
        self.n_reads = 0
        self.ctrl_c_on_reads = set(ctrl_c_on_reads)
    @property
    def params(self): return {"source": "my.csv"}
    def read(self):
        n = self.n_reads
        self.n_reads += 1
        for i,line in enumerate(CSV):
            if i == 5 and n in self.ctrl_c_on_reads:
                os.kill(os.getpid(), signal.SIGINT) #the user presses Ctrl-C while the file is being loaded
                time.sleep(0.01)                    #(python delivers it at the next bytecode boundary)
            yield line

def make(ctrl_c_on_reads=()):
    #fresh objects for every run
    envs = Environments.from_supervised(CsvSource(Lines(ctrl_c_on_reads), has_header=True), label_col='label', label_type='c')
    return Experiment(envs, [RandomLearner(), BanditUCBLearner()])

def tables(r):
    return {"environments":r.environments._data, "learners":r.learners._data, "evaluators":r.evaluators._data, "interactions":r.interactions._data, "experiment": r.experiment}

d = tempfile.mkdtemp()
try:
    ref = make().run(os.path.join(d,"ref.log"), quiet=True)

    log = os.path.join(d,"run.log")
    #read 0 is the peek, read 1 is learner 0's evaluation, read 2 is learner 1's evaluation
    #Ctrl-C #1 while peeking (swallowed: the run goes on), Ctrl-C #2 during the second evaluation (aborts the run).
    first = make(ctrl_c_on_reads=[0,2]).run(log, quiet=True)
    print("after the interrupted run the file holds:")
    for line in open(log): print("   ", line.rstrip()[:110])

    res = make().run(log, quiet=True) #resume with fresh objects

    print()
    print("uninterrupted environments:", dict(ref.environments._data))
    print("resumed       environments:", dict(res.environments._data))

    bad = [k for k in tables(ref) if tables(ref)[k] != tables(res)[k]]
    n_first_I = len(set(zip(*first.interactions[['environment_id','learner_id','evaluator_id']])))
    print(f"triples recorded by the interrupted run: {n_first_I} (must be < 2 for this to be an interrupted run)")
    if bad:
        print("VIOLATION: the resumed Result differs from the uninterrupted Result in:", bad)
        sys.exit(1)
    print("OK: resumed Result equals the uninterrupted Result")
finally:
    shutil.rmtree(d)
