"""
C02: an evaluator that returns ONE mapping (a legal return value: Evaluator.evaluate and SafeEvaluator.evaluate are
declared as `-> Union[Mapping, Iterable[Mapping]]`) is never recorded in the result file. ProcessTasks turns the
result into `list(mapping)` (= the list of its KEYS), TransactionEncode then fails on `'str'.keys()`, the error is
only logged and the record is dropped. Consequences for the resume property:
  * running the same experiment again with the file never completes it (the triples are missing after every run),
  * every resumed run evaluates every such triple again (here 4 evaluations per run, forever).
An uninterrupted run has the same hole, so the final Result has 0 interactions for these triples.
"""
import os, sys, json, tempfile, warnings
warnings.filterwarnings("ignore")

from coba.experiments import Experiment
from coba.environments import Environments
from coba.learners import RandomLearner, BanditUCBLearner
from coba.context import CobaContext, BasicLogger
from coba.pipes import ListSink

CALLS = []

class SummaryEvaluator:
    """Evaluates a learner on an environment and returns ONE summary row as a mapping."""
    @property
    def params(self): return {"kind": "summary"}

    def evaluate(self, environment, learner):
        CALLS.append(1)
        total,n = 0,0
        for interaction in environment.read():
            action = learner.predict(interaction['context'], interaction['actions'])[0]
            total += interaction['rewards'](action)
            n     += 1
        return {"mean_reward": total/n, "n_interactions": n} #a Mapping, allowed by the interface

def make():
    envs = Environments.from_linear_synthetic(20, n_actions=3, seed=[1,2])
    return Experiment(envs, [RandomLearner(), BanditUCBLearner()], SummaryEvaluator())

def i_records(path):
    return [json.loads(l)[1] for l in open(path) if l.startswith('["I"')]

if __name__ == "__main__":
    log = ListSink()
    CobaContext.logger = BasicLogger(log)
    path = os.path.join(tempfile.mkdtemp(), "result.log")

    n_evals = []
    for run in range(3): #an "interrupted" experiment that is resumed again and again
        CALLS.clear()
        result = make().run(path)
        n_evals.append(len(CALLS))
        print(f"run {run+1}: evaluations performed={len(CALLS)}  I records in file={len(i_records(path))}  rows in Result={len(result.interactions)}")

    errors = [str(m) for m in log.items if "AttributeError" in str(m)]
    if errors: print("logged (and otherwise ignored):", errors[0].strip().splitlines()[-1])

    bad = False
    if len(i_records(path)) != 4:
        print("VIOLATION: after three runs the file still does not hold the 4 triples of the experiment (it never completes)")
        bad = True
    if n_evals[1:] != [0,0]:
        print(f"VIOLATION: the resumed runs evaluated {n_evals[1:]} triples again (expected [0, 0])")
        bad = True

    sys.exit(1 if bad else 0)
