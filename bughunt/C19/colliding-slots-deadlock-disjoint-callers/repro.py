"""
Two callers that use completely different keys, and that each obey the documented rule (a caller never nests two
keys whose 16-bit lock index collides), wait for each other forever because of the hash-indexed lock table:

    caller 1:  with get_set(A):  get_set(B)        A cached, B not cached yet
    caller 2:  with get_set(C):  get_set(D)        C cached, D not cached yet
    index(B) == index(C)   and   index(D) == index(A)        (A/B and C/D do not collide)

caller 1 holds a read lock on slot(A) and needs the write lock of slot(B)=slot(C), which caller 2 reads;
caller 2 holds a read lock on slot(C) and needs the write lock of slot(D)=slot(A), which caller 1 reads.
Looking at keys there is no lock-order inversion (the key sets are disjoint), the same program with keys
that do not collide finishes at once.
(With one collision the same happens for:  caller 1: with get_set(A): get_set(B);  caller 2: with get_set(C): rmv(A).)
"""
import sys, threading, time, warnings
warnings.simplefilter("ignore")

import coba.context.cachers as cachers
from coba.context import ConcurrentCacher, MemoryCacher

class _FastTime: #waiting callers poll once per second, make that faster for the repro
    sleep = staticmethod(lambda s: time.sleep(0.01))
cachers.time = _FastTime

index = ConcurrentCacher(MemoryCacher())._index

#find two pairs of colliding keys
seen, pairs = {}, []
i = 0
while len(pairs) < 2:
    k = f"openml_{i:0>6}_arff"; i += 1
    j = index(k)
    if j in seen and all(j != index(p[0]) for p in pairs): pairs.append((seen[j],k))
    seen.setdefault(j,k)
(A,D),(C,B) = pairs

def scenario(A,B,C,D):
    cacher = ConcurrentCacher(MemoryCacher())
    with cacher.get_set(A, lambda: "a"): pass #A and C are cached already
    with cacher.get_set(C, lambda: "c"): pass

    both_inside = threading.Barrier(2)
    finished    = []

    def caller(outer,inner):
        with cacher.get_set(outer, lambda: outer):
            both_inside.wait()
            with cacher.get_set(inner, lambda: inner) as v:
                assert v == inner
        finished.append(outer)

    ts = [threading.Thread(target=caller,args=(A,B),daemon=True), threading.Thread(target=caller,args=(C,D),daemon=True)]
    for t in ts: t.start()
    for t in ts: t.join(5) #5 seconds = 500 polls
    return len(finished), [(i,v) for i,v in enumerate(cacher._array) if v]

print(f"keys: A={A} (slot {index(A)})  B={B} (slot {index(B)})  C={C} (slot {index(C)})  D={D} (slot {index(D)})")
assert index(A)!=index(B) and index(C)!=index(D) and len({A,B,C,D})==4

n,slots = scenario("k1","k2","k3","k4")
print(f"control (no collisions): {n}/2 callers finished, lock table {slots}")

n,slots = scenario(A,B,C,D)
print(f"colliding slots        : {n}/2 callers finished after 500 polls, lock table {slots}")

if n != 2:
    print("\nVIOLATION: both callers wait forever although they use different keys and never nest colliding keys themselves")
    sys.exit(1)
print("ok")
