"""
C19 (borderline - see notes.json): two coba runs that share a cache directory but not a lock table.

A ConcurrentCacher only protects the callers that share ITS list/lock. Every Experiment.run(processes>1) builds its
own pair (coba/multiprocessing.py:61-70) and a run with processes=1 uses the bare DiskCacher, while all of them
share ~/.cache/coba. DiskCacher writes an entry in place, under its final name, and treats a 0-byte file as rubbish
it may delete. A file that is being written is 0 bytes on disk until gzip/IO buffers spill (for everything below
~100KB of text: until it is closed; and the download only starts after the file was created).

Part 1 (cacher level, threads + events): run A (a ConcurrentCacher) is in the middle of writing an entry, run B
        asks for the same key through its own cacher: B deletes A's file. If B is a bare DiskCacher its getter runs
        while A's is still running and A is handed B's unfinished (empty) file as its complete value, without an
        error. If B is a ConcurrentCacher of its own, A gets a FileNotFoundError and B a TypeError.
Part 2 (user level, two real scripts): both read Environments.from_openml(data_id=61) with the same cache_dir.
        Script A ends up with an environment of 0 interactions and no error whatsoever.

exit 0 = behaves correctly, exit 1 = violation shown
"""
import json, os, shutil, subprocess, sys, tempfile, threading, time

import coba.environments.openml as om
from coba.context import CobaContext, ConcurrentCacher, DiskCacher, NullLogger
from coba.environments import Environments

HERE   = os.path.dirname(os.path.abspath(__file__))
N_ROWS = 150
ARFF   = ["@relation iris","@attribute a numeric","@attribute b numeric","@attribute y {x,z,w}","@data"] + [f"{i},{i*2},{'xzw'[i%3]}" for i in range(N_ROWS)]

# ---------------------------------------------------------------------------------------------------------------
def part1(b_is_concurrent):
    kind = "a second ConcurrentCacher (another Experiment.run(processes>1))" if b_is_concurrent else "a bare DiskCacher (a run with processes=1)"
    print(f"== Part 1: run A = ConcurrentCacher(DiskCacher(dir)), run B = {kind}, same directory")
    tmp = tempfile.mkdtemp(prefix="_p1_", dir=HERE)
    try:
        run_a = ConcurrentCacher(DiskCacher(tmp))
        run_b = ConcurrentCacher(DiskCacher(tmp)) if b_is_concurrent else DiskCacher(tmp)
        key   = "openml_000061_arff"

        a_writing, b_writing, a_may_finish, b_may_finish = (threading.Event() for _ in range(4))
        getter_calls, got = [], {}

        def download(who, writing, may_finish):
            getter_calls.append(who)
            writing.set()                #the cache file exists by now (DiskCacher opens it before it pulls the first line)
            may_finish.wait(20)          #network latency / the 2*random() second politeness pause of OpenmlSource
            yield from ARFF

        def caller(who, cacher, writing, may_finish):
            try:
                with cacher.get_set(key, lambda: download(who, writing, may_finish)) as lines:
                    got[who] = [l.rstrip("\n") for l in lines]
            except BaseException as e:
                got[who] = e

        ta = threading.Thread(target=caller, args=("A",run_a,a_writing,a_may_finish), daemon=True)
        tb = threading.Thread(target=caller, args=("B",run_b,b_writing,b_may_finish), daemon=True)

        ta.start(); a_writing.wait(20)
        path = os.path.join(tmp,key+".gz")
        visible = os.path.exists(path) #an implementation that publishes complete entries only has nothing under the final name yet
        ino     = os.stat(path).st_ino if visible else None
        print(f"  A is writing '{key}': " + (f"the unfinished entry is visible under its final name, size on disk = {os.path.getsize(path)} bytes" if visible else "nothing is visible under the final name yet"))
        tb.start(); b_writing.wait(3); time.sleep(.3)
        gone = visible and (not os.path.exists(path) or os.stat(path).st_ino != ino)
        print(f"  B asked for the same key: A's file was deleted under A: {gone}; getter calls so far (A's is still running): {getter_calls}")
        a_may_finish.set(); ta.join(20)
        b_may_finish.set(); tb.join(20)

        show = lambda v: repr(v) if isinstance(v,BaseException) else f"{len(v)} of {len(ARFF)} lines, no error"
        print(f"  A received: {show(got.get('A'))}")
        print(f"  B received: {show(got.get('B'))}")
        bad = got.get("A") != ARFF or got.get("B") != ARFF
        print("  VIOLATION: A wrote the entry itself and yet did not get its complete value" if bad else "  ok: both callers got the complete value")
        return bad
    finally:
        shutil.rmtree(tmp, ignore_errors=True)

# ---------------------------------------------------------------------------------------------------------------
def script(role, tmp):
    """What a user's script does, plus a fake openml.org whose ARFF download takes a moment."""
    flag = lambda name: os.path.join(tmp,name)
    def wait_for(name, secs=30):
        end = time.time()+secs
        while not os.path.exists(flag(name)) and time.time() < end: time.sleep(.05)

    class FakeHttpSource:
        def __init__(self, url, **kwargs): self.url = url
        def read(self):
            url = self.url
            if 'features' in url:
                feats = [{"name":n,"data_type":t,"is_ignore":"false","is_row_identifier":"false"} for n,t in [("a","numeric"),("b","numeric"),("y","nominal")]]
                yield json.dumps({"data_features":{"feature":feats}})
            elif 'json/data' in url:
                yield json.dumps({"data_set_description":{"file_id":"61","default_target_attribute":"y","status":"active"}})
            else:
                open(flag(role+"_downloading"),"w").close()
                wait_for("B_downloading" if role == "A" else "A_finished") #the download takes a moment
                yield from ARFF
    om.HttpSource = FakeHttpSource

    CobaContext.logger = NullLogger()
    env = Environments.cache_dir(os.path.join(tmp,"cache")).from_openml(data_id=61)[0]
    try:
        n = len(list(env.read()))
        print(f"SCRIPT {role}: read the environment without any error: {n} interactions", flush=True)
    except Exception as e:
        print(f"SCRIPT {role}: {type(e).__name__}: {e}", flush=True)
    open(flag(role+"_finished"),"w").close()

def part2():
    print("== Part 2: two scripts reading Environments.from_openml(data_id=61) with the same cache_dir at the same time")
    tmp = tempfile.mkdtemp(prefix="_p2_", dir=HERE)
    try:
        start = lambda role: subprocess.Popen([sys.executable,"-W","ignore",os.path.abspath(__file__),role,tmp], stdout=subprocess.PIPE, stderr=subprocess.STDOUT, text=True)
        a = start("A")
        end = time.time()+30
        while not os.path.exists(os.path.join(tmp,"A_downloading")) and time.time() < end: time.sleep(.05)
        b = start("B")
        try:
            out_a = a.communicate(timeout=45)[0]; out_b = b.communicate(timeout=45)[0]
        except subprocess.TimeoutExpired:
            a.kill(); b.kill(); out_a = a.communicate()[0]; out_b = b.communicate()[0]
        for line in (out_a+out_b).splitlines(): print("  ",line)
        ok = f"{N_ROWS} interactions" in out_a and f"{N_ROWS} interactions" in out_b
        print("  ok: both scripts saw the whole data set" if ok else f"  VIOLATION: the data set has {N_ROWS} rows")
        return not ok
    finally:
        shutil.rmtree(tmp, ignore_errors=True)

if __name__ == '__main__':
    if len(sys.argv) == 3:
        script(sys.argv[1], sys.argv[2])
    else:
        p1a = part1(b_is_concurrent=False)
        p1b = part1(b_is_concurrent=True)
        p2  = part2()
        print("RESULT:", "violation" if (p1a or p1b or p2) else "ok", f"(part 1: {p1a}/{p1b}, part 2: {p2})")
        sys.exit(1 if (p1a or p1b or p2) else 0)
