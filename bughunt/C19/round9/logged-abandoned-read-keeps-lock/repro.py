"""
C19: a read of a `.logged()` OpenML environment that is not consumed to the end (the "Peeking at Environment"
task every Experiment runs for every environment, a `.take(n)` behind the Logged filter, a learner that fails)
leaves the ConcurrentCacher read lock on the ARFF entry and the permit of the shared download semaphore HELD after
the task is over. They are only given back when CPython's cyclic garbage collector happens to run in that process
(Logged.filter builds a throw-away class, classes are reference cycles, and the class keeps the suspended
OpenmlSource generators - which sit inside `with CobaContext.cacher.get_set(...)` - alive).
A process that is blocked in semaphore.acquire()/queue.get()/the cacher's sleep loop never collects, so
 - another caller's rmv()/write on that entry waits for as long as that lasts, and
 - after three such tasks nobody gets a permit any more: a plain multi-process Experiment hangs forever.

Part A shows the mechanism deterministically in one process (the collector is switched off while the tasks run,
which is the schedule "no collection happened yet"). Part C shows what happens when the collection does come, but
while the thread is inside one of ConcurrentCacher's critical sections. Part B runs the real thing:
Experiment.run(processes=2) on eight (faked) OpenML data sets with the collector left alone (takes ~45 seconds).

exit 0 = behaves correctly, exit 1 = violation shown
"""
import gc, io, json, shutil, os, signal, subprocess, sys, tempfile, threading, time, contextlib, faulthandler

import coba.environments.openml as om
from coba.context import CobaContext, ConcurrentCacher, MemoryCacher, DiskCacher, NullLogger
from coba.environments import Environments
from coba.experiments import Experiment
from coba.experiments.process import MakeTasks, ChunkTasks, ProcessTasks
from coba.evaluators import SequentialCB
from coba.learners import RandomLearner

# ---- a stand-in for openml.org (module level: the spawned workers import this file too) -------------------------
N_ROWS = 60
class FakeHttpSource:
    def __init__(self, url, **kwargs): self.url = url
    def read(self):
        url = self.url
        if 'features' in url:
            feats = [{"name":n,"data_type":t,"is_ignore":"false","is_row_identifier":"false"} for n,t in [("a","numeric"),("b","numeric"),("y","nominal")]]
            yield json.dumps({"data_features":{"feature":feats}})
        elif 'json/data' in url:
            yield json.dumps({"data_set_description":{"file_id":url.rsplit('/',1)[1],"default_target_attribute":"y","status":"active"}})
        else:
            yield from ["@relation t","@attribute a numeric","@attribute b numeric","@attribute y {x,z,w}","@data"]
            for i in range(N_ROWS): yield f"{i},{i*2},{'xzw'[i%3]}"

om.HttpSource = FakeHttpSource
if os.environ.get("C19_CHILD"):
    faulthandler.dump_traceback_later(40, exit=True) #main and workers of part B tell where they hang
else:
    om.random = lambda: 0.05 #part A only: the politeness pause before a download is 2*random() seconds, we don't want to wait that long

def make_envs(ids):
    return Environments.from_openml(data_id=ids).logged(RandomLearner())

# ---- part A -----------------------------------------------------------------------------------------------------
class Permits:
    """Semaphore(3) that tells instead of waiting forever."""
    def __init__(self): self._s = threading.Semaphore(3); self.free = 3; self.starved = 0
    def acquire(self):
        if not self._s.acquire(timeout=2):
            self.starved += 1
            raise RuntimeError("no permit within 2 seconds (a real Semaphore.acquire() would still be waiting)")
        self.free -= 1
    def release(self):
        self.free += 1; self._s.release()

def part_a():
    print("== Part A: one process, what a worker does with the 'peek' tasks of 4 logged OpenML environments")
    cacher  = ConcurrentCacher(MemoryCacher())
    permits = Permits()
    CobaContext.cacher = cacher
    CobaContext.logger = NullLogger()
    CobaContext.store  = {"openml_semaphore": permits, "experiment_seed": 1}

    held = lambda: {i:v for i,v in enumerate(cacher._array) if v}
    bad  = False

    gc.collect(); gc.disable() #schedule: no collection between the tasks
    try:
        envs  = make_envs([1,2,3,4])
        tasks = [t for t in MakeTasks([(e,RandomLearner(),SequentialCB(learn='off',eval='ips')) for e in envs]).read() if t.env and not t.lrn]
        for task in tasks[:3]:
            out = list(ProcessTasks().filter([task]))
            print(f"  peek of environment {task.env_id} finished -> {[o[0] for o in out]}; lock slots still held: {held()}; free permits: {permits.free}")
        del out, task

        if held() or permits.free != 3:
            bad = True
            print("  VIOLATION: the tasks are over, nothing reads these entries any more, but the read locks and the permits are still taken")

            t = threading.Thread(target=lambda: cacher.rmv("openml_000001_arff"), daemon=True)
            t.start(); t.join(3)
            print(f"  another caller's rmv('openml_000001_arff') still waiting after 3 seconds: {t.is_alive()}")

            list(ProcessTasks().filter([tasks[3]]))
            print(f"  4th environment: callers that could not get a download permit: {permits.starved}; 'openml_000004_arff' cached: {'openml_000004_arff' in cacher}")

            n = gc.collect()
            t.join(3)
            print(f"  after an explicit gc.collect() ({n} objects): lock slots held: {held()}; free permits: {permits.free}; rmv finished: {not t.is_alive()}")
        else:
            print("  ok: no lock and no permit outlives its task")
    finally:
        gc.enable()
    return bad

# ---- part C -----------------------------------------------------------------------------------------------------
def part_c():
    print("== Part C: the collector starts while the same thread is inside a ConcurrentCacher critical section")
    cacher = ConcurrentCacher(MemoryCacher())
    CobaContext.cacher = cacher
    CobaContext.logger = NullLogger()
    CobaContext.store  = {"experiment_seed": 1}

    class CollectInside: #CPython 3.12 starts a collection at any eval-breaker check, e.g. the call of current_thread() under the lock
        def __init__(self,lock): self.lock = lock
        def __enter__(self): self.lock.acquire(); gc.collect()
        def __exit__(self,*args): self.lock.release()

    def worker():
        task = [t for t in MakeTasks([(e,RandomLearner(),SequentialCB()) for e in make_envs([1])]).read() if t.env and not t.lrn][0]
        list(ProcessTasks().filter([task])) #the peek
        cacher._lock = CollectInside(cacher._lock)
        with cacher.get_set("something else", lambda: [1]): pass

    gc.collect(); gc.disable()
    try:
        t = threading.Thread(target=worker, daemon=True)
        t.start(); t.join(8)
    finally:
        gc.enable()
    if t.is_alive():
        print("  VIOLATION: the caller never comes back from get_set: the finalizer of the abandoned read wants the (non re-entrant) lock its own thread holds")
    else:
        print("  ok: the call returned")
    return t.is_alive()

# ---- part B -----------------------------------------------------------------------------------------------------
def child():
    CobaContext.cacher = DiskCacher(os.environ["C19_CACHE_DIR"])
    result = Experiment(make_envs(list(range(1,9))), [RandomLearner()], SequentialCB(learn='off',eval='ips')).run(processes=2)
    print(f"CHILD-DONE {len(result.interactions)} rows", flush=True)

def part_b():
    print("== Part B: Experiment.run(processes=2) over 8 logged OpenML environments, fresh disk cache, collector untouched")
    tmp = tempfile.mkdtemp(prefix="_cache_", dir=os.path.dirname(os.path.abspath(__file__)))
    env = {**os.environ, "C19_CHILD":"1", "C19_CACHE_DIR":tmp}
    p = subprocess.Popen([sys.executable, "-W", "ignore", os.path.abspath(__file__), "child"], env=env, stdout=subprocess.PIPE, stderr=subprocess.STDOUT, text=True, start_new_session=True)
    try:
        out,_ = p.communicate(timeout=60)
    except subprocess.TimeoutExpired:
        os.killpg(p.pid, signal.SIGKILL) #our own session only
        out,_ = p.communicate()
    shutil.rmtree(tmp, ignore_errors=True)
    lines = out.splitlines()
    done  = [l for l in lines if l.startswith("CHILD-DONE")]
    logs  = [l for l in lines if " -- pid-" in l]
    print("  last log lines of the run:")
    for l in logs[-4:]: print("   ",l)
    if done and "480" in done[0]:
        print("  ok:", done[0]); return False
    stuck = [l.strip() for l in lines if "openml.py" in l and " in read" in l]
    print(f"  VIOLATION: the experiment did not finish ({done or 'no result'}). After 40 seconds the watchdog dumped the stacks of all processes.")
    print(f"  workers found waiting at: {stuck}  (openml.py line 66 is `openml_semaphore.acquire()`)")
    return True

if __name__ == '__main__':
    if sys.argv[1:] == ["child"]:
        child()
    else:
        a = part_a()
        c = part_c()
        b = part_b()
        print("RESULT:", "violation" if (a or b or c) else "ok", f"(part A: {a}, part B: {b}, part C: {c})")
        sys.stdout.flush()
        os._exit(1 if (a or b or c) else 0) #part C can leave a thread behind that sits in a lock forever
