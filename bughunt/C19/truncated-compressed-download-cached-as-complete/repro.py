"""
A dropped connection during an openml download is only noticed when the response has a Content-Length (or is chunked).
For a gzip/deflate encoded response that is delimited by the end of the connection (no Content-Length, not chunked:
HTTP/1.0 style answers, streaming proxies) HttpSource feeds the bytes to zlib.decompressobj and never checks that the
compressed stream reached its end-of-stream marker. The getter of the cache entry therefore "finishes" normally with a
part of the file, DiskCacher/ConcurrentCacher store it, and every later reader (any process, any later run) is served
the truncated ARFF as if it were complete. The getter is never run again.

No network is used: urllib.request.urlopen is replaced by a function that returns real http.client.HTTPResponse
objects that parse canned bytes.
"""
import sys, io, json, zlib, tempfile, warnings, http.client, urllib.request
warnings.simplefilter("ignore")

from coba.context import CobaContext, ConcurrentCacher, DiskCacher
from coba.environments.openml import OpenmlSource

N_ROWS = 20000
DATA = {"data_set_description":{"id":"42","name":"d","file_id":"99","status":"active","default_target_attribute":"y"}}
FEAT = {"data_features":{"feature":[
    {"index":"0","name":"a","data_type":"numeric","is_target":"false","is_ignore":"false","is_row_identifier":"false"},
    {"index":"1","name":"b","data_type":"numeric","is_target":"false","is_ignore":"false","is_row_identifier":"false"},
    {"index":"2","name":"y","data_type":"nominal","is_target":"true" ,"is_ignore":"false","is_row_identifier":"false"}]}}
HEAD = "@relation d\n@attribute a numeric\n@attribute b numeric\n@attribute y {0,1,2}\n@data\n"
ROWS = [f"{i},{i*2},{i%3}\n" for i in range(N_ROWS)]

#the server compresses on the fly and flushes now and then, like real servers do
comp  = zlib.compressobj(6, zlib.DEFLATED, 16+zlib.MAX_WBITS)
part1 = comp.compress((HEAD+"".join(ROWS[:N_ROWS//2])).encode()) + comp.flush(zlib.Z_FULL_FLUSH)
part2 = comp.compress("".join(ROWS[N_ROWS//2:]).encode()) + comp.flush()

class FakeSock:
    def __init__(self, data): self._data = data
    def makefile(self, *args, **kwargs): return io.BytesIO(self._data)
    def close(self): pass

def response(raw:bytes):
    r = http.client.HTTPResponse(FakeSock(raw), method="GET")
    r.begin()
    return r

def plain(obj):
    body = json.dumps(obj).encode()
    return response(f"HTTP/1.1 200 OK\r\nContent-Type: application/json\r\nContent-Length: {len(body)}\r\n\r\n".encode()+body)

state = {"drop": True, "downloads": 0}
def fake_urlopen(req, timeout=None):
    url = req.full_url
    if "/json/data/features/" in url: return plain(FEAT)
    if "/json/data/"          in url: return plain(DATA)
    if "/data/v1/download/"   in url:
        state["downloads"] += 1
        #no Content-Length, not chunked: the body ends when the connection ends
        head = b"HTTP/1.1 200 OK\r\nContent-Type: text/plain\r\nContent-Encoding: gzip\r\nConnection: close\r\n\r\n"
        body = part1 + (part2[:len(part2)//3] if state["drop"] else part2) #the connection is dropped in the middle of the body
        return response(head+body)
    raise AssertionError(url)
urllib.request.urlopen = fake_urlopen

CobaContext.cacher = ConcurrentCacher(DiskCacher(tempfile.mkdtemp())) #what every worker of a multi-process experiment uses

def read():
    try:
        return len(list(OpenmlSource(data_id=42).read())), None
    except Exception as e:
        return None, e

n1,e1 = read()
print(f"read 1 (connection dropped while the arff is downloaded): rows={n1} error={e1!r} downloads so far={state['downloads']}")
state["drop"] = False #the server is healthy from now on
n2,e2 = read()
print(f"read 2 (server healthy)                                 : rows={n2} error={e2!r} downloads so far={state['downloads']}")
print(f"the data set has {N_ROWS} rows; arff entry in cache: {'openml_000042_arff' in CobaContext.cacher}")

if e1 is None or n2 != N_ROWS:
    print("\nVIOLATION: the download that failed part-way was not noticed; its partial result is cached and served as the complete data set")
    sys.exit(1)
print("ok")
