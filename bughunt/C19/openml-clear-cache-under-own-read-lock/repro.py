"""
OpenmlSource.read() clears its cache entries "just in case" when something unexpected goes wrong.
When the unexpected error happens while the ARFF lines are being parsed, read() still holds the read
lock of the ARFF entry (its `lines` generator is suspended inside `with cacher.get_set(...)`).
Behind a ConcurrentCacher (= every multi-process experiment) ConcurrentCacher.rmv then raises
"The concurrent cacher was asked to enter an unrecoverable state.":

  * the real error is replaced by that message,
  * only task/data/feat are removed, the ARFF entry (the one most likely to be the broken one) stays
    cached and is served again on every later run (a plain DiskCacher run removes it and heals),
  * read() has been left through an exception but the read lock of the ARFF key is still held
    (for as long as anybody keeps the exception / its traceback).

No network is used: the cache is pre-populated with what openml would have returned.
"""
import sys, json, tempfile, warnings
warnings.simplefilter("ignore")

from coba.context import CobaContext, ConcurrentCacher, DiskCacher
from coba.environments.openml import OpenmlSource

DATA = {"data_set_description":{"id":"42","name":"multi","file_id":"99","status":"active",
        #openml really has data sets with several default targets, they are given as "a,b"
        "default_target_attribute":"y,z"}}
FEAT = {"data_features":{"feature":[
    {"index":"0","name":"a","data_type":"numeric","is_target":"false","is_ignore":"false","is_row_identifier":"false"},
    {"index":"1","name":"y","data_type":"nominal","is_target":"true" ,"is_ignore":"false","is_row_identifier":"false"},
    {"index":"2","name":"z","data_type":"nominal","is_target":"true" ,"is_ignore":"false","is_row_identifier":"false"}]}}
ARFF_MULTI_TARGET = ["@relation multi","@attribute a numeric","@attribute y {0,1}","@attribute z {0,1}","@data","1,0,1","2,1,0","3,1,1"]

DATA2 = {"data_set_description":{"id":"42","name":"broken","file_id":"99","status":"active","default_target_attribute":"y"}}
ARFF_NO_HEADER   = ["@data","1,0,1","2,1,0","3,1,1"] #a cached arff file that lost its @attribute lines

KEYS = ["openml_000042_data","openml_000042_feat","openml_000042_arff"]

def run(wrap:bool, data, arff):
    disk = DiskCacher(tempfile.mkdtemp())
    disk.get_set(KEYS[0],[json.dumps(data)]).close()
    disk.get_set(KEYS[1],[json.dumps(FEAT)]).close()
    disk.get_set(KEYS[2],arff).close()

    cacher = ConcurrentCacher(disk) if wrap else disk #CobaMultiprocessor wraps CobaContext.cacher exactly like this
    CobaContext.cacher = cacher

    error = None
    try:
        list(OpenmlSource(data_id=42).read())
    except BaseException as e:
        error = e

    #read() has been left (through an exception). We still hold `error`, like a logger or a caller would.
    held   = [(i,v) for i,v in enumerate(cacher._array) if v] if wrap else []
    cached = [k for k in KEYS if k in disk]
    return error, held, cached

bad = []
for name,data,arff in [("multi-target data set",DATA,ARFF_MULTI_TARGET),("cached arff without header",DATA2,ARFF_NO_HEADER)]:
    e0,h0,c0 = run(False,data,arff)
    e1,h1,c1 = run(True ,data,arff)
    print(f"--- {name}")
    print(f"  plain DiskCacher     : raised {type(e0).__name__}: {e0!s:.70} | still cached: {c0}")
    print(f"  ConcurrentCacher(...): raised {type(e1).__name__}: {e1!s:.70} | still cached: {c1} | lock table after read() raised: {h1}")
    if type(e1) is not type(e0): bad.append(f"{name}: the real error ({type(e0).__name__}) is replaced by {type(e1).__name__}: {e1}")
    if c1 != c0:                 bad.append(f"{name}: cache entries left behind {c1} (plain DiskCacher leaves {c0})")
    if h1:                       bad.append(f"{name}: read() was left through an exception but lock slots are still held: {h1}")

if bad:
    print("\nVIOLATION")
    for b in bad: print(" *",b)
    sys.exit(1)
print("ok")
