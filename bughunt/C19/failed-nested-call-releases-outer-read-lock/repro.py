"""
ConcurrentCacher.get_set's `except:` clean-up releases "the read lock of this thread for this key" when the call fails.
It does not know whether THIS call acquired that lock. If the thread is already inside `with cacher.get_set(key)`
(equal keys may be nested) and the nested call fails at a point where it holds nothing itself, the clean-up gives
away the OUTER block's read lock. When the outer block ends it releases once more: the shared counter becomes -1,
which is the marker for "a writer is active". Nobody owns that write lock, so nobody ever releases it and every
other caller of that slot (same key or a colliding one) waits forever.

The nested call fails like that whenever the inner cache says "not cached" although the thread is reading the key:
always with ConcurrentCacher(NullCacher()) (NullCacher never contains anything; CobaMultiprocessor builds exactly
this object when the user configured "no caching"), and with a DiskCacher whose file was deleted from outside.
"""
import sys, threading, time, warnings
warnings.simplefilter("ignore")

import coba.context.cachers as cachers
from coba.context import ConcurrentCacher, NullCacher
from coba.exceptions import CobaException

#waiting callers poll once per second, make that faster for the repro
class _FastTime:
    sleep = staticmethod(lambda s: time.sleep(0.01))
cachers.time = _FastTime

cacher = ConcurrentCacher(NullCacher())
index  = cacher._index("a")

print("caller 1: with get_set('a'): with get_set('a'): ...")
try:
    with cacher.get_set("a", lambda: "outer") as outer:
        print("  outer block entered, slot =", cacher._array[index])
        try:
            with cacher.get_set("a", lambda: "inner") as inner:
                pass
        except CobaException as e:
            print("  nested call raised:", e)
        print("  still inside the outer block, slot =", cacher._array[index], "(we are reading, it must be 1)")
except CobaException as e:
    print("  outer raised:", e)

after = cacher._array[index]
print("caller 1 has left all of its with-blocks, slot =", after, "(must be 0)")

done = threading.Event()
def caller2():
    with cacher.get_set("a", lambda: "value") as v:
        done.set()

t = threading.Thread(target=caller2, daemon=True)
t.start()
stuck = not done.wait(5) #5 seconds = 500 polls

if stuck: print("caller 2: get_set('a') is still waiting after 500 polls -> it waits forever for a write lock nobody holds")
else:     print("caller 2: got the value")

if after != 0 or stuck:
    print("\nVIOLATION: a lock remains held after every caller left its with-blocks")
    sys.exit(1)
print("ok")
