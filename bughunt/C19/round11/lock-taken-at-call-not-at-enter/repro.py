"""
C19 (BORDERLINE) - ConcurrentCacher.get_set takes its read lock when it is CALLED, but the only thing that ever gives
the lock back is the with-block of the context manager it returns. A context manager that is never entered
  * `cacher.get_set(key, getter)` used to pre-load the cache (fine - and silent - with Memory/Disk/NullCacher),
  * several context managers collected first and entered later (ExitStack) when one of the later get_set calls raises,
  * an exception between the call and the `with`
keeps the read lock for ever: nothing is left that could release it (the generator behind the context manager was
never started, so neither closing it, nor dropping it, nor the garbage collector runs its `finally`).
Every later rmv/writer on that lock slot waits for ever, in every thread or process that shares the lock table;
the leaking thread itself gets "The concurrent cacher was asked to enter an unrecoverable state." from rmv.
"""
import gc, os, sys, threading, tempfile, contextlib

import coba.context.cachers as cachers
from coba.context import ConcurrentCacher, MemoryCacher, DiskCacher

def slot(cacher,key): return cacher._array[cacher._index(key)]

bad = False

# 1. pre-loading: the interface of Cacher.get_set reads "Get a key from the cache. If the key is not in the cache put it first"
cacher = ConcurrentCacher(DiskCacher(tempfile.mkdtemp()))
cacher.get_set("openml_000042_arff", lambda: ["@relation x","@data","1,2"])   #legal; with a plain DiskCacher this just fills the cache
gc.collect()
print("1. after pre-loading (result dropped and collected): slot =", slot(cacher,"openml_000042_arff"))

# 2. ExitStack style: all resources are made first, then entered together. The third getter fails.
cacher2 = ConcurrentCacher(MemoryCacher())
def failing(): raise IOError("download failed")
try:
    cms = [cacher2.get_set(k, g) for k,g in [("a",lambda:[1]),("b",lambda:[2]),("c",failing)]]
    with contextlib.ExitStack() as stack:
        for cm in cms: stack.enter_context(cm)
except IOError:
    pass
gc.collect()
print("2. after the failed group: slots a,b,c =", slot(cacher2,"a"), slot(cacher2,"b"), slot(cacher2,"c"))

# consequences: nobody is inside a with-block, yet removing (or, on a colliding slot, writing) waits for ever
for name,c,key in [("1",cacher,"openml_000042_arff"),("2",cacher2,"a")]:
    if slot(c,key) != 0:
        bad = True
        try:
            c.rmv(key)
        except Exception as e:
            print(f"{name}. the same thread can no longer remove the entry: {type(e).__name__}: {e}")
        done = threading.Event()
        t = threading.Thread(target=lambda: (c.rmv(key), done.set()), daemon=True); t.start(); t.join(4)
        print(f"{name}. another caller's rmv({key!r}) {'returned' if done.is_set() else 'still waits after 4 seconds (no lock is ever given back: VIOLATION)'}")

sys.stdout.flush()
os._exit(1 if bad else 0)
