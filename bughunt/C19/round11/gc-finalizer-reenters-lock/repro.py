"""
C19 - a reader that is finalised by the garbage collector while its own thread is inside one of
ConcurrentCacher's critical sections blocks on the (non re-entrant) table lock that this very thread holds.
The thread - and with it every other caller of the cacher, in every process that shares the lock - waits forever.

History (all legal use of the public API):
  1. a caller reads an entry through a generator (exactly what OpenmlSource._get_data does:
     `with cacher.get_set(key, ...) as out: yield from out`) and gives up half way because its consumer failed.
     The failed consumer keeps the exception (`except ... as e: err = e`, a stored traceback, a result object ...),
     i.e. the suspended generator ends up in a reference cycle. It is now only released by the cyclic collector.
  2. later the same thread calls get_set/rmv again. The collector may start at any point where python checks its
     "eval breaker", e.g. at the call of current_thread() INSIDE `with self._lock:` in _acquire_read_lock.
  3. the collector closes the generator -> _release_read_on_exit's finally -> _release_read_lock -> `with self._lock:`
     -> the lock is already held by this thread -> dead.

Part 1 forces step 2 deterministically (the shared list runs gc.collect() the first time it is read, which only ever
        happens inside the critical section). It does so for the default threading.Lock/list and for the
        multiprocessing Lock/RawArray that CobaMultiprocessor hands to ConcurrentCacher.
Part 2 uses no hook at all: one thread does step 1+2 in a loop, a second thread merely allocates objects (so that the
        collector's threshold is crossed at arbitrary points). With default gc settings this hangs within seconds.
"""
import gc, os, sys, threading, time, faulthandler, multiprocessing as mp
from ctypes import c_short

from coba.context import ConcurrentCacher, MemoryCacher

def abandon_a_reader(cacher, key):
    def rows():
        with cacher.get_set(key, None) as v: #what OpenmlSource._get_data does
            yield from v
    def consume():
        it = rows()
        try:
            for _ in it: raise ValueError("the consumer (learner, evaluator, ...) failed")
        except ValueError as e:
            err = e # err -> traceback -> this frame -> err: a cycle. The frame holds the suspended reader `it`.
    consume()

class GcOnFirstRead:
    """The shared counter table. The first read (always made inside `with self._lock:`) stands in for 'the collector starts now'."""
    def __init__(self, array): self._a, self._fired = array, False
    def __len__(self): return len(self._a)
    def __getitem__(self, i):
        if not self._fired:
            self._fired = True
            gc.collect()
        return self._a[i]
    def __setitem__(self, i, v): self._a[i] = v

def part1(name, array, lock):
    cacher = ConcurrentCacher(MemoryCacher(), array, lock)
    with cacher.get_set('a', lambda: ['1','2','3']): pass
    with cacher.get_set('b', lambda: ['4']): pass

    done = threading.Event()
    def caller():
        gc.disable()                      #so that it is us who decide when the collector runs
        abandon_a_reader(cacher, 'a')
        cacher._array = GcOnFirstRead(cacher._array)
        with cacher.get_set('b', None) as v: list(v)
        done.set()

    t = threading.Thread(target=caller, daemon=True); t.start(); t.join(6)
    gc.enable()

    if done.is_set():
        print(f"[part 1, {name}] ok: the caller came back")
        return False

    print(f"[part 1, {name}] VIOLATION: get_set('b') has not returned after 6 seconds. Stack of the caller:")
    frame = sys._current_frames()[t.ident]
    while frame:
        print(f"      {os.path.basename(frame.f_code.co_filename)}:{frame.f_lineno} in {frame.f_code.co_name}")
        frame = frame.f_back

    #everybody else now waits for the table lock as well
    other_done = threading.Event()
    def other():
        with cacher.get_set('zzz', lambda: ['9']) as v: pass
        other_done.set()
    o = threading.Thread(target=other, daemon=True); o.start(); o.join(3)
    print(f"      a second caller using an unrelated key {'came back' if other_done.is_set() else 'waits forever too (the table lock is never released)'}")
    return True

def part2(seconds):
    cacher = ConcurrentCacher(MemoryCacher())
    with cacher.get_set('a', lambda: ['1','2','3']): pass
    with cacher.get_set('b', lambda: ['4']): pass

    progress = [0]
    def reader():
        while True:
            abandon_a_reader(cacher, 'a')
            with cacher.get_set('b', None) as v: pass
            progress[0] += 1
    def allocator(): #any thread that creates objects (a logger, a queue's feeder thread, another learner...)
        keep = []
        while True:
            keep.append([])
            if len(keep) > 5000: keep.clear()

    r = threading.Thread(target=reader, daemon=True); r.start()
    threading.Thread(target=allocator, daemon=True).start()

    start, last = time.time(), -1
    while time.time()-start < seconds:
        time.sleep(2)
        names = []
        frame = sys._current_frames().get(r.ident)
        while frame: names.append(frame.f_code.co_name); frame = frame.f_back
        #(on a busy machine no progress alone could be a slow schedule: we also ask for a release nested into another lock operation)
        if progress[0] == last and names and names[0] == '_release_read_lock' and any(n.startswith(('_acquire','_release','_switch')) for n in names[1:]):
            print(f"[part 2, no hooks, default gc settings] VIOLATION: the reader thread stopped after {last} iterations ({time.time()-start:.0f}s). Its stack:")
            frame = sys._current_frames()[r.ident]
            while frame:
                print(f"      {os.path.basename(frame.f_code.co_filename)}:{frame.f_lineno} in {frame.f_code.co_name}")
                frame = frame.f_back
            return True
        last = progress[0]
    print(f"[part 2] no hang within {seconds}s ({progress[0]} iterations) - it is a matter of chance, see part 1")
    return False

if __name__ == '__main__':
    #every part runs in a process of its own: a thread that hangs inside the collector leaves "a collection is in progress"
    #set for good, so no later collection (forced or automatic) would ever run in that process
    if len(sys.argv) > 1:
        ctx = mp.get_context("spawn")
        if sys.argv[1] == '1a': bad = part1("threading.Lock + list (the defaults)", None, None)
        if sys.argv[1] == '1b': bad = part1("multiprocessing Lock + RawArray (what CobaMultiprocessor uses)", ctx.RawArray(c_short,[0]*2**16), ctx.Lock())
        if sys.argv[1] == '2' : bad = part2(40)
        sys.stdout.flush()
        os._exit(1 if bad else 0) #(hung daemon threads hold locks that interpreter shutdown would wait for)

    import subprocess
    codes = [subprocess.run([sys.executable,'-W','ignore',__file__,part],timeout=100).returncode for part in ['1a','1b','2']]
    print("exit codes of the three parts:", codes)
    sys.exit(1 if any(codes) else 0)
