"""
C19: after a caller has left its with-block through an exception in the body no lock may remain held.

A worker (here: the code a CobaMultiprocessor worker runs, ProcessTasks, on one thread) evaluates a learner on an
OpenML environment behind a ConcurrentCacher. The learner's first prediction has a format coba can't make sense of
(a typical mistake in a hand written learner), SafeLearner raises, ProcessTasks logs the error and goes on.

Expected: the reader of the environment is gone, so the read lock on the ARFF cache entry and the download permit
          (CobaContext.store['openml_semaphore']) are given back.
Actual  : both stay taken until the *cyclic* garbage collector happens to run in that worker, because the exception
          SafeLearner.pred_format raises is also stored in a local variable of the raising frame (exception ->
          traceback -> frame -> exception). The cycle keeps every frame of the traceback alive and with them the
          suspended OpenmlSource generators that sit inside `with CobaContext.cacher.get_set(...)`.
          A worker that has nothing left to do (or that itself waits for a permit / a lock) doesn't allocate, so the
          collector never runs there: another caller that needs the write lock (rmv, as OpenmlSource._clear_cache does)
          waits forever and the download permits run out.

Nothing is patched in coba except the HTTP layer (no network): coba.environments.openml.HttpSource is replaced by a
source that serves a small data set. The garbage collector is left ENABLED with its default thresholds.
"""
import gc, sys, json, time, threading, warnings
warnings.simplefilter("ignore")

import coba.environments.openml as openml_module
import coba.context.cachers as cachers_module
from coba.context      import CobaContext, ConcurrentCacher, MemoryCacher, NullLogger
from coba.environments import Environments
from coba.evaluators   import SequentialCB
from coba.experiments.process import ProcessTasks, Task

# ---------------------------------------------------------------- a tiny OpenML (no network)
class FakeHttpSource:
    def __init__(self, url, chunk_size=None, timeout=None): self.url = url
    def read(self):
        u = self.url
        if '/data/features/' in u:
            feats = [{"index":str(i),"name":n,"data_type":t,"is_ignore":"false","is_row_identifier":"false"} for i,(n,t) in enumerate([("a","numeric"),("b","numeric"),("c","nominal")])]
            return iter([json.dumps({"data_features":{"feature":feats}})])
        if '/json/data/' in u:
            return iter([json.dumps({"data_set_description":{"id":"1","name":"t","file_id":"77","default_target_attribute":"c","status":"active"}})])
        if '/download/' in u:
            return iter(["@relation t","@attribute a numeric","@attribute b numeric","@attribute c {x,y,z}","@data"]+[f"{i},{i%7},{'xyz'[i%3]}" for i in range(200)])
        raise Exception("unexpected url "+u)
openml_module.HttpSource = FakeHttpSource
openml_module.time = type("NoSleep",(),{"sleep":staticmethod(lambda s:None)}) #the politeness delay before a request

# ---------------------------------------------------------------- what a CobaMultiprocessor worker has
cacher    = ConcurrentCacher(MemoryCacher())
semaphore = threading.Semaphore(3)
CobaContext.cacher = cacher
CobaContext.logger = NullLogger()
CobaContext.store  = {"openml_semaphore": semaphore}

held    = lambda: {i:v for i,v in enumerate(cacher._array) if v != 0}
permits = lambda: semaphore._value

class HandWrittenLearner:
    """Returns two numbers for three actions: not a pmf, not an action, not (action,prob)."""
    @property
    def params(self): return {"family":"handwritten"}
    def predict(self, context, actions): return [0.1,0.1]
    def learn(self, *args, **kwargs): pass

class RaisingLearner:
    """For comparison: a learner that simply raises in predict."""
    @property
    def params(self): return {"family":"raising"}
    def predict(self, context, actions): raise Exception("boom")
    def learn(self, *args, **kwargs): pass

def work_a_chunk(learner):
    env   = Environments.from_openml(data_id=1)[0]
    chunk = [Task((0,env),(0,learner),(0,SequentialCB()))]
    outs  = list(ProcessTasks().filter(chunk)) #the evaluation fails, the error is logged, no output
    return outs

failed = False

# ---------------------------------------------------------------- control: an ordinary exception in the body
work_a_chunk(RaisingLearner())
print(f"learner raises in predict      : locks held {held()}, permits free {permits()}/3")
assert not held() and permits() == 3, "control failed"
cacher._cache._cache.clear() #so that the next read downloads again (and takes a permit)

# ---------------------------------------------------------------- the violation
work_a_chunk(HandWrittenLearner())
print(f"learner's prediction is unclear: locks held {held()}, permits free {permits()}/3   <- the worker is done with the chunk")

if held() or permits() != 3:
    failed = True
    arff_key = "openml_000001_arff"
    slot     = cacher._index(arff_key)
    print(f"  the read lock on '{arff_key}' (slot {slot}) is still counted although nobody reads the entry any more")

    #another caller (another worker whose read of the data set failed calls OpenmlSource._clear_cache) wants to remove the entry
    cachers_module.time = type("ShortSleep",(),{"sleep":staticmethod(lambda s: time.sleep(.05))}) #poll faster than once a second
    done = threading.Event()
    def other_worker():
        cacher.rmv(arff_key)
        done.set()
    t = threading.Thread(target=other_worker, daemon=True); t.start()
    waited = 0
    while waited < 5 and not done.is_set():
        time.sleep(.5); waited += .5
    print(f"  another caller's rmv('{arff_key}') has been waiting for {waited}s: finished={done.is_set()} (write waiters: {cacher._write_waits})")

    n = gc.collect()
    time.sleep(.5)
    print(f"  after an explicit gc.collect() ({n} unreachable objects): locks held {held()}, permits free {permits()}/3, rmv finished={done.is_set()}")
    print("  => only the cyclic collector gives the lock and the permit back; an idle or waiting worker never runs it.")

if failed:
    print("VIOLATION: a caller left its with-block through an exception and the lock (and download permit) stayed held.")
    sys.exit(1)
print("ok: nothing stayed held")
sys.exit(0)
