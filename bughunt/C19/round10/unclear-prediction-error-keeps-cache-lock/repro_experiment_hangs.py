"""
Secondary demonstration (real processes, probabilistic but it has hung on every try here): a multi-process Experiment
over chunked OpenML environments with one learner whose prediction format is unclear never finishes.

Each worker peeks at its environment (first read: it takes one of the 3 download permits, the chunk's Cache keeps the
source open), then the evaluation fails in SafeLearner.pred_format. The exception's reference cycle keeps the source
generator - and so the permit and the read lock on the ARFF entry - alive until the worker's cyclic collector runs.
The workers then ask for a permit for their next chunk, find none, and block: a blocked process allocates nothing,
the collector never runs, nobody ever gives a permit back.

The same experiment with a learner that simply raises finishes in a few seconds.
Only the HTTP layer is replaced (in every process, on import of this file).
"""
import sys, json, time, threading, tempfile, warnings, os
warnings.simplefilter("ignore")

import coba.environments.openml as openml_module
import coba.multiprocessing as coba_mp
from coba.context      import CobaContext, DiskCacher, NullLogger
from coba.environments import Environments
from coba.experiments  import Experiment

class FakeHttpSource:
    def __init__(self, url, chunk_size=None, timeout=None): self.url = url
    def read(self):
        u = self.url
        if '/data/features/' in u:
            feats = [{"index":str(i),"name":n,"data_type":t,"is_ignore":"false","is_row_identifier":"false"} for i,(n,t) in enumerate([("a","numeric"),("b","numeric"),("c","nominal")])]
            return iter([json.dumps({"data_features":{"feature":feats}})])
        if '/json/data/' in u:
            return iter([json.dumps({"data_set_description":{"id":u.rsplit('/',1)[1],"name":"t","file_id":"77","default_target_attribute":"c","status":"active"}})])
        if '/download/' in u:
            return iter(["@relation t","@attribute a numeric","@attribute b numeric","@attribute c {x,y,z}","@data"]+[f"{i},{i%7},{'xyz'[i%3]}" for i in range(200)])
        raise Exception("unexpected url "+u)

#runs in the main process and (spawn imports this file again) in every worker
openml_module.HttpSource = FakeHttpSource
openml_module.time = type("NoSleep",(),{"sleep":staticmethod(lambda s:None)})

class HandWrittenLearner:
    @property
    def params(self): return {"family":"handwritten"}
    def predict(self, context, actions): return [0.1,0.1] #two numbers for three actions
    def learn(self, *args, **kwargs): pass

class RaisingLearner:
    @property
    def params(self): return {"family":"raising"}
    def predict(self, context, actions): raise Exception("boom")
    def learn(self, *args, **kwargs): pass

def run(learner, seconds):
    seen = {}
    old_init = coba_mp.CobaMultiprocessor.ProcessFilter.__init__
    def init(self, filter, logger, cacher, store, sink):
        seen['store'] = store; seen['cacher'] = cacher
        old_init(self, filter, logger, cacher, store, sink)
    coba_mp.CobaMultiprocessor.ProcessFilter.__init__ = init

    CobaContext.cacher = DiskCacher(tempfile.mkdtemp(prefix="c19_"))
    envs = Environments.from_openml(data_id=list(range(1,13))).chunk()
    done = threading.Event()
    def target():
        Experiment(envs,[learner]).run(processes=4, quiet=True)
        done.set()
    t0 = time.time()
    threading.Thread(target=target,daemon=True).start()
    done.wait(seconds)
    took = time.time()-t0
    array = seen['cacher']._array
    held  = {i:array[i] for i in range(len(array)) if array[i] != 0}
    free  = seen['store']['openml_semaphore'].get_value()
    coba_mp.CobaMultiprocessor.ProcessFilter.__init__ = old_init
    return done.is_set(), took, held, free

if __name__ == '__main__':
    CobaContext.logger = NullLogger() #the learners' errors would fill the screen
    ok, took, held, free = run(RaisingLearner(), 60)
    print(f"learner raises in predict      : finished={ok} after {took:.1f}s, lock slots held {held}, permits free {free}/3")
    ok, took, held, free = run(HandWrittenLearner(), 30)
    print(f"learner's prediction is unclear: finished={ok} after {took:.1f}s, lock slots held {held}, permits free {free}/3")
    if not ok:
        print("VIOLATION: the experiment hangs. All download permits and the read locks on ARFF entries are held by workers")
        print("           that are done with the chunks they read them for; every worker waits for a permit.")
        sys.stdout.flush()
        import multiprocessing
        for p in multiprocessing.active_children(): p.terminate() #our own (blocked) workers
        os._exit(1)
    print("ok: the experiment finished")
