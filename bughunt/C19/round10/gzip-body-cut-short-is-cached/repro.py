"""
C19 (f): a download that does not deliver the whole content must not leave a cache entry that is served as complete.

HttpSource decodes `Content-Encoding: gzip` bodies itself (coba/pipes/sources.py, _byte_it_). Two kinds of bodies are
cut short WITHOUT any error, and what is left becomes the ARFF cache entry behind the ConcurrentCacher:

 A. a body made of more than one gzip member (RFC 1952 2.2: "a gzip file consists of a series of members"; produced by
    servers/proxies that compress block-wise or serve concatenated .gz files; gzip.decompress, zcat, curl read all of
    them): zlib.decompressobj stops at the end of the first member, everything after it lands in `unused_data` and is
    dropped. check_complete() is satisfied because the decompressor has seen *an* end-of-stream marker.
 B. a close-delimited gzip body (no Content-Length) that is cut before its first byte: check_complete() deliberately
    skips bodies without content (`any_content`) although not even an empty gzip stream has zero bytes. (A cut at any
    later byte raises EOFError since the fix of the previous round.)

The full stack is used: OpenmlSource -> ConcurrentCacher(DiskCacher) -> HttpSource; only urllib's urlopen is replaced.
"""
import sys, io, json, gzip, tempfile, warnings
warnings.simplefilter("ignore")
from email.message import Message

import coba.pipes.sources as sources_module
import coba.environments.openml as openml_module
from coba.context      import CobaContext, ConcurrentCacher, DiskCacher, NullLogger
from coba.environments import Environments

N_ROWS = 200
header = ["@relation t","@attribute a numeric","@attribute b numeric","@attribute c {x,y,z}","@data"]
rows   = [f"{i},{i%7},{'xyz'[i%3]}" for i in range(N_ROWS)]
text   = lambda lines: ("\n".join(lines)+"\n").encode()

class FakeResponse(io.BytesIO):
    """What urlopen returns: a readable with headers. Close-delimited (no Content-Length), like an HTTP/1.0 proxy."""
    def __init__(self, body, gzipped):
        super().__init__(body)
        self.headers = Message()
        self.headers['Content-Type'] = 'text/plain; charset=utf-8'
        if gzipped: self.headers['Content-Encoding'] = 'gzip'
        self.length = None
    def info(self): return self.headers

arff_body = [None]
requests  = []
def fake_urlopen(req, timeout=None):
    url = req.full_url; requests.append(url)
    if '/data/features/' in url:
        feats = [{"index":str(i),"name":n,"data_type":t,"is_ignore":"false","is_row_identifier":"false"} for i,(n,t) in enumerate([("a","numeric"),("b","numeric"),("c","nominal")])]
        return FakeResponse(json.dumps({"data_features":{"feature":feats}}).encode(), False)
    if '/json/data/' in url:
        return FakeResponse(json.dumps({"data_set_description":{"id":"1","name":"t","file_id":"77","default_target_attribute":"c","status":"active"}}).encode(), False)
    if '/download/' in url:
        return FakeResponse(arff_body[0], True)
    raise Exception("unexpected url "+url)
sources_module.request.urlopen = fake_urlopen

CobaContext.logger = NullLogger()
CobaContext.store  = {}

def read_twice(body):
    arff_body[0] = body
    del requests[:]
    cache_dir = tempfile.mkdtemp(prefix="c19_gzip_")
    CobaContext.cacher = ConcurrentCacher(DiskCacher(cache_dir))
    try:
        first  = len(list(Environments.from_openml(data_id=1)[0].read()))
    except Exception as e:
        return f"raises {type(e).__name__}", None, False
    n_http = len(requests)
    second = len(list(Environments.from_openml(data_id=1)[0].read())) #served from the cache
    return first, second, len(requests) == n_http and 'openml_000001_arff' in CobaContext.cacher

one_member  = gzip.compress(text(header+rows))
two_members = gzip.compress(text(header+rows[:100])) + gzip.compress(text(rows[100:]))
assert gzip.decompress(two_members) == gzip.decompress(one_member) #the very same content for any gzip reader

bad = False
for name,body in [("one gzip member            ",one_member), ("A. two gzip members        ",two_members), ("B. cut before its 1st byte ",b""), ("   cut after 40 bytes      ",one_member[:40])]:
    first,second,cached = read_twice(body)
    verdict = "ok" if first == N_ROWS or isinstance(first,str) else "PARTIAL CONTENT TAKEN FOR COMPLETE AND CACHED"
    if verdict != "ok": bad = True
    print(f"{name}: first read gives {first} (of {N_ROWS} interactions), second read (from the cache: {cached}) gives {second}   {verdict}")

if bad:
    print("VIOLATION: a download that ended before all of the content was there left an entry that is served as complete from then on.")
    sys.exit(1)
print("ok")
sys.exit(0)
