"""
OpenmlSource.read() limits parallel downloads with a shared semaphore (3 permits, created by CobaMultiprocessor).
After `openml_semaphore.acquire()` it calls `self._source_already_cached()` a second time and only afterwards sets
`semaphore_acquired = True`. `_source_already_cached()` is not a pure look-up: for a task source whose task entry is
"in" the cache (the file of a download that another worker is in the middle of counts) it goes through
CobaContext.cacher.get_set(...), i.e. it waits for the other worker and, when that worker's download failed,
downloads itself. If that raises (network still down, 404, 412 'please provide api key', ...) read() is left with
the permit taken and `semaphore_acquired == False`: the `finally` does not give the permit back.
Every such failure costs a permit for the rest of the experiment (also after the network is back): here 3 -> 2 -> 1,
i.e. all later downloads of all workers are serialised although nobody holds the other two permits.
(This route needs a second free permit, so it stops at 1; the last permit can only be lost the same way if the
failing look-up happens while another worker downloads without a permit.)

Workers are played by threads here (same code path, the shared objects are a threading.Semaphore(3) and a
ConcurrentCacher(DiskCacher)); the interleaving is forced with events. No network is used.
"""
import sys, io, json, time, tempfile, threading, warnings, http.client, urllib.request, urllib.error
warnings.simplefilter("ignore")

import coba.context.cachers as cachers
import coba.environments.openml as openml
from coba.context import CobaContext, ConcurrentCacher, DiskCacher
from coba.environments.openml import OpenmlSource

class _FastTime: #no politeness sleeps / 1 second polls in the repro
    sleep = staticmethod(lambda s: time.sleep(0.005))
    time  = staticmethod(time.time)
cachers.time = _FastTime
openml.time  = _FastTime

class Permits(threading.Semaphore):
    def __init__(self,n):
        super().__init__(n)
        self.n_waiting = 0
    def acquire(self,*args,**kwargs):
        self.n_waiting += 1
        try:
            return super().acquire(*args,**kwargs)
        finally:
            self.n_waiting -= 1

def wait_until(predicate, seconds=10):
    end = time.time()+seconds
    while not predicate():
        assert time.time() < end, "the repro's choreography timed out"
        time.sleep(0.01)

semaphore = Permits(3)
CobaContext.cacher = ConcurrentCacher(DiskCacher(tempfile.mkdtemp()))
CobaContext.store  = {"openml_semaphore": semaphore}

network = {"up": False, "first_request": threading.Event(), "let_first_fail": threading.Event(), "n": 0}
lock = threading.Lock()

class FakeSock:
    def __init__(self, data): self._data = data
    def makefile(self, *args, **kwargs): return io.BytesIO(self._data)
    def close(self): pass

def ok(obj_or_text):
    body = (obj_or_text if isinstance(obj_or_text,str) else json.dumps(obj_or_text)).encode()
    r = http.client.HTTPResponse(FakeSock(f"HTTP/1.1 200 OK\r\nContent-Length: {len(body)}\r\n\r\n".encode()+body), method="GET")
    r.begin()
    return r

def fake_urlopen(req, timeout=None):
    if network["up"]:
        url = req.full_url
        if "/json/data/features/" in url: return ok({"data_features":{"feature":[
            {"index":"0","name":"a","data_type":"numeric","is_target":"false","is_ignore":"false","is_row_identifier":"false"},
            {"index":"1","name":"y","data_type":"nominal","is_target":"true" ,"is_ignore":"false","is_row_identifier":"false"}]}})
        if "/json/data/" in url: return ok({"data_set_description":{"id":"7","name":"d","file_id":"9","status":"active","default_target_attribute":"y"}})
        return ok("@relation d\n@attribute a numeric\n@attribute y {0,1}\n@data\n1,0\n2,1\n")
    with lock:
        network["n"] += 1
        first = network["n"] == 1
    if first:
        network["first_request"].set()    #worker 1 is in the middle of its download (its cache file exists)
        network["let_first_fail"].wait(30)
    raise urllib.error.URLError("network is unreachable")
urllib.request.urlopen = fake_urlopen

def worker(task_id, errors):
    try:
        list(OpenmlSource(task_id=task_id).read())
    except Exception as e:
        errors.append(e)

def one_round(task_id):
    """Two workers read the same task source (its tasks were split over two chunks) while the network is down."""
    network.update(n=0); network["first_request"].clear(); network["let_first_fail"].clear()
    errors = []

    busy = semaphore._value
    for _ in range(busy): semaphore.acquire()              #the other workers are busy with long downloads: no permit is free
    wa = threading.Thread(target=worker,args=(task_id,errors),daemon=True); wa.start()
    wb = threading.Thread(target=worker,args=(task_id,errors),daemon=True); wb.start()
    wait_until(lambda: semaphore.n_waiting == 2)           #nothing is cached yet -> both wait for a permit
    semaphore.release()                                    #a busy worker is done -> one of the two ("worker 1") gets its permit
    assert network["first_request"].wait(10)               #... and is in the middle of downloading the task (its cache file exists)
    semaphore.release()                                    #a second busy worker is done -> "worker 2" gets its permit, looks again,
    wait_until(lambda: semaphore.n_waiting == 0)           #sees worker 1's file and waits for worker 1's write lock
    time.sleep(0.3)
    network["let_first_fail"].set()                        #worker 1's download fails; worker 2 now downloads itself and fails too
    wa.join(20); wb.join(20)
    assert not wa.is_alive() and not wb.is_alive()
    for _ in range(busy-2): semaphore.release()            #the remaining busy workers are done as well
    return errors

for task_id in [1,2]:
    errors = one_round(task_id)
    print(f"round {task_id}: both workers left read() with {[type(e).__name__ for e in errors]}; "
          f"nobody is downloading any more, free permits = {semaphore._value} (must be 3)")

locks = [(i,v) for i,v in enumerate(CobaContext.cacher._array) if v]
print("cache lock table:", locks)

network["up"] = True
done = []
t = threading.Thread(target=lambda: done.append(len(list(OpenmlSource(data_id=7).read()))), daemon=True)
t.start(); t.join(5)
print("network is back, a worker reads data set 7:", f"{done[0]} rows" if done else "still blocked after 5 seconds", f"; free permits = {semaphore._value} (must be 3)")

if semaphore._value != 3 or not done:
    print("\nVIOLATION: permits of the shared download semaphore were not given back although every reader has left read()")
    sys.exit(1)
print("ok")
