"""
CobaMultiprocessor: one log message that the parent can't rebuild silently ends the thread that drains the
workers' log queue. Everything logged afterwards is lost and, as soon as the workers have logged more than
a pipe buffer (64KB), no worker can exit any more (it waits for its log queue to be flushed): the call hangs
forever after (or before) delivering the outputs.

run: PYTHONPATH=/tmp/w12_c08 /venv/bin/python /tmp/w12_c08/findings/log-message-ends-stdlog-reader/repro.py
exit code 0: behaves correctly, 1: violation shown
"""
import os, sys, time, threading, multiprocessing as mp

from coba.context import CobaContext, BasicLogger
from coba.multiprocessing import CobaMultiprocessor
from coba.pipes import ListSink

class LookupFailed(Exception):
    #an ordinary exception with two required arguments: pickle rebuilds it with LookupFailed(*self.args)
    #which is LookupFailed("key 'a' in table 't'") -> TypeError in the process that loads it
    def __init__(self, key, table):
        super().__init__(f"key {key!r} not in table {table!r}")

class Work:
    def __init__(self, exception_type): self._type = exception_type
    def filter(self, item):
        try:
            if item == 0: raise (LookupFailed("a","t") if self._type == "custom" else KeyError("a"))
        except Exception as e:
            CobaContext.logger.log(e) #Logger.log(message: Union[str,Exception])
        for i in range(150):
            CobaContext.logger.log(f"item {item} step {i} " + "."*1000)
        return item*10

def kill_children_and_exit(code):
    me = os.getpid()
    for p in mp.active_children():
        try: p.terminate()
        except Exception: pass
    for d in os.listdir('/proc'): #workers that multiprocessing has forgotten about: our own children only, by pid
        if d.isdigit():
            try:
                stat = open(f'/proc/{d}/stat').read().rsplit(')',1)[1].split()
                if int(stat[1]) == me and 'spawn_main' in open(f'/proc/{d}/cmdline').read(): os.kill(int(d),15)
            except Exception: pass
    sys.stdout.flush()
    os._exit(code)

def run(exception_type, seconds):
    sink = ListSink()
    CobaContext.logger = BasicLogger(sink)
    result = {}
    def call():
        try:
            result['out'] = sorted(CobaMultiprocessor(Work(exception_type), 2, 0).filter([0,1,2,3]))
        except BaseException as e:
            result['err'] = e
    t = threading.Thread(target=call,daemon=True)
    start = time.time()
    t.start()
    t.join(seconds)
    return t.is_alive(), result, len(sink.items), round(time.time()-start,1)

if __name__ == '__main__':
    items    = [0,1,2,3]
    expected = [0,10,20,30]
    n_logs   = 1 + 4*150

    hung, result, n, secs = run("builtin", 50)
    print(f"control (the worker logs a KeyError)      : hung={hung} result={result} log messages received={n}/{n_logs} [{secs}s]")
    if hung or result.get('out') != expected:
        print("the control run failed, this is not the defect that is demonstrated here"); kill_children_and_exit(2)

    hung, result, n, secs = run("custom", 40)
    print(f"the worker logs a LookupFailed(key,table) : hung={hung} result={result} log messages received={n}/{n_logs} [{secs}s]")

    if hung:
        print("VIOLATION: CobaMultiprocessor.filter did not return within 40 seconds (the control needed a second or two).")
        print("           The thread that reads the workers' log queue ended when it could not rebuild one message,")
        print("           the workers filled the queue's pipe and now wait forever for somebody to read it before they exit.")
        kill_children_and_exit(1)
    if result.get('out') != expected or n < n_logs-1:
        print("VIOLATION: outputs or log messages were lost"); kill_children_and_exit(1)
    print("OK")
    kill_children_and_exit(0)
