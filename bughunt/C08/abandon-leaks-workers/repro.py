"""
C08: abandoning the output early returns, but does not terminate cleanly: every worker process stays alive (blocked in
in_queue.get()) until the parent interpreter exits, because nobody ever sends them the poison pill.

This is not the known 'an abandoned instance can not be reused': nothing is reused here, a fresh Multiprocessor is used for
every call. Each abandoned call (break out of the loop / an exception in the consumer / Ctrl-C in a notebook) leaks
n_processes workers including everything they hold (learners, environments, the shared cacher array ...).
"""
import sys, os, time, multiprocessing
from coba.pipes.multiprocessing import Multiprocessor

class Identity:
    def filter(self, item):
        time.sleep(.05) #a little work per item
        return item

if __name__ == '__main__':
    leaked_total = 0
    for call in range(3):
        for out in Multiprocessor(Identity(), 3, 0).filter(range(100)):
            break                                   #the consumer has seen enough (the generator is closed right here)
        deadline = time.time() + 8
        while time.time() < deadline and multiprocessing.active_children(): time.sleep(.25)
        alive = [p.pid for p in multiprocessing.active_children()]
        print(f"call {call}: 8 seconds after abandoning the output {len(alive)} worker processes are alive in total: {alive}")
    leaked_total = len(multiprocessing.active_children())

    if leaked_total:
        print(f"VIOLATION: {leaked_total} worker processes of 3 abandoned calls are still alive; they wait for items/poison that will never come")

    for p in multiprocessing.active_children(): p.terminate()
    sys.stdout.flush()
    os._exit(1 if leaked_total else 0)
