"""
C08: Ctrl-C while the parent is in the middle of receiving an output makes the clean-up in Multiprocessor.filter's `finally`
read from a torn stream: it hangs forever (or raises some unrelated unpickling error instead of the KeyboardInterrupt).

A multiprocessing.Queue message is a 4 byte length followed by the payload, read with several os.read() calls. A SIGINT that
arrives while the payload is being read raises KeyboardInterrupt between two of those reads: the bytes read so far are gone, the
rest of the payload is still in the pipe. The `finally` of Multiprocessor.filter then "empties" out_queue with get_nowait():
the next 4 bytes of the payload are taken for a length (here 0x5d..., > 1GB), and recv blocks until that many bytes have
arrived - which never happens.

The point in time is forced by wrapping Connection._recv in the parent: when the consumer (main thread) reads a big payload, the
first 64KiB are read and then a real SIGINT is raised (signal.raise_signal), i.e. exactly what the kernel + the default
SIGINT handler do when the user presses Ctrl-C at that moment. Nothing in coba is changed.
"""
import os, sys, time, signal, threading, multiprocessing
import multiprocessing.connection as mpc

from coba.pipes.multiprocessing import Multiprocessor

class BigResult:
    def filter(self, item):
        #a result of a few MB, e.g. the interaction records of one evaluation
        return [ {"index": i, "reward": i % 2, "item": item} for i in range(150_000) ]

fired = threading.Event()
orig_recv = mpc.Connection._recv

def recv_with_ctrl_c(self, size, read=os.read):
    if size > 1_000_000 and not fired.is_set() and threading.current_thread() is threading.main_thread():
        fired.set()
        orig_recv(self, 65536)              #part of the payload has been read ...
        signal.raise_signal(signal.SIGINT)  #... when the user presses Ctrl-C -> KeyboardInterrupt is raised right here
    return orig_recv(self, size)

def watchdog():
    fired.wait(60)
    time.sleep(30)
    print("VIOLATION: 30 seconds after Ctrl-C the call has neither raised KeyboardInterrupt nor returned: it hangs in the", flush=True)
    print("           finally of Multiprocessor.filter, in out_queue.get_nowait(), waiting for a 'message' whose length was taken from the middle of the torn one.", flush=True)
    import traceback; print("main thread is at:"); traceback.print_stack(sys._current_frames()[threading.main_thread().ident], limit=8, file=sys.stdout)
    for p in multiprocessing.active_children(): p.terminate()
    sys.stdout.flush()
    os._exit(1)

if __name__ == '__main__':
    mpc.Connection._recv = recv_with_ctrl_c
    threading.Thread(target=watchdog, daemon=True).start()

    status = 1
    n = 0
    t0 = time.time()
    try:
        for out in Multiprocessor(BigResult(), 2, 0).filter(range(6)):
            n += 1
        print(f"returned normally with {n} outputs (Ctrl-C was {'not ' if not fired.is_set() else ''}injected)")
        status = 0 if n == 6 else 1
    except KeyboardInterrupt:
        print(f"ok: KeyboardInterrupt reached the caller {time.time()-t0:.1f}s after start, {n} outputs had been received")
        status = 0
    except BaseException as e:
        print(f"VIOLATION: Ctrl-C was turned into {type(e).__name__}: {e}")
        status = 1

    mpc.Connection._recv = orig_recv
    for p in multiprocessing.active_children(): p.terminate()
    sys.stdout.flush()
    os._exit(status)
