"""
Supplement to repro.py without any hook (NOT deterministic, it depends on where the signal lands; it hung in 5 of 9 runs here):
the workers return big outputs (60MB) so that the parent spends most of its time receiving, and a real SIGINT is sent to the
parent process 0.4s (or argv[1] seconds) after the first output has arrived.
"""
import os, sys, time, signal, threading, multiprocessing
from coba.pipes.multiprocessing import Multiprocessor

class Big:
    def filter(self, item): return b']' * 60_000_000

first = threading.Event()
def ctrl_c():
    first.wait(60)
    time.sleep(float(sys.argv[1]) if len(sys.argv) > 1 else 0.4)
    os.kill(os.getpid(), signal.SIGINT)
    time.sleep(25)
    print("VIOLATION: 25 seconds after a real SIGINT the call has neither raised nor returned (it hangs in the finally of Multiprocessor.filter)", flush=True)
    for p in multiprocessing.active_children(): p.terminate()
    os._exit(1)

if __name__ == '__main__':
    threading.Thread(target=ctrl_c, daemon=True).start()
    n, status = 0, 0
    try:
        for out in Multiprocessor(Big(), 2, 0).filter(range(40)):
            n += 1; first.set()
        print("returned", n)
    except KeyboardInterrupt:
        print("ok this time: KeyboardInterrupt reached the caller after", n, "outputs")
    except BaseException as e:
        print("VIOLATION: Ctrl-C was turned into", type(e).__name__, str(e)[:100]); status = 1
    for p in multiprocessing.active_children(): p.terminate()
    sys.stdout.flush()
    os._exit(status)
