"""
C08: when starting a REPLACEMENT worker fails (fork/exec fails with EAGAIN/ENOMEM/EMFILE because the machine is at its process,
memory or descriptor limit - exactly the situation maxtasksperchild is used in) the error is raised on a callback thread, where
nobody sees it: the chain of that worker is neither continued nor counted down, the out_queue is never poisoned and
Multiprocessor.filter hangs forever instead of raising the OSError.
(When the very same failure hits one of the initial workers, which are started on the caller's thread, the call raises it.)

The fault is injected by making multiprocessing.util.spawnv_passfds (the fork+exec of a spawn Process) raise for the 2nd process.
"""
import os, sys, errno, threading, multiprocessing
import multiprocessing.util

from coba.pipes.multiprocessing import Multiprocessor

class Identity:
    def filter(self, item): return item

real_spawn = multiprocessing.util.spawnv_passfds
calls = []
def flaky_spawn(path, args, passfds):
    calls.append(1)
    #calls: 1 = resource tracker, 2 = first worker, 3 = its replacement (started by filter_finished_or_failed)
    if len(calls) == 3: raise OSError(errno.EAGAIN, "Resource temporarily unavailable")
    return real_spawn(path, args, passfds)

if __name__ == '__main__':
    multiprocessing.util.spawnv_passfds = flaky_spawn

    thread_errors = []
    threading.excepthook = lambda a: thread_errors.append(f"{a.thread.name}: {a.exc_type.__name__}: {a.exc_value}")

    out, state = [], {}
    def call():
        try:
            for o in Multiprocessor(Identity(), 1, 1).filter([0,1,2]): out.append(o)
            state['returned'] = True
        except BaseException as e:
            state['raised'] = repr(e)
    t = threading.Thread(target=call, daemon=True); t.start(); t.join(40)

    print("spawn calls:", len(calls), "| errors on background threads:", thread_errors)
    print("outputs:", out, "| state:", state)
    hung = t.is_alive()
    if hung:
        print("VIOLATION: the call did not terminate within 40 seconds; the OSError of the failed respawn was never raised to the caller")
    elif 'raised' in state:
        print("ok: the failure was raised to the caller")
    bad = hung or ('returned' in state and sorted(out) != [0,1,2])

    multiprocessing.util.spawnv_passfds = real_spawn
    for p in multiprocessing.active_children(): p.terminate()
    sys.stdout.flush()
    os._exit(1 if bad else 0)
