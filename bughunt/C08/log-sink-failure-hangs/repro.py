"""
C08: CobaMultiprocessor hangs forever when the parent's log sink fails once.

The workers send their log messages through the `stdlog` queue to a ThreadLine in the parent that writes them to
CobaContext.logger.sink. If that sink raises once (disk full / closed stdout / UnicodeEncodeError on a cp1252 console ...)
the ThreadLine dies (its exception is stored and never looked at) and nobody reads `stdlog` any more. As soon as the workers
have logged more than the pipe buffer (64KiB) their queue feeder threads block in write(), a worker that is done can not exit
(multiprocessing joins the feeder thread at process exit), its completion callback never runs, the out_queue is never
poisoned and CobaMultiprocessor.filter never returns - after all outputs have been delivered.
"""
import sys, os, threading, multiprocessing
from coba.multiprocessing import CobaMultiprocessor
from coba.context import CobaContext, BasicLogger
from coba.primitives import Sink

class FlakySink(Sink):
    def __init__(self): self.n = 0
    def write(self, msg):
        self.n += 1
        if self.n == 3: raise OSError(28, "No space left on device") #one failed write

class Work:
    def filter(self, item):
        for step in range(40):
            CobaContext.logger.log(f"item {item} step {step} " + "."*100) #~5KB of logs per item, 200KB in total
        yield item*10

if __name__ == '__main__':
    CobaContext.logger = BasicLogger(FlakySink())

    out, state = [], {}
    def call():
        try:
            for o in CobaMultiprocessor(Work(), 2, 0).filter(range(40)): out.append(o)
            state['returned'] = True
        except BaseException as e:
            state['raised'] = e

    t = threading.Thread(target=call, daemon=True); t.start(); t.join(60)

    print(f"outputs received: {len(out)} of 40; state: {state}")
    hung = t.is_alive()
    if hung:
        print("VIOLATION: CobaMultiprocessor.filter did not terminate within 60 seconds (it never will): the workers are alive,")
        print("           blocked at exit on the feeder thread of the stdlog queue that nobody reads since the log sink raised once.")
        print("           workers alive:", [p.pid for p in multiprocessing.active_children()])

    for p in multiprocessing.active_children(): p.terminate()
    sys.stdout.flush()
    os._exit(1 if hung else 0)
