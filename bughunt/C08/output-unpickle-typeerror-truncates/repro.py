"""
C08: an output that the worker can pickle but the parent can not UNpickle (TypeError) silently ends the stream.

The outputs travel through a multiprocessing.Queue: the worker's feeder thread pickles them and `out_queue.get()` in the
parent unpickles them. That get() sits inside QueueSource.read()'s `try: ... except (EOFError,BrokenPipeError,TypeError): pass`
so a TypeError raised while rebuilding an output (the classic case: an exception class / record class whose __init__ takes
other arguments than it hands to Exception.__init__) is taken for "the queue was closed": the parent stops reading,
Multiprocessor.filter returns normally and every later output is lost - no error, no hang, just fewer results.
With one process (no queue) the very same filter delivers everything.
"""
import sys, os, threading, multiprocessing
from coba.pipes.multiprocessing import Multiprocessor

class RowError(Exception):
    """a perfectly normal user exception: pickle.dumps works, pickle.loads raises TypeError (missing argument 'why')"""
    def __init__(self, row, why):
        super().__init__(f"row {row}: {why}")
        self.row = row

class Validate:
    """returns (does not raise) an error record for bad rows so that the caller can collect them"""
    def filter(self, row):
        return RowError(row, "negative value") if row == 2 else row

if __name__ == '__main__':
    items = list(range(8))

    expected = list(Multiprocessor(Validate(), 1, 0).filter(items))
    print("1 process  :", expected)

    result = {}
    def call():
        try:
            result['out'] = list(Multiprocessor(Validate(), 2, 0).filter(items))
        except BaseException as e:
            result['err'] = e
    t = threading.Thread(target=call, daemon=True); t.start(); t.join(60)

    bad = False
    if t.is_alive():
        print("2 processes: HUNG"); bad = True
    elif 'err' in result:
        print("2 processes: raised", repr(result['err']), "(an error is acceptable, it is not silent)")
    else:
        out = result['out']
        print("2 processes:", out)
        if len(out) != len(expected):
            print(f"VIOLATION: {len(expected)-len(out)} of {len(expected)} outputs were silently lost and no error was raised")
            bad = True

    for p in multiprocessing.active_children(): p.terminate()
    sys.stdout.flush()
    os._exit(1 if bad else 0)
