"""
C08: CobaMultiprocessor delivers different outputs for the same filter depending on the number of processes.

With processes=1 and maxtasksperchild=0 the filter is handed to Multiprocessor as it is, whose Foreach turns a result that is
not an Iterator into ONE output. In every other configuration the filter is wrapped into CobaMultiprocessor.ProcessFilter whose
filter() is `yield from self._filter.filter(item)`: a dict result becomes its keys, a str its characters, a list/tuple its
elements and a scalar raises TypeError("'int' object is not iterable").
"""
import sys, os, threading, multiprocessing
from collections import Counter
from coba.multiprocessing import CobaMultiprocessor
from coba.context import CobaContext, NullLogger

class DictRow:
    def filter(self, item): return {"item": item, "square": item*item}
class StrRow:
    def filter(self, item): return f"row-{item}"
class TupleRow:
    def filter(self, item): return (item, item*item)
class Scalar:
    def filter(self, item): return item*item

def run(filter, procs, mtpc):
    result = {}
    def call():
        try:
            result['out'] = list(CobaMultiprocessor(filter, procs, mtpc).filter(range(3)))
        except BaseException as e:
            result['err'] = e
    t = threading.Thread(target=call, daemon=True); t.start(); t.join(25)
    return 'HUNG' if t.is_alive() else result

def same(a,b):
    if a == 'HUNG' or b == 'HUNG' or 'err' in a or 'err' in b: return False
    return Counter(map(repr,a['out'])) == Counter(map(repr,b['out']))

if __name__ == '__main__':
    CobaContext.logger = NullLogger()
    bad = False
    for F in [DictRow, StrRow, TupleRow, Scalar]:
        one = run(F(), 1, 0)
        two = run(F(), 2, 0)
        print(f"{F.__name__:9} processes=1: {one}")
        print(f"{F.__name__:9} processes=2: {two}")
        if not same(one,two):
            print("  VIOLATION: not the multiset of outputs the filter produces item by item")
            bad = True

    for p in multiprocessing.active_children(): p.terminate()
    sys.stdout.flush()
    os._exit(1 if bad else 0)
