"""
A filter error whose text starts with "Can't get attribute" (what pickle.load raises when a stored object's class
has been renamed / moved - e.g. a filter that loads a pickled model or a cached data set) is not raised by
Multiprocessor.filter. The worker replaces it by a CobaException that tells the user to move classes out of
`if __name__ == '__main__'` (or to pip install cloudpickle): the type, the message and the name of the missing
class are lost. With one process the original error is raised.
"""
import os, sys, pickle, threading
from coba.pipes import Multiprocessor
from coba.multiprocessing import CobaMultiprocessor

class LoadModel:
    #stands for a filter that loads something that was pickled by an older version of the user's code
    STORED = b"\x80\x04\x95\x1c\x00\x00\x00\x00\x00\x00\x00\x8c\x08__main__\x94\x8c\x0bOldLearner2\x94\x93\x94)\x81\x94."
    def filter(self, x):
        if x == 1: pickle.loads(self.STORED)
        return x

def run(make, timeout=60):
    res = {}
    def work():
        try: res['out'] = list(make().filter([0,1,2]))
        except BaseException as e: res['err'] = e
    t = threading.Thread(target=work, daemon=True); t.start(); t.join(timeout)
    if t.is_alive(): res['hang'] = True
    return res

def _leave(code):
    #the blocked threads / left over worker processes of a hung call would keep a normal exit waiting
    import multiprocessing
    sys.stdout.flush()
    for p in multiprocessing.active_children():
        try: p.terminate()
        except Exception: pass
    os._exit(code)

if __name__ == '__main__':
    single = run(lambda: Multiprocessor(LoadModel(), 1, 0))
    multi  = run(lambda: Multiprocessor(LoadModel(), 2, 0))
    coba   = run(lambda: CobaMultiprocessor(LoadModel(), 1, 1))
    print("1 process              :", repr(single.get('err')))
    print("2 processes            :", repr(multi.get('err')))
    print("CobaMultiprocessor(1,1):", repr(coba.get('err')))
    same = lambda a,b: type(a) is type(b) and str(a) == str(b)
    bad = not same(single.get('err'), multi.get('err')) or not same(single.get('err'), coba.get('err'))
    sys.stdout.flush()
    if bad:
        print("VIOLATION of C08: the error raised by the multi-process call is not the error the filter raised")
        _leave(1)
    print("no violation")
    _leave(0)
