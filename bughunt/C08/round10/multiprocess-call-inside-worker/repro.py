"""
A filter that itself makes a multi-process call (a learner/environment that runs an inner Experiment or
Environments.save with processes>1 - explicitly or because ~/.coba says {"experiment":{"processes":2}} - or simply an
inner Multiprocessor) works when the outer call uses one process. In a worker of an outer multi-process call the
inner Multiprocessor.filter cannot start its workers, because coba creates all its workers as daemonic processes:

  1. small items: the inner call raises AssertionError('daemonic processes are not allowed to have children')
     although its filter and items are fine (clause: "for any number of processes").
  2. items larger than a pipe buffer: after that AssertionError the inner call's loader has left items in the inner
     in_queue; the worker's exit handler waits for that queue's feeder thread forever, the worker never exits, its
     callback never runs and the OUTER Multiprocessor.filter hangs instead of raising.
"""
import os, sys, threading, multiprocessing
from coba.pipes import Multiprocessor

class Len:
    def filter(self, x):
        return len(x)

class InnerCall:
    def __init__(self, n, size):
        self.n = n; self.size = size
    def filter(self, x):
        return sorted(Multiprocessor(Len(), self.n, 0).filter([b'x'*self.size]*6))

def run(n, flt, timeout):
    res = {}
    def work():
        try: res['out'] = list(Multiprocessor(flt, n, 0).filter([0,1]))
        except BaseException as e: res['err'] = repr(e)
    t = threading.Thread(target=work, daemon=True); t.start(); t.join(timeout)
    if t.is_alive(): res['hang'] = True
    return res

def leave(code):
    sys.stdout.flush()
    for p in multiprocessing.active_children():
        try: p.terminate()
        except Exception: pass
    os._exit(code)

if __name__ == '__main__':
    bad = []
    for size in [10, 200_000]:
        expected = [[size]*6, [size]*6]
        single = run(1, InnerCall(2,size), 40)
        multi  = run(2, InnerCall(2,size), 30)
        print(f"item size {size}: outer n_processes=1 ->", str(single)[:100])
        print(f"item size {size}: outer n_processes=2 ->", str(multi)[:100], flush=True)
        if single.get('out') == expected and multi.get('out') != expected:
            bad.append(f"size {size}: " + ("the outer call never returned" if multi.get('hang') else multi.get('err','?')))
    if bad:
        print("VIOLATION of C08:", *bad, sep="\n  - ")
        leave(1)
    print("no violation")
    leave(0)
