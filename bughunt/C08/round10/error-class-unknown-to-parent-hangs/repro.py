"""
The filter raises an exception whose class lives in a module that exists in the worker process only (here: code that
the filter loads from a file at run time with importlib - the usual way plug-ins / user supplied learner code are
loaded; `sys.path.append(...)` inside the component has the same effect). The worker checks that the exception
survives pickle.dumps/pickle.loads - in the worker, where the module is known - and sends it. The parent unpickles
it in ProcessLine._get_result on the worker's callback thread: ModuleNotFoundError kills that thread, the worker
slot is never counted down, out_queue is never poisoned and Multiprocessor.filter waits forever instead of raising.
With one process the PluginError is raised as it should be.
"""
import os, sys, threading, tempfile, importlib.util
from coba.pipes import Multiprocessor

class RunPlugin:
    def __init__(self, path):
        self.path = path
    def filter(self, x):
        if 'my_plugin' not in sys.modules:
            spec = importlib.util.spec_from_file_location('my_plugin', self.path)
            mod  = importlib.util.module_from_spec(spec)
            sys.modules['my_plugin'] = mod
            spec.loader.exec_module(mod)
        return sys.modules['my_plugin'].work(x)

def run(n, m, path, timeout):
    res = {}
    def work():
        try: res['out'] = list(Multiprocessor(RunPlugin(path), n, m).filter([0,1,2]))
        except BaseException as e: res['err'] = repr(e)
    t = threading.Thread(target=work, daemon=True); t.start(); t.join(timeout)
    if t.is_alive(): res['hang'] = True
    return res

def _leave(code):
    #the blocked threads / left over worker processes of a hung call would keep a normal exit waiting
    import multiprocessing
    sys.stdout.flush()
    for p in multiprocessing.active_children():
        try: p.terminate()
        except Exception: pass
    os._exit(code)

if __name__ == '__main__':
    path = os.path.join(tempfile.mkdtemp(), 'my_plugin.py')
    with open(path,'w') as f:
        f.write("class PluginError(Exception): pass\n"
                "def work(x):\n"
                "    if x == 1: raise PluginError('bad input')\n"
                "    return x\n")

    multi  = run(2, 0, path, 30)   #first: the single-process call below imports my_plugin into this process
    print("n_processes=2:", multi, flush=True)
    sys.modules.pop('my_plugin',None)
    single = run(1, 0, path, 30)
    print("n_processes=1:", single, flush=True)

    if multi.get('hang') or 'PluginError' not in multi.get('err',''):
        print("VIOLATION of C08: the filter raised PluginError('bad input') for item 1; the multi-process call " +
              ("never returned" if multi.get('hang') else f"gave {multi}"), flush=True)
        _leave(1)
    print("no violation")
    _leave(0)
