"""
CobaMultiprocessor exists to run a filter in worker processes *with the caller's CobaContext*: it carries
CobaContext.logger, CobaContext.cacher and CobaContext.store into every worker (ProcessFilter). It does not carry
CobaContext.api_keys. A filter that depends on them (OpenmlSource._http_request appends ?api_key=... from
CobaContext.api_keys['openml'] to every request) therefore produces something else in the workers than it does
with processes=1 as soon as the key was set in code (`CobaContext.api_keys['openml'] = ...` under
`if __name__ == '__main__':`, in a function, or in a notebook cell) rather than in a ~/.coba file.
"""
import os, sys, threading
from coba.context import CobaContext
from coba.multiprocessing import CobaMultiprocessor

class UrlOfRequest:
    #what OpenmlSource._http_request does with the key (coba/environments/openml.py:149,166) without the network
    def filter(self, data_id):
        url     = f"https://openml.org/api/v1/json/data/{data_id}"
        api_key = CobaContext.api_keys.get('openml')
        if api_key: url = f"{url}?api_key={api_key}"
        return url

def run(processes, maxtasks, timeout=60):
    res = {}
    def work():
        try: res['out'] = sorted(CobaMultiprocessor(UrlOfRequest(), processes, maxtasks).filter([150, 151]))
        except BaseException as e: res['err'] = e
    t = threading.Thread(target=work, daemon=True); t.start(); t.join(timeout)
    if t.is_alive(): res['hang'] = True
    return res

def _leave(code):
    #the blocked threads / left over worker processes of a hung call would keep a normal exit waiting
    import multiprocessing
    sys.stdout.flush()
    for p in multiprocessing.active_children():
        try: p.terminate()
        except Exception: pass
    os._exit(code)

if __name__ == '__main__':
    CobaContext.search_paths = []          #keep the machine's own .coba files out of this
    CobaContext.api_keys['openml'] = 'MY-KEY'
    CobaContext.store['my_setting'] = 1    #this one does arrive in the workers

    single = run(1,0)
    multi  = run(2,0)
    print("processes=1:", single)
    print("processes=2:", multi)
    sys.stdout.flush()
    if single != multi:
        print("VIOLATION of C08: the outputs of the multi-process call are not what the filter produces in the caller's context")
        _leave(1)
    print("no violation")
    _leave(0)
