"""
CobaMultiprocessor hands the parent's *live* logger object - together with its sink - to every worker it
starts (the first ones and every replacement started because of maxtasksperchild), although the first thing
a worker does is to replace that sink by the stdlog queue. The parent's sink is at the same time used by
CobaMultiprocessor's own stdlog_writer thread. With the (registered, configurable via .coba) DiskSink the
sink holds an open file while a line is being written, so pickling the logger for a new worker at that
moment raises "TypeError: cannot pickle 'BufferedRandom' instances".

  A) processes=2: the pickling happens on the calling thread -> a perfectly fine filter/items pair makes
     CobaMultiprocessor.filter raise TypeError instead of delivering the outputs.
  B) processes=1, maxtasksperchild=1: the pickling happens on the callback thread that replaces the retired
     worker -> the error is lost there and CobaMultiprocessor.filter hangs forever.
  C) (no race needed) a logger whose sink can't be pickled at all (LambdaSink(lambda ...)) works with one
     process and fails as soon as processes>1, although no worker ever uses that sink.

Without the hooks below A/B happen by chance (2 out of 5 plain runs hung on the test machine with a filter that
logs a lot). The hooks only force the schedule: the stdlog thread is held inside DiskSink.write (file open)
until the next worker has been pickled.
"""
import os, sys, tempfile, threading, time
import multiprocessing.reduction as reduction
from multiprocessing.process import BaseProcess

from coba.context import CobaContext, IndentLogger
from coba.pipes import DiskSink, LambdaSink
from coba.multiprocessing import CobaMultiprocessor

class LogAndReturn:
    def filter(self, x):
        CobaContext.logger.log(f"working on {x}")
        return x

file_is_open   = threading.Event()
worker_pickled = threading.Event()
n_dumps        = [0]
force          = [False]

_enter = DiskSink.__enter__
def enter(self):
    out = _enter(self)
    if force[0] and not worker_pickled.is_set():
        file_is_open.set()           #the stdlog thread is now in the middle of writing a line
        worker_pickled.wait(20)      #... and stays there until the next worker has been pickled
    return out
DiskSink.__enter__ = enter

_dump = reduction.dump
def dump(obj, file, protocol=None):
    #every start dumps some preparation data and then the process object itself
    if isinstance(obj, BaseProcess): n_dumps[0] += 1
    if force[0] and isinstance(obj, BaseProcess) and n_dumps[0] == 2:
        file_is_open.wait(20)        #the second worker of this call is pickled while a log line is being written
        try:
            return _dump(obj, file, protocol)
        finally:
            worker_pickled.set()
    return _dump(obj, file, protocol)
reduction.dump = dump

def run(processes, maxtasks, items, timeout=25):
    result = {}
    def work():
        try:
            result['out'] = sorted(CobaMultiprocessor(LogAndReturn(), processes, maxtasks).filter(items))
        except BaseException as e:
            result['err'] = e
    t = threading.Thread(target=work, daemon=True)
    t.start()
    t.join(timeout)
    if t.is_alive(): result['hang'] = True
    return result

def reset():
    file_is_open.clear(); worker_pickled.clear(); n_dumps[0] = 0

def _leave(code):
    #the blocked threads / left over worker processes of a hung call would keep a normal exit waiting
    import multiprocessing
    sys.stdout.flush()
    for p in multiprocessing.active_children():
        try: p.terminate()
        except Exception: pass
    os._exit(code)

if __name__ == '__main__':
    bad = []
    tmp = tempfile.mkdtemp()

    # C) no forcing at all
    force[0] = False
    lines = []
    CobaContext.logger = IndentLogger(LambdaSink(lambda msg: lines.append(msg)))
    r1 = run(1, 0, [0,1,2])
    r2 = run(2, 0, [0,1,2])
    print("C) sink=LambdaSink(lambda) processes=1:", r1)
    print("C) sink=LambdaSink(lambda) processes=2:", r2)
    if r1.get('out') == [0,1,2] and r2.get('out') != [0,1,2]:
        bad.append("C: a logger sink that can't be pickled makes the multi-process call fail (single process is fine)")

    # A) the logger is pickled on the calling thread while the stdlog thread writes a line to the DiskSink
    force[0] = True
    reset()
    CobaContext.logger = IndentLogger(DiskSink(os.path.join(tmp,"logA.txt")))
    r = run(2, 0, [0,1,2,3])
    print("A) sink=DiskSink processes=2 maxtasksperchild=0:", r)
    if r.get('out') != [0,1,2,3]:
        bad.append(f"A: expected [0,1,2,3] got {r}")

    # B) ... on the callback thread that replaces a retired worker
    reset()
    CobaContext.logger = IndentLogger(DiskSink(os.path.join(tmp,"logB.txt")))
    r = run(1, 1, [0,1,2])
    print("B) sink=DiskSink processes=1 maxtasksperchild=1:", r)
    if r.get('out') != [0,1,2]:
        bad.append(f"B: expected [0,1,2] got {r}" + (" (the call never returned)" if r.get('hang') else ""))

    sys.stdout.flush()
    if bad:
        print("\nVIOLATION of C08:")
        for b in bad: print("  -", b)
        sys.stdout.flush()
        _leave(1) #worker processes / blocked threads of the hung call would keep a normal exit waiting
    print("no violation")
    _leave(0)
