"""
The same defect without any hook: run a few times, e.g.
  for i in 1 2 3 4 5; do PYTHONPATH=/tmp/w11_c08 /venv/bin/python -W ignore natural_run.py; echo "exit $?"; done
On the test machine 2 of 5 runs printed `TypeError: cannot pickle 'BufferedRandom' instances` from a
join_and_call thread and then never finished (this script gives up after 20 seconds and exits with 1).
"""
import os, sys, time, tempfile, faulthandler
from coba.context import CobaContext, IndentLogger
from coba.pipes import DiskSink
from coba.multiprocessing import CobaMultiprocessor

class Logs:
    def filter(self, x):
        for i in range(3000): CobaContext.logger.log(f"item {x} line {i} " + "z"*200)
        return x

if __name__ == '__main__':
    faulthandler.dump_traceback_later(20, exit=True)
    CobaContext.logger = IndentLogger(DiskSink(os.path.join(tempfile.mkdtemp(),"log.txt")))
    t = time.time()
    out = list(CobaMultiprocessor(Logs(), 2, 1).filter(range(8)))
    print("OK", sorted(out), round(time.time()-t,2))
