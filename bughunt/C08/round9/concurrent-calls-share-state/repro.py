"""
Two calls of Multiprocessor.filter that are in flight at the same time on ONE Multiprocessor instance
(lazily consumed outputs, e.g. zip(mp.filter(a), mp.filter(b)), or two threads sharing the instance).

Nothing is abandoned here: both outputs are consumed to the end. Still the second call never ends,
because the bookkeeping of a call (self._n_procs, self._exceptions, self._load_stopper, self._main_err)
lives on the instance and is overwritten/shared by the other call.
"""
import os, sys, threading

from coba.pipes.multiprocessing import Multiprocessor

class Times10:
    def filter(self, x):
        return x*10

if __name__ == '__main__':
    mp = Multiprocessor(Times10(), 2, 0)

    items1 = list(range(3))
    items2 = list(range(100,130))

    g1 = mp.filter(items1)
    g2 = mp.filter(items2)

    out1 = [next(g1)]  # call 1 is running
    out2 = [next(g2)]  # call 2 is running too (it replaced self._load_stopper, self._n_procs, ...)

    out1 += list(g1)   # call 1 ends: its finally does self._load_stopper.stop() -> that is call 2's stopper
    print("call 1 finished:", sorted(out1))

    result = {}
    def consume():
        try:
            result['out'] = out2 + list(g2)
        except BaseException as e:
            result['err'] = e

    t = threading.Thread(target=consume, daemon=True)
    t.start()
    t.join(40)

    ok1 = sorted(out1) == [x*10 for x in items1]

    if t.is_alive():
        print("VIOLATION: call 2 on the same Multiprocessor instance hangs (no output, no error after 40 seconds)")
        sys.stdout.flush()
        import multiprocessing
        for child in multiprocessing.active_children(): child.terminate() #only our own workers
        os._exit(1) #the interpreter can't be relied on to exit normally with the hung call in the background

    if 'err' in result:
        print(f"VIOLATION: call 2 raised {result['err']!r} although the filter never raises")
        sys.exit(1)

    ok2 = sorted(result['out']) == [x*10 for x in items2]
    print("call 2 finished:", sorted(result['out']))

    if not (ok1 and ok2):
        print("VIOLATION: outputs lost or duplicated")
        sys.exit(1)

    print("OK")
    sys.exit(0)
