"""
The filter raises for every item (a bug in the user's filter) and the items are not tiny (> 64KB in total
left in the input queue, e.g. tasks that carry in-memory data). All workers die, Multiprocessor.filter
correctly raises the error... and then the interpreter can never exit: multiprocessing's exit handler joins
the feeder thread of in_queue, which is blocked forever writing the items nobody will ever read.

in_queue survives until exit because the traceback of the raised error references the frame of
Multiprocessor.filter (for an UNCAUGHT error the interpreter stores it in sys.last_exc/sys.last_traceback,
so this is what a plain script that dies with the error does; keeping the exception in a variable, a
debugger's post mortem or an interactive session do the same).

The drain loop in the finally of Multiprocessor.filter stops at the first moment the pipe is momentarily
empty (get_nowait -> Empty) although the feeder thread still has items in its buffer and although the loader
thread, once unblocked, puts one more item. Whether that happens is a race between the main thread and the
feeder thread. Mode 'forced' makes the feeder thread of the PARENT slow (50ms before every large message, as
on a busy machine), mode 'natural' changes nothing and just tries a few times.
"""
import os, sys, time, subprocess, threading

CHILD = r'''
import os, sys, time, threading, faulthandler

from coba.pipes.multiprocessing import Multiprocessor

class Buggy:
    def filter(self, x):
        raise ValueError("a bug in the user's filter")

def watchdog():
    #the call has raised long ago. If we are still here the interpreter hangs in its exit handlers.
    time.sleep(15)
    sys.stderr.write("\n--- still not exited 15 seconds after the error was raised. Threads: ---\n")
    faulthandler.dump_traceback(all_threads=True)
    sys.stderr.flush()
    os._exit(42)

if __name__ == '__main__':
    mode, size, n_procs = sys.argv[1], int(sys.argv[2]), int(sys.argv[3])

    if mode == 'forced':
        #only in this (the parent) process: the queue feeder threads need 50ms before they send a large message
        import multiprocessing.connection as mc
        send_bytes = mc.Connection.send_bytes
        def slow_send_bytes(self, buf, *args, **kwargs):
            if threading.current_thread().name == 'QueueFeederThread' and len(buf) > 60000: time.sleep(.05)
            return send_bytes(self, buf, *args, **kwargs)
        mc.Connection.send_bytes = slow_send_bytes

    items = [bytes(size) for _ in range(40)]

    hook = sys.excepthook
    def excepthook(*args):
        hook(*args)
        sys.stderr.write("--- the call raised the filter's error (correct). The script now ends. ---\n")
        threading.Thread(target=watchdog,daemon=True).start()
    sys.excepthook = excepthook

    list(Multiprocessor(Buggy(), n_procs, 0).filter(items)) #raises ValueError, uncaught: the script dies
'''

def run(mode, size, n_procs):
    env = dict(os.environ, PYTHONPATH=os.pathsep.join([p for p in sys.path if p]))
    path = os.path.join(os.path.dirname(os.path.abspath(__file__)), "_child.py")
    with open(path,"w") as f: f.write(CHILD)
    p = subprocess.Popen([sys.executable, "-W", "ignore", path, mode, str(size), str(n_procs)], stdout=subprocess.PIPE, stderr=subprocess.STDOUT, text=True, env=env)
    try:
        out,_ = p.communicate(timeout=50)
    except subprocess.TimeoutExpired:
        p.kill()
        out,_ = p.communicate()
        return 'timeout', out
    return p.returncode, out

if __name__ == '__main__':
    t0 = time.time()
    attempts = [('forced',300_000,2), ('natural',70_000,4), ('natural',70_000,4), ('natural',300_000,2)]

    for mode, size, n_procs in attempts:
        if time.time()-t0 > 70: break
        code, out = run(mode, size, n_procs)
        hung = code == 42 or code == 'timeout'
        print(f"[{mode}: 40 items of {size} bytes, {n_procs} processes, every item raises] exit code of the script: {code} -> {'HANGS AT EXIT' if hung else 'exits'}")
        if hung:
            print(out[-3500:])
            print("VIOLATION: the call raised the error but the process can not exit any more (feeder thread of in_queue blocked in send, exit handler joins it)")
            sys.exit(1)

    print("OK: the interpreter exited every time")
    sys.exit(0)
