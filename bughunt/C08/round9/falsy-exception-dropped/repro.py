"""
A filter that raises an exception object which is falsy (an exception class with __len__ or __bool__, e.g. an
error that aggregates sub-errors and has none, or an Exception that is also a collection) in a worker process.

Expected: the call raises that error (as it does with one process).
Actual  : the error is thrown away, the item is dropped silently, the dead worker is replaced and the call
          returns normally with one output missing.
"""
import sys

from coba.pipes.multiprocessing import Multiprocessor

class Problems(Exception):
    """collects the problems found with an item (like many validation libraries do)"""
    def __init__(self, *problems):
        super().__init__(*problems)
    def __len__(self):
        return len(self.args)

class Validate:
    def filter(self, x):
        if x == 2: raise Problems() #raised, though no individual problem was recorded
        return x

def call(n_processes, maxtasksperchild):
    try:
        return sorted(Multiprocessor(Validate(), n_processes, maxtasksperchild).filter(range(5)))
    except BaseException as e:
        return e

if __name__ == '__main__':
    single = call(1,0)
    multi  = call(2,0)
    multi2 = call(1,2)
    print("1 process                      :", repr(single))
    print("2 processes                    :", repr(multi))
    print("1 process, maxtasksperchild=2  :", repr(multi2))

    bad = False
    for r in (multi,multi2):
        if not isinstance(r,Problems):
            print(f"VIOLATION: the filter raised for item 2 but the call returned {r!r}: no error and the item is silently missing")
            bad = True
    sys.exit(1 if bad else 0)
