"""
The outputs of Multiprocessor.filter have to be the outputs the wrapped filter produces for the items.

Items that contain coba's HashableSparse / HashableDense (the keys of the tables of the bandit learners, made
from dict / list actions) do not survive the trip to a worker process: both classes cache hash(self) and the
cached value is pickled. String hashes are salted per process (the workers are spawned, each has its own salt),
so in the worker the keys of the unpickled tables carry the PARENT's hash values while a lookup with an equal,
newly made key uses the worker's. A learner that was trained in the parent has 'forgotten' everything in the worker.

Filter: "what does the learner in the item know about these actions" (BanditEpsilonLearner, epsilon=0: the
pmf is 1 for the best action). One process and two processes give different outputs for the same item.
"""
import os, sys

if os.environ.get("PYTHONHASHSEED","random") != "random":
    #with a fixed hash seed every process salts alike, which hides the problem. The default is a random salt.
    del os.environ["PYTHONHASHSEED"]
    os.execv(sys.executable, [sys.executable, "-W", "ignore", *sys.argv])

from coba.pipes.multiprocessing import Multiprocessor
from coba.multiprocessing import CobaMultiprocessor
from coba.learners import BanditEpsilonLearner

class WhatTheLearnerKnows:
    def filter(self, item):
        learner, actions = item
        return [round(p,3) for p in learner._pmf(None, actions)]

def trained(actions):
    learner = BanditEpsilonLearner(epsilon=0)
    for _ in range(5):
        learner.learn(None, actions[0], 0., .5)
        learner.learn(None, actions[1], 1., .5) #the second action is the good one
        learner.learn(None, actions[2], 0., .5)
    return learner

if __name__ == '__main__':
    sparse_actions = [{'genre_action':1,'year_1990':1}, {'genre_drama':1,'year_2001':1}, {'genre_comedy':1}]
    dense_actions  = [['action','1990'], ['drama','2001'], ['comedy','1985']]

    bad = False
    for name,actions in [("sparse (dict) actions",sparse_actions), ("dense (list) actions holding strings",dense_actions)]:
        item = (trained(actions), actions)
        one  = list(Multiprocessor(WhatTheLearnerKnows(), 1, 0).filter([item]))
        two  = list(Multiprocessor(WhatTheLearnerKnows(), 2, 0).filter([item]))
        coba = list(CobaMultiprocessor(WhatTheLearnerKnows(), 1, 1).filter([item]))
        print(name)
        print("  Multiprocessor, 1 process                          :", one)
        print("  Multiprocessor, 2 processes                        :", two)
        print("  CobaMultiprocessor, 1 process, maxtasksperchild=1  :", coba)
        if not (one == two == coba):
            print("  VIOLATION: the outputs of the multi-process call are not the outputs the filter produces for the item")
            bad = True

    sys.exit(1 if bad else 0)
