"""
If the filter raises for some item the call has to raise THAT error. In multi-process mode an error of the
filter (or of the item stream) whose text happens to contain the word "pickle" is replaced by a CobaException
that blames the user's code for not being picklable. The type of the error changes (an `except FileNotFoundError`
around the call no longer matches) and the advice in the message is wrong.
"""
import sys

from coba.pipes.multiprocessing import Multiprocessor

class LoadsModel:
    def filter(self, x):
        if x == 2: raise FileNotFoundError("[Errno 2] No such file or directory: 'models/learner-2.pickle'")
        return x

def stream():
    yield 0
    yield 1
    raise KeyError("no entry 'pickled_features' in the feature store")

class Identity:
    def filter(self, x):
        return x

def call(filter, items, n_processes):
    try:
        return list(Multiprocessor(filter, n_processes, 0).filter(items))
    except BaseException as e:
        return e

if __name__ == '__main__':
    bad = False

    for name, make in [("filter raises", lambda n: call(LoadsModel(), range(4), n)), ("item stream raises", lambda n: call(Identity(), stream(), n))]:
        single = make(1)
        multi  = make(2)
        print(f"{name}:")
        print(f"  1 process  : {type(single).__name__}: {str(single)[:100]}")
        print(f"  2 processes: {type(multi).__name__}: {str(multi)[:100]}...")
        if type(single) is not type(multi):
            print(f"  VIOLATION: the call does not raise the error of the {name.split()[0]} but a {type(multi).__name__} about pickling")
            bad = True

    sys.exit(1 if bad else 0)
