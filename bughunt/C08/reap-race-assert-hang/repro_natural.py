"""
Supplement to repro.py: the same failure WITHOUT any hook. Two threads of the application call the public
multiprocessing.active_children() in a loop (what a progress/monitoring thread does; it runs the same
multiprocessing.process._cleanup() as every Process.start()). They regularly win the race for reaping a finished worker and
coba's completion callbacks die on `assert not worker.is_alive()`: the call hangs after a handful of outputs.
(not deterministic, but it hung in every run that was tried)
"""
import os, sys, threading
import multiprocessing as mp
from coba.pipes.multiprocessing import Multiprocessor

class Identity:
    def filter(self, item): return item

if __name__ == '__main__':
    errs = []
    threading.excepthook = lambda a: errs.append(f"{a.thread.name}: {a.exc_type.__name__} {a.exc_value}")
    stop = False
    def monitor():
        while not stop: mp.active_children()
    for _ in range(2): threading.Thread(target=monitor, daemon=True).start()

    out, state = [], {}
    def call():
        for o in Multiprocessor(Identity(), 4, 1).filter(range(60)): out.append(o)
        state['returned'] = True
    t = threading.Thread(target=call, daemon=True); t.start(); t.join(45)
    stop = True
    hung = t.is_alive()
    print("background thread errors:", errs)
    print(f"{'VIOLATION: HUNG' if hung else 'returned'} with {len(out)} of 60 outputs")
    for p in mp.active_children(): p.terminate()
    sys.stdout.flush(); os._exit(1 if hung or len(out) != 60 else 0)
