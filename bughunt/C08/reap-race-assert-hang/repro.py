"""
C08: a worker that is reaped by a *different* thread than the one that joins it makes the completion callback die
with an AssertionError -> the worker is never replaced / counted down -> Multiprocessor.filter hangs forever.

Every multiprocessing.Process.start() begins with multiprocessing.process._cleanup(), which polls (waitpid WNOHANG) ALL
children of this process. coba starts replacement workers on callback threads (and the remaining workers on the caller's
thread) while other callback threads sit in ProcessLine.join() -> Process.join() -> waitpid(pid,0) for their own worker.
When a worker exits both threads race to reap it. If the _cleanup() thread wins, Popen.poll() of the joining thread gets
ECHILD and returns None ("still running"); until the winner has stored `returncode` (it needs the GIL back for that)
`worker.is_alive()` is True and `worker.exitcode` is None. filter_finished_or_failed starts with `assert not worker.is_alive()`.

The schedule is forced here by wrapping os.waitpid (nothing in coba is changed):
  * A = coba's join_and_call thread of the first worker, about to block in waitpid(pid,0)
  * B = a thread doing what any concurrent Process.start() does first: multiprocessing.process._cleanup()
  the child exits, B's WNOHANG waitpid reaps it, and B is held at the point where it waits for the GIL after the syscall.
"""
import os, sys, time, threading, faulthandler
import multiprocessing, multiprocessing.process

from coba.pipes.multiprocessing import Multiprocessor

class Identity:
    def filter(self, item):
        return item

real_waitpid = os.waitpid
state = dict(target=None, A=None, B=None)
b_reaped  = threading.Event()
a_checked = threading.Event()

def wait_until_zombie(pid):
    while True:
        try:
            with open(f"/proc/{pid}/stat") as f:
                if f.read().rsplit(')',1)[1].split()[0] == 'Z': return
        except FileNotFoundError:
            return
        time.sleep(.005)

def hooked_waitpid(pid, flag):
    me = threading.current_thread()

    if flag == 0 and state['target'] is None:
        #A: ProcessLine.join -> Process.join -> Popen.wait -> poll(0) for the first worker
        state['target'], state['A'] = pid, me
        wait_until_zombie(pid)                       #the worker has exited, A has not been scheduled yet...
        B = threading.Thread(target=multiprocessing.process._cleanup, daemon=True) #...a concurrent Process.start()
        state['B'] = B
        B.start()
        b_reaped.wait(10)
        return real_waitpid(pid, flag)               #-> ChildProcessError (ECHILD), just like in the kernel

    if pid == state['target'] and me is state['B']:
        result = real_waitpid(pid, flag)             #B reaps the worker
        b_reaped.set()
        a_checked.wait(5)                            #B has the result but not yet the GIL: returncode isn't stored yet
        return result

    if pid == state['target'] and me is state['A']:
        try:
            return real_waitpid(pid, flag)           #A: `assert not worker.is_alive()` -> poll() -> ECHILD -> None
        finally:
            a_checked.set()

    return real_waitpid(pid, flag)

if __name__ == '__main__':
    os.waitpid = hooked_waitpid

    thread_errors = []
    threading.excepthook = lambda args: thread_errors.append(f"{args.thread.name}: {args.exc_type.__name__} {args.exc_value}")

    out = []
    def call():
        out.extend(Multiprocessor(Identity(), 1, 1).filter([0,1,2]))
        out.append('returned')

    t = threading.Thread(target=call, daemon=True)
    t.start()
    t.join(45)

    print("errors on background threads:", thread_errors)
    print("outputs received so far     :", out)

    hung = t.is_alive()
    if hung:
        print("VIOLATION: Multiprocessor.filter([0,1,2]) with n_processes=1, maxtasksperchild=1 did not return within 45 seconds")
        print("           (the completion callback of the first worker died on `assert not worker.is_alive()`).")
    else:
        print("ok" if sorted(out[:-1]) == [0,1,2] else "VIOLATION: wrong outputs")
        hung = sorted(out[:-1]) != [0,1,2]

    os.waitpid = real_waitpid
    for p in multiprocessing.active_children(): p.terminate()
    sys.stdout.flush()
    os._exit(1 if hung else 0)
