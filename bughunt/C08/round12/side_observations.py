"""Reproducers for behaviour of the UNCHANGED tree that bears on C08. usage: side_observations.py <1|2|3|4>"""
import os, sys, threading

from coba.pipes.multiprocessing import Multiprocessor

class FalsyError(Exception):
    def __len__(self): return 0 #bool(FalsyError()) is False

class RaiseFalsyOn2:
    def filter(self, item):
        if item == 2: raise FalsyError("item 2 failed")
        return item

class ExitOn2:
    def filter(self, item):
        if item == 2: raise SystemExit(0)
        return item

class RuntimeOn2:
    def filter(self, item):
        if item == 2: raise RuntimeError("item 2 failed")
        return item

class Ident:
    def filter(self, item):
        return item

def bye(code):
    #worker processes that are still around would keep our stdout open
    import multiprocessing
    for child in multiprocessing.active_children():
        try: child.kill()
        except Exception: pass
    sys.stdout.flush()
    os._exit(code)

def watchdog():
    print("HANG: not finished after 30 seconds", flush=True); bye(2)

if __name__ == '__main__':
    t = threading.Timer(30, watchdog); t.daemon = True; t.start()
    which = sys.argv[1]

    if which == '1': #an exception that is falsy is never recorded: the item is dropped, the call returns normally
        print(sorted(Multiprocessor(RaiseFalsyOn2(), 2, 1).filter(range(5))))
    if which == '2': #a filter that raises SystemExit(0): the item is dropped, the call returns normally
        print(sorted(Multiprocessor(ExitOn2(), 2, 1).filter(range(5))))
    if which == '3': #CobaMultiprocessor turns a filter's RuntimeError into CobaExit
        from coba.multiprocessing import CobaMultiprocessor
        from coba.context import CobaContext, NullLogger
        CobaContext.logger = NullLogger()
        try:
            print(sorted(CobaMultiprocessor(RuntimeOn2(), 2, 1).filter(range(5))))
        except BaseException as e:
            print(type(e).__mro__, e)
    if which == '4': #two overlapping calls on one instance share _load_stopper/_n_procs/_exceptions
        mp = Multiprocessor(Ident(), 2, 1)
        g1 = mp.filter(range(3))
        g2 = mp.filter(range(40))
        a = [next(g1)]
        b = [next(g2)]
        a += list(g1)       #g1's finally stops self._load_stopper, which by now is g2's
        print("g1", sorted(a))
        b += list(g2)
        print("g2", len(b), "of 40")
    bye(0)
