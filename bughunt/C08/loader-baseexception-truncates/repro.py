"""
C08 (minor): an item stream that ends with a BaseException that is not an Exception - coba's own CobaExit, raised by
coba_exit()/PackageChecker when a package is missing - is silently cut off when more than one process is used: the loader
thread dies, its completion callback sees `worker.exception is None`, poisons the workers as if the stream had ended and
Multiprocessor.filter returns the outputs of the items before the error as a normal, complete result.
With one process the CobaExit reaches the caller.
"""
import os, sys, threading, multiprocessing
from coba.pipes.multiprocessing import Multiprocessor
from coba.utilities import PackageChecker
from coba.exceptions import CobaExit

class Identity:
    def filter(self, item): return item

def items():
    yield 0
    yield 1
    PackageChecker._check("MyLazyLearner", "a_package_that_is_not_installed") #-> coba_exit(...) -> raise CobaExit
    yield 2

def run(n):
    res = {}
    def call():
        try: res['out'] = list(Multiprocessor(Identity(), n, 0).filter(items()))
        except BaseException as e: res['err'] = e
    t = threading.Thread(target=call, daemon=True); t.start(); t.join(40)
    return 'HUNG' if t.is_alive() else res

if __name__ == '__main__':
    thread_errors = []
    threading.excepthook = lambda a: thread_errors.append(f"{a.thread.name}: {a.exc_type.__name__}")
    one, two = run(1), run(2)
    print("1 process  :", one)
    print("2 processes:", two, "| died silently:", thread_errors)
    bad = two == 'HUNG' or 'err' not in two
    if bad: print("VIOLATION: the error that ended the item stream was swallowed; a truncated result was returned as if it were complete")
    for p in multiprocessing.active_children(): p.terminate()
    sys.stdout.flush()
    os._exit(1 if bad else 0)
