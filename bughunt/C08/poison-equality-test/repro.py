"""
C08: the parent recognises the end of the outputs with `item == None` (QueueSource.read: `item == self._poison`), not `item is None`.

Three legal outputs that are NOT None:
  1. coba.results.Missing            (coba's own marker, Missing == None is True)  -> stream ends, later outputs lost, no error
  2. an object whose __eq__ raises TypeError for None (len(None), zip(.., None), ..) -> the TypeError is swallowed by the
                                                                                        same `except (...,TypeError)`, stream ends
  3. an ndarray-like object (== is elementwise, truth value ambiguous)               -> ValueError from inside coba, although
                                                                                        the filter raised nothing
(numpy is not installed here so an ndarray stand-in with the same ==/bool behaviour is used for 3.)
"""
import sys, os, threading, multiprocessing
from coba.pipes.multiprocessing import Multiprocessor
from coba.results.core import Missing

class Vec:
    """a small value type with a very ordinary __eq__"""
    def __init__(self, v): self.v = tuple(v)
    def __len__(self): return len(self.v)
    def __iter__(self): return iter(self.v)
    def __eq__(self, o): return len(self) == len(o) and all(a == b for a, b in zip(self, o))
    def __hash__(self): return hash(self.v)
    def __repr__(self): return f"Vec{self.v}"

class NdArrayLike:
    """== and bool() behave like numpy.ndarray"""
    def __init__(self, v): self.v = list(v)
    def __eq__(self, o): return NdArrayLike([x == o for x in self.v])
    def __bool__(self):
        if len(self.v) > 1: raise ValueError("The truth value of an array with more than one element is ambiguous. Use a.any() or a.all()")
        return bool(self.v and self.v[0])
    def __repr__(self): return f"array({self.v})"

class ReturnsMissing:
    def filter(self, item): return Missing if item == 2 else item
class ReturnsVec:
    def filter(self, item): return Vec([item, item]) if item == 2 else item
class ReturnsArray:
    def filter(self, item): return NdArrayLike([item, item+1])

def run(filter, n_proc):
    result = {}
    def call():
        try:
            result['out'] = list(Multiprocessor(filter, n_proc, 0).filter(range(6)))
        except BaseException as e:
            result['err'] = e
    t = threading.Thread(target=call, daemon=True); t.start(); t.join(35)
    if t.is_alive(): return 'HUNG'
    return result

if __name__ == '__main__':
    bad = False
    for F in [ReturnsMissing, ReturnsVec, ReturnsArray]:
        one = run(F(), 1)
        two = run(F(), 2)
        print(f"{F.__name__:15} 1 process  : {one}")
        print(f"{F.__name__:15} 2 processes: {two}")
        if two == 'HUNG' or 'err' in two or len(two['out']) != len(one['out']):
            what = 'hung' if two == 'HUNG' else f"raised {two['err']!r} although the filter raised nothing" if 'err' in two else f"silently lost {len(one['out'])-len(two['out'])} of {len(one['out'])} outputs"
            print(f"  VIOLATION: with 2 processes the call {what}")
            bad = True

    for p in multiprocessing.active_children(): p.terminate()
    sys.stdout.flush()
    os._exit(1 if bad else 0)
