"""
C05 (module level stream): the stream behind coba.random.random()/choicew()/... is NOT a function of the seed given to
coba.random.seed(...) once the code runs in one of coba's worker processes. coba always uses the 'spawn' start
method, a spawned worker imports coba.random afresh, and the module level generator is created there with
CobaRandom(None), i.e., seeded by the clock. Neither coba.random.seed(s) in the main process nor
Experiment.run(seed=s) ("The seed that will determine all randomness within the experiment") reaches it.

SafeLearner tells learner authors to do exactly this: "Please use coba.random.choicew(actions,pmf) to return an
action instead." (coba/safety.py:318). Such a learner is reproducible with processes=1 and irreproducible with
processes=2.
"""
import sys, warnings
warnings.filterwarnings("ignore")
import multiprocessing as mp

import coba as cb
import coba.random

class PmfLearner:
    """A learner that follows coba's advice and samples its action with coba.random.choicew."""
    @property
    def params(self): return {'family':'pmf'}
    def predict(self, context, actions):
        return coba.random.choicew(actions, [1/len(actions)]*len(actions))
    def learn(self, context, action, reward, prob): pass

def draw3():
    return coba.random.randoms(3)

def run(processes):
    coba.random.seed(11)
    envs = cb.Environments.from_linear_synthetic(30, n_actions=3, seed=2) + cb.Environments.from_linear_synthetic(30, n_actions=3, seed=3)
    res  = cb.Experiment(envs, PmfLearner()).run(processes=processes, quiet=True, seed=1)
    rows = sorted(res.interactions.to_dicts(),key=lambda r:(r['environment_id'],r['index']))
    return [ (r['environment_id'],r['index'],r['reward']) for r in rows ]

if __name__ == '__main__':
    bad = []

    print("Part A: coba.random.seed(11) in the main process, then coba.random.randoms(3)")
    coba.random.seed(11)
    here = draw3()
    ctx  = mp.get_context("spawn")
    with ctx.Pool(1) as p: there1 = p.apply(draw3)
    with ctx.Pool(1) as p: there2 = p.apply(draw3)
    print("  in the main process   :", here)
    print("  in a spawned worker #1:", there1)
    print("  in a spawned worker #2:", there2)
    if there1 != there2: bad.append("module level stream in a worker differs from run to run (clock seeded)")

    print("Part B: Experiment with a learner that samples with coba.random.choicew; coba.random.seed(11) and run(seed=1) every time")
    a,b = run(1),run(1)
    c,d = run(2),run(2)
    print(f"  rows: {len(a)},{len(b)},{len(c)},{len(d)}")
    print("  processes=1 twice -> identical results:", a==b)
    print("  processes=2 twice -> identical results:", c==d)
    print("  processes=2 equals processes=1        :", c==a)
    if a==b and c!=d: bad.append("the experiment is reproducible with processes=1 but not with processes=2")

    if bad:
        print("VIOLATION:"); [print("  -",b) for b in bad]
        sys.exit(1)
    print("no violation")
