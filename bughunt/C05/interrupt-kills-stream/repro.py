"""
C05: a Ctrl-C (KeyboardInterrupt) that is delivered while CobaRandom's internal generator frame is the running
frame permanently ends the random stream of that instance. The application catches the KeyboardInterrupt (as
Experiment.run does, as a notebook does) and carries on, but from then on the instance silently returns
[] for randoms/randints/gausses, returns shuffle's input UNSHUFFLED and raises StopIteration/RuntimeError
from random/randint/choice/choicew/gauss.

Part A forces the interrupt deterministically: a trace function sends SIGINT to this process at the first line
        executed inside CobaRandom._next_uniform (exactly what an unlucky Ctrl-C does: python runs the SIGINT
        handler between two bytecodes of whatever frame is executing).
Part B shows the consequence inside coba: Experiment.run swallows the Ctrl-C ("Experiment Aborted"), the learner
        object the user still holds is broken for good (a second run produces 0 rows; a fresh learner gives 50).
Part C (informational, not needed for the verdict) uses a real timer-delivered SIGINT with no tracing at all.
"""
import sys, signal, time, warnings
warnings.filterwarnings("ignore")

from coba.random import CobaRandom

CODE = CobaRandom._next_uniform.__code__
bad  = []

def interrupt_inside_generator_of(target, nth=1):
    """returns a trace function that raises SIGINT at the nth line executed in target's uniform generator"""
    state = {'n':0,'fired':False}
    def tracer(frame, event, arg):
        if frame.f_code is CODE and not state['fired'] and frame.f_locals.get('self') is target:
            def local(frame, event, arg):
                if event == 'line' and not state['fired']:
                    state['n'] += 1
                    if state['n'] == nth:
                        state['fired'] = True
                        signal.raise_signal(signal.SIGINT)
                return local
            return local
    return tracer

# ---------------------------------------------------------------- Part A
print("Part A: Ctrl-C while the generator frame runs")
rng, ref = CobaRandom(1), CobaRandom(1)
rng.random(); ref.random()

sys.settrace(interrupt_inside_generator_of(rng))
try:
    rng.random()
except KeyboardInterrupt:
    print("  the application caught the KeyboardInterrupt and carries on")
finally:
    sys.settrace(None)

#the interrupted draw may or may not count as a draw (the state had not been advanced): accept both continuations
ref2 = CobaRandom(1); ref2.random(); ref2.random()

calls = [
    ('random()'          , lambda r: r.random()),
    ('randoms(3)'        , lambda r: r.randoms(3)),
    ('randint(1,6)'      , lambda r: r.randint(1,6)),
    ('randints(3,1,6)'   , lambda r: r.randints(3,1,6)),
    ('shuffle([1..5])'   , lambda r: r.shuffle([1,2,3,4,5])),
    ('choice([1,2,3])'   , lambda r: r.choice([1,2,3])),
    ('choicew(ab,[.5,.5])',lambda r: r.choicew('ab',[.5,.5])),
    ('gauss()'           , lambda r: r.gauss()),
    ('gausses(2)'        , lambda r: r.gausses(2)),
]

def attempt(f,r):
    try:
        return ('ok',f(r))
    except BaseException as e:
        return ('raised',repr(e))

for name,f in calls:
    got  = attempt(f,rng)
    exp1 = attempt(f,ref)
    exp2 = attempt(f,ref2)
    ok   = got in (exp1,exp2)
    print(f"  {name:22} interrupted instance -> {got[1]!s:45} same-seed reference -> {exp1[1]}")
    if not ok: bad.append(f"A:{name}")

# ---------------------------------------------------------------- Part B
print("Part B: the same thing inside Experiment.run(processes=1)")
import coba as cb
lrn = cb.RandomLearner(seed=3)
env = cb.Environments.from_linear_synthetic(50, n_actions=3, seed=2)

sys.settrace(interrupt_inside_generator_of(lrn._rng, nth=20))
r1 = cb.Experiment(env, lrn).run(processes=1, quiet=True) #the Ctrl-C is swallowed by run ("Experiment Aborted")
sys.settrace(None)

r2 = cb.Experiment(env, lrn).run(processes=1, quiet=True)
r3 = cb.Experiment(env, cb.RandomLearner(seed=3)).run(processes=1, quiet=True)
print(f"  interrupted run rows={len(r1.interactions)}, re-run with the same learner object rows={len(r2.interactions)}, run with a fresh learner rows={len(r3.interactions)}")
if len(r2.interactions) != len(r3.interactions): bad.append("B:learner broken after an aborted experiment")

# ---------------------------------------------------------------- Part C
print("Part C: real asynchronous interrupts (timer), no tracing (informational)")
rng = CobaRandom(1)
signal.signal(signal.SIGALRM, signal.default_int_handler)
hits,draws,dead = 0,0,False
t0 = time.time()
signal.setitimer(signal.ITIMER_REAL, 0.001, 0.00037)
try:
    while time.time()-t0 < 15 and not dead:
        try:
            for _ in range(100000):
                rng.random(); draws += 1
        except KeyboardInterrupt:
            hits += 1
        except StopIteration:
            dead = True
finally:
    while True:
        try:
            signal.setitimer(signal.ITIMER_REAL, 0, 0); break
        except KeyboardInterrupt:
            pass
print(f"  after {hits} caught interrupts and {draws} draws: stream dead = {dead}; randoms(3) now returns {rng.randoms(3) if dead else '...'}")

if bad:
    print("VIOLATION:", bad)
    sys.exit(1)
print("no violation")
