"""
C05: two threads that use the same CobaRandom (for instance the module level generator behind coba.random.random(),
coba.random.choicew(), ...) collide inside the python generator that holds the state:
  * the thread that arrives second gets ValueError('generator already executing') instead of a value
  * if the second thread was in gauss()/gausses() the ValueError is raised INSIDE the gaussian generator, which ends
    it for good: every later gauss() raises IndexError and gausses(n) silently returns [] (single threaded, for ever).

The interleaving is forced: thread A is parked (by a per-thread trace function) on a line inside
CobaRandom._next_uniform, i.e., at a point where the interpreter may switch threads at any time.
Part B shows that nothing needs to be forced: 4 free running threads hit it within a fraction of a second.
"""
import sys, threading, math, warnings
warnings.filterwarnings("ignore")

import coba.random
from coba.random import CobaRandom

bad = []

# ------------------------------------------------------------------ Part A (forced)
coba.random.seed(1)
rng  = coba.random._random           #the instance behind the module level functions
CODE = getattr(getattr(CobaRandom,'_next_uniform',None),'__code__',None) #None if a fix removed the generator
inside, resume = threading.Event(), threading.Event()

def tracer(frame, event, arg):
    if frame.f_code is CODE:
        def local(frame, event, arg):
            if event == 'line' and not inside.is_set():
                inside.set()          #thread A is now in the middle of a draw ...
                resume.wait(10)       #... and the scheduler gives the cpu to the main thread
            return local
        return local

out = {}
def thread_a():
    sys.settrace(tracer)              #only traces this thread
    try:
        out['a'] = coba.random.random()
    finally:
        sys.settrace(None)

t = threading.Thread(target=thread_a); t.start()
if not inside.wait(10): print('  (could not park a thread inside the generator: relying on Part B)')

print("Part A: main thread calls while thread A is in the middle of coba.random.random()")
for name,call in [('random()',coba.random.random),('shuffle([1,2,3])',lambda: coba.random.shuffle([1,2,3])),('choicew',lambda: coba.random.choicew('ab',[.5,.5])),('gauss()',coba.random.gauss)]:
    try:
        print(f"  {name:18} -> {call()}")
    except BaseException as e:
        print(f"  {name:18} -> raised {e!r}")
        bad.append(f"{name} raised {type(e).__name__} for a concurrent caller")

resume.set(); t.join()
print("  thread A got", out.get('a'))

print("  afterwards, single threaded:")
for i in range(2):
    try:
        g = coba.random.gauss()
        print(f"  gauss() -> {g}")
        if not (isinstance(g,float) and math.isfinite(g)): bad.append("gauss not finite")
    except BaseException as e:
        print(f"  gauss() -> raised {e!r}")
        bad.append(f"gauss() permanently broken: {e!r}")
g3 = coba.random.gausses(3)
print(f"  gausses(3) -> {g3}")
if len(g3) != 3: bad.append("gausses(3) returned %d values" % len(g3))
print(f"  random() -> {coba.random.random()}   (the uniform stream survived)")

# ------------------------------------------------------------------ Part B (free running)
print("Part B: 4 free running threads drawing from one instance")
sys.setswitchinterval(1e-5)
shared = CobaRandom(1)
errs = []
def work():
    try:
        for _ in range(100000): shared.random()
    except BaseException as e:
        errs.append(repr(e))
ts = [threading.Thread(target=work) for _ in range(4)]
[t.start() for t in ts]; [t.join() for t in ts]
print(f"  {len(errs)} of 4 threads died with: {sorted(set(errs))}")
if errs: bad.append(f"free running threads: {sorted(set(errs))}")

if bad:
    print("VIOLATION:"); [print("  -",b) for b in bad]
    sys.exit(1)
print("no violation")
