"""
C05: the position in the stream does not survive pickle / copy.copy / copy.deepcopy. A CobaRandom that has already
been used comes out of a pickle round trip (i.e., out of the trip to a coba worker process) or out of deepcopy
(which coba applies to learners, experiments/process.py:154, environments/filters.py:1461) rewound to position 0:
it hands out the very same values a second time. The values an object produces for the same sequence of calls
therefore depend on whether it was moved to another process / copied in between.

Part A: plain CobaRandom.  Part B: the same learner object, used for 5 predictions, then asked for 5 more
        - in this process, and in a spawned process (what Experiment.run(processes=2) does).
"""
import sys, pickle, copy, warnings
warnings.filterwarnings("ignore")
import multiprocessing as mp

from coba.random import CobaRandom
import coba as cb

def predict5(lrn):
    return [lrn.predict(None,[1,2,3,4,5,6,7,8,9])[0] for _ in range(5)]

if __name__ == '__main__':
    bad = []

    # ------------------------------------------------------------ Part A
    rng      = CobaRandom(5)
    first    = rng.randoms(3); rng.gauss() #(the spare gaussian value is lost as well)

    clones = {
        'pickle round trip': pickle.loads(pickle.dumps(rng)),
        'copy.deepcopy'    : copy.deepcopy(rng),
        'copy.copy'        : copy.copy(rng),
    }
    ref = CobaRandom(5); ref.randoms(3); ref.gauss()
    want = ref.randoms(3)
    print("Part A: CobaRandom(5) after randoms(3), gauss(): the next randoms(3) should be", want)
    print(f"  {'original':18} -> {rng.randoms(3)}")
    for how,c in clones.items():
        got = c.randoms(3)
        print(f"  {how:18} -> {got}" + ("   <-- the FIRST three values again" if got == first else ""))
        if got != want: bad.append(f"{how} does not continue the stream")

    # ------------------------------------------------------------ Part B
    lrn = cb.RandomLearner(seed=7)
    warm = predict5(lrn)                         #e.g. the user tried the learner out before the experiment
    with mp.get_context("spawn").Pool(1) as pool: #what coba's multiprocessor does with the learner of a task
        there = pool.apply(predict5,(lrn,))
    here = predict5(lrn)
    print("Part B: RandomLearner(seed=7) after 5 predictions", warm)
    print("  next 5 predictions in this process   :", here)
    print("  next 5 predictions in a worker process:", there, "  <-- the first five again" if there == warm else "")
    if here != there: bad.append("what the learner predicts next depends on the process it runs in")

    if bad:
        print("VIOLATION:"); [print("  -",b) for b in bad]
        sys.exit(1)
    print("no violation")
