"""
C05 (adjacent: the stream IS a function of the seed, but a degenerate one): for str seeds and for non-integer float
seeds CobaRandom keeps only the LAST 20 BITS of the seed's text (the last two characters and half of the third last).
  * CobaRandom(1.25) and CobaRandom(7.25), CobaRandom('alice/rep01') and CobaRandom('bob/rep01') are the same stream
  * 100,000 different float seeds give ~1,200 different streams
  * inside coba: environments.Shuffle multiplies its (int) seed by 3.21 for logged data, so Shuffle(1), Shuffle(101),
    Shuffle(201), ... put logged interactions in exactly the same order; 1000 shuffle seeds give fewer than 200 different orders.
"""
import sys, warnings
warnings.filterwarnings("ignore")
from coba.random import CobaRandom
from coba.environments import Shuffle

bad = []

def same(a,b):
    return CobaRandom(a).randoms(5) == CobaRandom(b).randoms(5)

print("Part A: different seeds, identical streams")
for a,b in [(1.25,7.25),(0.5,1234.5),('alice/rep01','bob/rep01'),('model-a:seed=12','model-b:seed=12'),(3.21*1,3.21*101)]:
    s = same(a,b)
    print(f"  CobaRandom({a!r}) vs CobaRandom({b!r}): identical stream = {s}")
    if s: bad.append(f"seeds {a!r} and {b!r} collide")

n1 = len({CobaRandom(s*3.21).seed for s in range(100000)})
n2 = len({CobaRandom(f"run-{s}").seed for s in range(100000)})
n3 = len({CobaRandom(s).randoms(1)[0] for s in range(100000)})
print(f"  distinct streams for 100000 float seeds s*3.21: {n1}; for 100000 str seeds 'run-<s>': {n2}; for 100000 int seeds: {n3}")
if n1 < 50000: bad.append(f"100000 float seeds give only {n1} streams")
if n2 < 50000: bad.append(f"100000 str seeds give only {n2} streams")

print("Part B: coba.environments.Shuffle on logged interactions (seed*3.21 is used as the seed, environments/filters.py:63)")
logged = [{'context':i,'action':1,'reward':0,'probability':.5} for i in range(12)]
orders = {}
for s in [1,101,201,7,107]:
    orders[s] = [i['context'] for i in Shuffle(s).filter(logged)]
    print(f"  Shuffle({s:3}) -> {orders[s]}")
if orders[1] == orders[101] == orders[201]: bad.append("Shuffle(1), Shuffle(101) and Shuffle(201) give the same order for logged interactions")
n_orders = len({tuple(i['context'] for i in Shuffle(s).filter(logged)) for s in range(1000)})
n_plain  = len({tuple(i['context'] for i in Shuffle(s).filter([{'context':i} for i in range(12)])) for s in range(1000)})
print(f"  1000 shuffle seeds give {n_orders} distinct orders of 12 logged interactions ({n_plain} for not-logged interactions)")
if n_orders < 900: bad.append(f"1000 shuffle seeds give only {n_orders} orders of logged data")

if bad:
    print("VIOLATION:"); [print("  -",b) for b in bad]
    sys.exit(1)
print("no violation")
