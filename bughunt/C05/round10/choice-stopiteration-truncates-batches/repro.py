"""
CobaRandom.choice/choicew raise StopIteration - the one exception every iterator consumer swallows - when no cumulative
weight exceeds the draw. That happens for weights coba does not reject (nan, inf: the `tot == 0` check lets them pass)
and, for perfectly legal tiny weights, through rounding (u*tot == tot for sub-normal totals).

Because SafeLearner samples a batch of PMFs with  zip(*map(self._rng.choicew, actions, pred))  the StopIteration does not
surface: map() just ends. The rest of the batch is silently dropped and the evaluation goes on: an experiment 'finishes'
with fewer result rows than interactions and not a single error or log line.
"""
import sys, math, warnings
warnings.filterwarnings("ignore")

from coba.random import CobaRandom
from coba.context import CobaContext, NullLogger
from coba.environments import Environments
from coba.evaluators import SequentialCB

CobaContext.logger = NullLogger()
bad = False
nan,inf = float('nan'),float('inf')

# ------------------------------------------------------------------------------------------------------------
# 1. the contract of choice / choicew
# ------------------------------------------------------------------------------------------------------------
print("1. choice/choicew on weights that pass coba's validation")
a,c,m = 116646453,9,2**30
def rng_whose_first_uniform_is(k): return CobaRandom(((k-c)*pow(a,-1,m))%m) #first value is k/2**30

cases = [
    ("nan weight       ", CobaRandom(1)                      , ['a','b','c'], [.5,nan,.5]    ),
    ("inf weight       ", CobaRandom(1)                      , ['a','b','c'], [1.,inf,1.]    ),
    ("sub-normal weight", rng_whose_first_uniform_is(m-1)    , ['a','b']    , [5e-324,0]     ), #legal: positive, finite, sum != 0
    ("sub-normal weight", rng_whose_first_uniform_is(3*m//4) , ['a','b']    , [0,5e-324]     ),
]
for name,rng,seq,w in cases:
    try:
        print(f"   {name} choicew({seq},{w}) ->", rng.choicew(seq,w))
    except StopIteration as e:
        print(f"   {name} choicew({seq},{w}) -> raised StopIteration  <-- VIOLATION (no member returned, and the error is one that loops swallow)")
        bad = True
    except ValueError as e:
        print(f"   {name} choicew({seq},{w}) -> ValueError({e})   (fine)")

rng = CobaRandom(1)
got = list(map(rng.choicew, [['a','b']]*4, [[.5,.5],[.5,.5],[nan,.5],[.5,.5]]))
print("   list(map(rng.choicew, 4 action sets, 4 pmfs)) ->", got)
if len(got) != 4:
    print("   VIOLATION: 4 draws asked for,", len(got), "returned, no exception")
    bad = True

# ------------------------------------------------------------------------------------------------------------
# 2. what it does to an evaluation: an EXP3 style learner whose weights overflow (w -> inf, inf/inf -> nan)
# ------------------------------------------------------------------------------------------------------------
print("2. a batched evaluation of a PMF learner whose exponential weights overflow")

class Exp3:
    """Textbook EXP3 (one weight vector per context bucket) with batches: returns one PMF per row.
    Nothing in it raises: float multiplication overflows to inf quietly and inf/inf is nan."""
    def __init__(self, n_actions, eta): self._n = n_actions; self._w = {}; self._eta = eta
    @property
    def params(self): return {"family":"exp3","eta":self._eta}
    def _key(self, context): return context[0] > 0
    def _pmf(self, context):
        w   = self._w.setdefault(self._key(context),[1.]*self._n)
        tot = sum(w)
        return [v/tot for v in w]
    def predict(self, contexts, actionss):
        return [self._pmf(x) for x in contexts]
    def learn(self, contexts, actions, rewards, probs):
        for x,A,r,p in zip(contexts,actions,rewards,probs):
            self._w[self._key(x)][list(A).index(1)] *= math.exp(min(700,self._eta*r/p))

n_interactions = 40
ETA = float(sys.argv[1]) if len(sys.argv)>1 else 50
env  = Environments.from_linear_synthetic(n_interactions, n_actions=3, n_context_features=2, n_action_features=0, seed=3).batch(4)[0]
lrn  = Exp3(3, eta=ETA)
try:
    rows = list(SequentialCB(seed=1).evaluate(env, lrn))
except BaseException as e:
    print("   the evaluation raised", repr(e), "(loud: acceptable)")
    rows = None

if rows is not None:
    print(f"   interactions in the environment: {n_interactions}   result rows: {len(rows)}   exceptions: none   final weights: {lrn._w}")
    if len(rows) != n_interactions:
        print("   VIOLATION:", n_interactions-len(rows), "interactions vanished from the result without any error (truncated batches)")
        bad = True

sys.exit(1 if bad else 0)
