"""
RejectionCB (rejection sampling of logged data) accepts with `rng.random() <= c*(on_prob/log_prob)`.
CobaRandom.random() lies in [0,1) and IS exactly 0.0 for one of the 2**30 generator states, so an interaction whose logged
action has probability 0 under the evaluated learner (it must be rejected with certainty) is accepted when that state comes
up: the learner is taught an action it can never play with importance probability 0, a result row with 'probability': 0
is recorded (or, when it happens before anything else was accepted, the evaluation dies with an IndexError).

Same family as the known Reservoir/log(0) issue (a consumer that forgets that 0.0 is a legal uniform) but another place.
"""
import sys, warnings
warnings.filterwarnings("ignore")

from coba.random import CobaRandom
from coba.evaluators import RejectionCB
from coba.context import CobaContext, NullLogger
CobaContext.logger = NullLogger()

a,c,m = 116646453,9,2**30
ainv  = pow(a,-1,m)
def seed_whose_kth_uniform_is_zero(k):
    s = 0
    for _ in range(k): s = ((s-c)*ainv) % m
    return s

class Logged:
    """logged data: the logging policy played 'a' or 'b' uniformly"""
    def __init__(self, played): self._played = played
    def read(self):
        for act in self._played:
            yield {'context':None,'actions':['a','b'],'action':act,'reward':1.0,'probability':.5}

class NeverA:
    """a learner that never plays 'a'"""
    def __init__(self): self.learned = []
    def score(self,x,A,a): return 0.0 if a=='a' else 1.0
    def predict(self,x,A): return 'b',1.0
    def learn(self,x,a,r,p): self.learned.append((a,r,p))

bad = False

for k,played in [(3,'bbabb'),(1,'abbbb')]:
    seed = seed_whose_kth_uniform_is_zero(k)
    assert CobaRandom(seed).randoms(k)[-1] == 0.0
    lrn  = NeverA()
    print(f"logged actions {played}, RejectionCB(seed={seed}) (uniform number {k} of this seed is exactly 0.0)")
    try:
        rows = list(RejectionCB(record=['action','reward','probability'],seed=seed).evaluate(Logged(played), lrn))
        print("   rows   :", rows)
        print("   learned:", lrn.learned)
        if any(a=='a' for a,_,_ in lrn.learned):
            print("   VIOLATION: the learner was trained on action 'a' which it plays with probability 0 (accepted although the acceptance probability is 0)")
            bad = True
    except Exception as e:
        print("   VIOLATION: evaluation raised", repr(e), "- the zero probability interaction was accepted")
        bad = True

    other = NeverA()
    list(RejectionCB(record=['action','reward','probability'],seed=seed+1).evaluate(Logged(played), other))
    print(f"   for comparison seed={seed+1}: learned:", other.learned)

sys.exit(1 if bad else 0)
