"""
The module level coba.random stream is NOT a pure function of its seed: coba's own OpenML source draws from it.

OpenmlSource._http_request() does `time.sleep(2*random())` with `random` being the MODULE LEVEL coba.random.random
whenever it runs inside a CobaMultiprocessor worker (CobaContext.store holds "openml_semaphore") and has to download
something. Every download therefore removes one value from the stream that learners are told to use
("Please use coba.random.choicew(actions,pmf) ...") and that ProcessTasks seeds before every evaluation so that
"what they draw is determined by the experiment's seed alone".

Consequence: the very same experiment (same seed, same data, same learner) gives different actions / rewards the first
time (data not in the cache yet: 3 downloads -> 3 values stolen) and the second time (cache is warm: nothing stolen),
and differs between a single process run (no semaphore -> nothing stolen) and a multi process run.

No network is used: HttpSource is replaced by a fake that serves a tiny data set.
"""
import sys, json, threading, warnings
warnings.filterwarnings("ignore")

import coba.random
import coba.environments.openml as openml_module
from coba.context import CobaContext, MemoryCacher, NullLogger
from coba.environments import Environments
from coba.experiments import Experiment

# ---------------------------------------------------------------- a fake openml.org
N = 60
ARFF  = ["@relation t", "@attribute f1 numeric", "@attribute f2 numeric", "@attribute y {a,b,c}", "@data"]
ARFF += [f"{i%7},{(i*3)%5},{'abc'[i%3]}" for i in range(N)]
DESCR = json.dumps({"data_set_description":{"id":"42","name":"t","file_id":"4242","status":"active","default_target_attribute":"y"}})
FEATS = json.dumps({"data_features":{"feature":[
    {"index":"0","name":"f1","data_type":"numeric","is_target":"false","is_ignore":"false","is_row_identifier":"false"},
    {"index":"1","name":"f2","data_type":"numeric","is_target":"false","is_ignore":"false","is_row_identifier":"false"},
    {"index":"2","name":"y" ,"data_type":"nominal","is_target":"true" ,"is_ignore":"false","is_row_identifier":"false","nominal_value":["a","b","c"]},
]}})

downloads = []
class FakeHttpSource:
    def __init__(self, url, chunk_size=None, timeout=None): self._url = url
    def read(self):
        downloads.append(self._url)
        if "/json/data/features/" in self._url: return iter([FEATS])
        if "/json/data/"          in self._url: return iter([DESCR])
        if "/download/"           in self._url: return iter(ARFF)
        raise AssertionError(self._url)

class FakeTime: #so that the repro doesn't actually sleep (the sleep is not the problem, the draw is)
    sleeps = []
    @staticmethod
    def sleep(s): FakeTime.sleeps.append(s)
    @staticmethod
    def time(): import time; return time.time()

openml_module.HttpSource = FakeHttpSource
openml_module.time       = FakeTime

# ---------------------------------------------------------------- a learner that does what coba tells learners to do
class ModuleRandomLearner:
    """Uniform exploration. Uses the module level generator like coba's own warning recommends."""
    @property
    def params(self): return {"family":"module_random"}
    def predict(self, context, actions):
        return coba.random.choicew(actions, [1/len(actions)]*len(actions))
    def learn(self, context, action, reward, probability): pass

from coba.experiments.process import Task, ProcessTasks
from coba.evaluators import SequentialCB

def run_chunk(label):
    """Exactly what a CobaMultiprocessor worker does with the chunk [evaluate learner 0 on environment 0] it was handed.
    (Without Environments.chunk() every task is a chunk of its own, so the 'peek at the environment' task of the
    same environment is run by ANOTHER worker, concurrently.)"""
    downloads.clear(); FakeTime.sleeps.clear()
    env  = Environments.from_openml(data_id=42)[0]
    task = Task((0,env),(0,ModuleRandomLearner()),(0,SequentialCB()))
    out  = list(ProcessTasks().filter([task]))
    rows = [o for o in out if o[0]=="T4"][0][2]
    rewards = [ row['reward'] for row in rows ]
    print(f"{label:<52} downloads={len(downloads)} stolen_draws={len(FakeTime.sleeps)} n={len(rewards)} rewards[:24]={''.join(str(int(r)) for r in rewards[:24])}")
    return rewards

CobaContext.logger = NullLogger()

# (A) the reference: a single process run of the experiment (no semaphore in the store)
CobaContext.cacher = MemoryCacher()
CobaContext.store  = {"experiment_seed":1}
ref = run_chunk("single process")

# (B) a worker (its store holds the download semaphore) that is the first to need the data: it downloads while it evaluates
CobaContext.cacher = MemoryCacher()
CobaContext.store  = {"experiment_seed":1, "openml_semaphore": threading.Semaphore(3)}
cold = run_chunk("worker, data not cached (first run / won the race)")

# (C) the same worker, same chunk, same seed; the data is in the cache (second run / the peeking worker was faster)
warm = run_chunk("worker, data cached (second run / lost the race)")

bad = False
if len(ref) != N or len(cold) != N or len(warm) != N:
    print("unexpected: the fake data set was not read completely"); sys.exit(2)
if cold != warm:
    print("VIOLATION: same chunk, same seed: the learner's draws from coba.random depend on whether the data had to be downloaded (cold != warm)")
    bad = True
if cold != ref:
    print("VIOLATION: same evaluation, same seed: a worker that downloads gives another result than a single process run")
    bad = True
if warm != ref:
    print("note: warm != single process reference (unexpected)")
    bad = True

# the bare mechanism, without an experiment
coba.random.seed(7); expected = coba.random.randoms(3)
coba.random.seed(7)
CobaContext.cacher = MemoryCacher()
list(openml_module.OpenmlSource(data_id=42).read())
got = coba.random.randoms(3)
print("coba.random.seed(7); randoms(3)                      ->", expected)
print("coba.random.seed(7); read openml source; randoms(3)  ->", got)
if got != expected:
    print("VIOLATION: reading an OpenML source moved the module level stream")
    bad = True

sys.exit(1 if bad else 0)
