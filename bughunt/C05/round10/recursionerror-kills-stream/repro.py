"""
A RecursionError (an ordinary, catchable Exception - no Ctrl-C, no threads, no timing) ends a CobaRandom stream for good.

CobaRandom keeps its state in two suspended generator frames (_randu, _randg). Every draw has to ENTER such a frame,
which is one level deeper than the CobaRandom method, which is one level deeper than the caller. So when code that draws
a number on every level of a recursion runs into the recursion limit, the frame that hits the limit first is ALWAYS the
generator's frame. An exception raised in a generator frame finishes the generator: from then on the instance

    random()/randint()/choice()  raise StopIteration   (silently ends any for-loop / map / zip it is called from)
    randoms(n)/randints(n,..)    return []             (instead of n values)
    shuffle(x)                   returns x unshuffled
    gauss()                      raises RuntimeError('generator raised StopIteration')

although the program caught the RecursionError (or coba did: ProcessTasks logs any Exception and carries on with the
next task) and never touched the generator again in an unusual way.
"""
import sys, warnings
warnings.filterwarnings("ignore")

import coba.random
from coba.random import CobaRandom

bad = False

# ---------------------------------------------------------------------------------------------------------------
# 1. an instance of one's own
# ---------------------------------------------------------------------------------------------------------------
rng = CobaRandom(1)
ref = CobaRandom(1)

def random_descent(node_depth, p_leaf):
    """Walk down a (virtual) random tree until a leaf is hit. With p_leaf too small this never ends."""
    if rng.random() < p_leaf: return node_depth
    return random_descent(node_depth+1, p_leaf)

print("depth of a healthy descent:", random_descent(0, .2))

try:
    random_descent(0, 0.0) #a degenerate parameter / data set: infinite recursion
except RecursionError as e:
    print("caught:", type(e).__name__, "-> fall back to something else and carry on")

#what a fresh generator gives for the same kind of calls (any position in the stream gives proper values)
print("expected kind of output  : randoms(3) =", ref.randoms(3), " shuffle =", ref.shuffle(list(range(8))))

try:
    r3 = rng.randoms(3)
    print("after the RecursionError : randoms(3) =", r3, " shuffle =", rng.shuffle(list(range(8))), " randints(3,0,9) =", rng.randints(3,0,9))
    if len(r3) != 3:
        print("VIOLATION: randoms(3) returned", len(r3), "values; shuffle returns its input unshuffled; randints returns []")
        bad = True
except BaseException as e:
    print("VIOLATION: randoms raised", repr(e)); bad = True

for name,call in [("random()", lambda: rng.random()), ("randint(1,6)", lambda: rng.randint(1,6)), ("choice('abc')", lambda: rng.choice('abc')), ("choicew('abc',[1,1,1])", lambda: rng.choicew('abc',[1,1,1])), ("gauss()", lambda: rng.gauss())]:
    try:
        print(f"  {name:<24} ->", call())
    except BaseException as e:
        print(f"  {name:<24} -> raised {e!r}")
        bad = True

#StopIteration is swallowed by every iterator protocol user: 10 dice become 0 dice without any error
dice = list(map(rng.randint, [1]*10, [6]*10))
print("list(map(rng.randint,[1]*10,[6]*10)) ->", dice)
if len(dice) != 10:
    print("VIOLATION: 10 draws requested through map(), got", len(dice), "and no exception")
    bad = True

# ---------------------------------------------------------------------------------------------------------------
# 2. the module level generator, with gauss (the gaussian generator frame is hit)
# ---------------------------------------------------------------------------------------------------------------
coba.random.seed(3)
def noisy_sum(n): return coba.random.gauss() + noisy_sum(n+1)
try: noisy_sum(0)
except RecursionError: pass

try:
    print("coba.random.gauss() after a caught RecursionError ->", coba.random.gauss())
except BaseException as e:
    print("coba.random.gauss() after a caught RecursionError -> raised", repr(e))
    print("VIOLATION: the module level gaussian stream is dead")
    bad = True
print("coba.random.randoms(2) ->", coba.random.randoms(2))

sys.exit(1 if bad else 0)
