"""
Experiment.run() replaces the module level coba.random generator (ProcessTasks calls coba.random.seed(experiment_seed)
before every evaluation) and never puts the caller's generator back.

So the stream a user started with coba.random.seed(42) is not 'the same values for the same sequence of calls' any more as
soon as an experiment is run in between: after EVERY single-process run the module level stream restarts at the experiment's
seed (default 1) - a script that draws a new random split / shuffle with coba.random before each of several runs gets the
SAME 'random' split from the second repetition on. With processes>1 the seeding happens in the workers, the caller's
generator is untouched, so what the script draws after run() also depends on the number of processes.
"""
import sys, warnings
warnings.filterwarnings("ignore")

import coba.random
from coba.random import CobaRandom
from coba.context import CobaContext, NullLogger
from coba.environments import Environments
from coba.experiments import Experiment
from coba.learners import RandomLearner

def main():
    CobaContext.logger = NullLogger()
    bad = False

    reference = CobaRandom(42) #what the module level stream seeded with 42 has to produce, call by call
    coba.random.seed(42)

    splits,expect = [],[]
    for repetition in range(4):
        #a fresh random train/test split of the data for every repetition, drawn from the seeded module level stream
        splits.append(coba.random.shuffle(list(range(10))))
        expect.append(reference.shuffle(list(range(10))))
        #RandomLearner has a generator of its own and the environment too: nothing here touches coba.random legitimately
        Experiment(Environments.from_linear_synthetic(20,n_actions=3,seed=repetition), RandomLearner()).run(quiet=True, processes=1)

    for i,(s,e) in enumerate(zip(splits,expect)):
        print(f"repetition {i}: split drawn {s}   seed 42 stream says {e}   {'ok' if s==e else 'DIFFERENT'}")

    if splits != expect:
        print("VIOLATION: the values of the stream seeded with 42 changed because experiments were run in between")
        bad = True
    if splits[1] == splits[2] == splits[3]:
        print("VIOLATION: repetitions 1,2,3 got the identical 'random' split:", splits[1], "== CobaRandom(1).shuffle(range(10)):", CobaRandom(1).shuffle(list(range(10))))
        bad = True

    #the same with two processes: the caller's stream survives, i.e. the outcome also depends on `processes`
    try:
        coba.random.seed(42)
        first = coba.random.randoms(2)
        Experiment(Environments.from_linear_synthetic(20,n_actions=3,seed=1), RandomLearner()).run(quiet=True, processes=2)
        after_mp = coba.random.randoms(2)
        coba.random.seed(42)
        first = coba.random.randoms(2)
        Experiment(Environments.from_linear_synthetic(20,n_actions=3,seed=1), RandomLearner()).run(quiet=True, processes=1)
        after_sp = coba.random.randoms(2)
        print("values 3,4 of seed 42             :", CobaRandom(42).randoms(4)[2:])
        print("drawn after run(processes=2)      :", after_mp)
        print("drawn after run(processes=1)      :", after_sp)
        if after_mp != after_sp:
            print("VIOLATION: what the script draws after run() depends on the number of processes")
            bad = True
    except Exception as e:
        print("(multi process comparison skipped:", repr(e), ")")

    sys.exit(1 if bad else 0)

if __name__ == '__main__':
    main()
