"""
C05: choice/choicew with weights given as fractions.Fraction (exact probabilities; any number type whose comparison
with a float is implemented on ITS side behaves the same) ignore the weights completely: the FIRST item is returned
on every draw - also when its weight is 0 - and choicew reports that weight 0 as the probability of the draw.
No exception is raised (python only emits a DeprecationWarning: NotImplemented used in a boolean context).
"""
import sys, warnings, collections
warnings.filterwarnings("ignore")
from fractions import Fraction as F
from coba.random import CobaRandom

bad = []
rng = CobaRandom(1)

w_float = [0, 0.25, 0.75]
w_frac  = [F(0), F(1,4), F(3,4)]

c_float = collections.Counter(rng.choice('abc', w_float) for _ in range(2000))
c_frac  = collections.Counter(rng.choice('abc', w_frac ) for _ in range(2000))
print("float weights   [0,1/4,3/4] ->", dict(c_float))
print("Fraction weights[0,1/4,3/4] ->", dict(c_frac))
if c_frac['a'] > 0: bad.append(f"the zero weight item 'a' was chosen {c_frac['a']} times out of 2000")
if not (300 < c_frac['b'] < 700): bad.append("the weights are ignored")

item,p = rng.choicew('abc', w_frac)
print("choicew ->", (item,p))
if p == 0: bad.append(f"choicew returned {item!r} with weight {p!r}")

#the same through the learner helper that coba's learners use to sample from a PMF
from coba.learners.utilities import PMFPredictor
pred = PMFPredictor(lambda context,actions: [F(0), F(1,4), F(3,4)], seed=2)
c = collections.Counter(pred.predict(None,['x','y','z']) for _ in range(500))
print("PMFPredictor.predict ->", dict(c))
if any(p == 0 for (_,p) in c): bad.append("PMFPredictor.predict returns an action with probability 0")

if bad:
    print("VIOLATION:"); [print("  -",b) for b in bad]
    sys.exit(1)
print("no violation")
