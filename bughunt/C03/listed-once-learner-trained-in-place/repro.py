"""
C03 -- a learner that is listed for exactly ONE triple is not copied: the user's object itself is trained
(MakeTasks: copy=learner_counts[lrn]>1). What it learned is then carried
  (1) into the next run of the same Experiment object / into another Experiment that lists the same object
      (re-running a notebook cell, comparing two settings one after the other): the rows of the identical triple change
      from run to run -- while a learner that happens to be listed for two environments gives identical rows every run;
  (2) into an ENVIRONMENT of the same experiment that uses the object as its logging policy (Environments.logged(lrn)):
      Logged deep-copies the learner on every read, so after (env, lrn) has been evaluated every later read of env is logged
      by a trained policy. The rows of (env, other_learner) depend on whether (env, lrn) is in the experiment.
(Related to, but not the same as, the known 'listed once and also a component of another listed learner' item: no learner
is a component of another learner here.)
"""
import sys, warnings
warnings.filterwarnings("ignore")

from coba.context import CobaContext, NullLogger
from coba.environments import Environments
from coba.experiments import Experiment
from coba.learners import BanditEpsilonLearner, BanditUCBLearner
from coba.evaluators import SequentialCB

def rows(result, lid, eid=0):
    return [(r['action'],r['reward']) for r in result.interactions.to_dicts() if r['learner_id']==lid and r['environment_id']==eid]

base = lambda: Environments.from_linear_synthetic(50, n_actions=3, n_context_features=2, n_action_features=0, seed=3)

if __name__ == '__main__':
    CobaContext.logger = NullLogger()
    problems = []

    # (1) multi-step history
    exp = Experiment(base(), [BanditEpsilonLearner(0.1)])
    first,second = rows(exp.run(quiet=True),0), rows(exp.run(quiet=True),0)
    print(f"(1) learner listed once : run 1 rows == run 2 rows: {first==second} ({sum(a!=b for a,b in zip(first,second))}/{len(first)} differ)")
    exp = Experiment(base().shuffle(n=2), [BanditEpsilonLearner(0.1)])
    first2,second2 = rows(exp.run(quiet=True),0), rows(exp.run(quiet=True),0)
    print(f"    learner listed twice: run 1 rows == run 2 rows: {first2==second2}")
    if first != second:
        problems.append("(1) the rows of the same (env,learner,evaluator) triple differ between two runs of the same Experiment: run 2 evaluated the learner trained by run 1")

    # (2) the listed-once learner is the logging policy of the environment
    def run(with_policy_triple):
        policy = BanditEpsilonLearner(0.5)
        env    = list(base().logged(policy))[0]
        other  = BanditUCBLearner()
        triples = ([(env, policy, SequentialCB())] if with_policy_triple else []) + [(env, other, SequentialCB(learn='off',eval='ips'))]
        return rows(Experiment(triples).run(quiet=True), 1 if with_policy_triple else 0)
    alone,together = run(False),run(True)
    print(f"(2) rows of (logged env, UCB) alone == with (logged env, policy) listed first: {alone==together} ({sum(a!=b for a,b in zip(alone,together))}/{len(alone)} differ)")
    if alone != together:
        problems.append("(2) the rows of (env,UCB) depend on whether (env,policy) is in the experiment: env.logged(policy) was re-read with the policy trained in place")

    if problems:
        print("\nVIOLATION:")
        for p in problems: print("  -",p)
        sys.exit(1)
    print("ok")
