"""
C03 -- multiprocess run: a triple whose result rows cannot be pickled disappears without a word in the log,
and when it is still waiting in the worker's queue buffer when the worker exits it takes the rows of the
triples evaluated after it with it.

Three triples share one environment. The learner of the 2nd triple reports a value through
CobaContext.learning_info that json can't encode and pickle can't pickle (a generator in scenario 1).

  * single process (reference): the 2nd triple's rows are lost, the TypeError is in the log, triples 1 and 3 are recorded.
  * processes=2 (scenario 1)  : nothing at all is logged for the 2nd triple (a traceback of the queue's feeder thread
                                may or may not reach stderr, never the coba log). Depending on timing triple 3 is lost too.
  * processes=2 (scenario 2)  : the same, but the timing is forced: the value's pickling is slow and only fails once the
                                worker began to exit (this is what happens naturally in scenario 1 in most runs
                                because the evaluations are short). Triple 3 -- evaluated successfully, "(completed)"
                                in the log -- is never recorded and the experiment says "Experiment Finished".
"""
import sys, time, warnings
warnings.filterwarnings("ignore")

from coba.context import CobaContext, BasicLogger
from coba.pipes import ListSink
from coba.primitives import Learner
from coba.experiments import Experiment
from coba.evaluators import SequentialCB

class SlowThenUnpicklable:
    """Stands in for any value that can't be pickled. Its pickling (which happens on the queue's feeder thread of the
    worker) is still going on when the worker process starts to exit -- a busy machine or a big row does the same."""
    def __reduce__(self):
        import multiprocessing.util as util
        t0 = time.time()
        while not util._exiting and time.time()-t0 < 30: time.sleep(.01)
        raise TypeError("cannot pickle 'SlowThenUnpicklable' object")

class Fixed(Learner):
    def __init__(self, bad=0): self.bad = bad
    @property
    def params(self): return {'family':'fixed','bad':self.bad}
    def predict(self, context, actions): return actions[0]
    def learn(self, context, action, reward, probability):
        if self.bad == 1: CobaContext.learning_info['diag'] = (i for i in range(3))
        if self.bad == 2: CobaContext.learning_info['diag'] = SlowThenUnpicklable()

class Env:
    params = {'env_type':'e'}
    def read(self):
        for i in range(5):
            yield {'context':(i,), 'actions':[0,1], 'rewards':[0.,1.]}

def run(bad, **kw):
    log = []
    CobaContext.logger = BasicLogger(ListSink(log))
    env = Env()
    triples = [(env, Fixed(), SequentialCB()), (env, Fixed(bad), SequentialCB()), (env, Fixed(), SequentialCB())]
    result  = Experiment(triples).run(quiet=False, **kw)
    done    = sorted(set((r['environment_id'],r['learner_id'],r['evaluator_id']) for r in result.interactions.to_dicts()))
    errors  = [l for l in log if 'TypeError' in l or 'pickle' in l.lower() or 'exception:' in l.lower()]
    return done, errors, log

if __name__ == '__main__':
    problems = []

    done,errors,_ = run(1, processes=1, maxchunksperchild=0)
    print(f"single process        : recorded={done} errors in log={len(errors)}")
    assert done == [(0,0,0),(0,2,2)] and errors, "the single process reference run doesn't behave as described"

    for name,bad in [("generator (natural timing)",1),("slow pickling (forced timing)",2)]:
        done,errors,log = run(bad, processes=2, maxchunksperchild=0)
        print(f"processes=2, {name:30}: recorded={done} errors in log={len(errors)} finished={any('Experiment Finished' in l for l in log)}")
        if (0,1,1) not in done and not errors:
            problems.append(f"[{name}] the rows of triple (0,1,1) were dropped but nothing was reported in the log")
        if (0,2,2) not in done:
            ok3 = any('Evaluating Learner 2 on Environment 0' in l and '(completed)' in l for l in log)
            problems.append(f"[{name}] triple (0,2,2) was evaluated (completed in log: {ok3}) but its rows were never recorded")
        if (0,0,0) not in done:
            problems.append(f"[{name}] triple (0,0,0) is missing")

    if problems:
        print("\nVIOLATION:")
        for p in problems: print("  -",p)
        sys.exit(1)
    print("ok")
