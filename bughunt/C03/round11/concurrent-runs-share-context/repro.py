"""
Two independent experiments that are run at the same time from two threads of one process
(a notebook that keeps a long experiment in a background thread, a GUI, a sweep over a
ThreadPoolExecutor) are not isolated from one another.

Everything an evaluation depends on is kept in process wide places that Experiment.run /
ProcessTasks save, overwrite and "put back" without any notion of who owns them:

    CobaContext.store['experiment_seed']   (Experiment.run: set at the start, popped/restored at the end)
    coba.random._random                    (ProcessTasks: replaced for the length of one evaluation)
    CobaContext.learning_info              (one dict for every learner in the process)
    CobaContext.logger                     (Experiment.run: decorated at the start, put back at the end)

The interleaving is forced with events (no sleeps, no luck):

    1. thread A starts experiment A and stops inside its first evaluation
    2. thread B starts experiment B and stops inside its first evaluation
    3. A is released and runs to its end          (-> removes 'experiment_seed', puts back "its" generator and logger)
    4. B is released and runs to its end

Experiment B is then compared with the same experiment run alone.  Exit code 1 == rows differ.
"""
import sys, threading

import coba.random
from coba import Environments, Experiment, CobaContext
from coba.context import NullLogger
from coba.evaluators import SequentialCB

class Gate:
    """Blocks the first call that passes through it until it is opened."""
    def __init__(self):
        self.inside = threading.Event()
        self.open   = threading.Event()
        self.used   = False
    def __call__(self):
        if not self.used:
            self.used = True
            self.inside.set()
            assert self.open.wait(60), "the gate was never opened"

class EpsGreedy:
    """A small stateful learner that explores the way coba recommends: with coba.random's module functions."""
    def __init__(self, gate=None):
        self._q    = {}
        self._n    = 0
        self._gate = gate

    @property
    def params(self): return {'family':'EpsGreedy'}

    def predict(self, context, actions):
        if self._gate: self._gate()
        self._n += 1
        CobaContext.learning_info['n_predicts'] = self._n        #what the learner wants to see in its rows
        if coba.random.random() < .3: return coba.random.choice(actions)
        return max(actions, key=lambda a: self._q.get(str(a),0))

    def learn(self, context, action, reward, probability):
        self._q[str(action)] = .8*self._q.get(str(action),0) + .2*reward

    def __deepcopy__(self, memo):
        #the gate (events) is shared by the copies, the learned state is not
        new = EpsGreedy(self._gate); new._q = dict(self._q); new._n = self._n
        return new

def make_experiment(env_seed, gate=None):
    envs = Environments.from_linear_synthetic(30, n_actions=4, n_context_features=2, n_action_features=0, seed=env_seed).shuffle(n=2)
    return Experiment(envs, [EpsGreedy(gate)], SequentialCB(record=['reward','action']))

def rows(result):
    out = {}
    for r in result.interactions.to_dicts():
        out.setdefault((r['environment_id'],r['learner_id'],r['evaluator_id']),[]).append((r['index'],r['action'],r['reward'],r.get('n_predicts')))
    return out

def main():
    CobaContext.logger = NullLogger()
    logger_before      = CobaContext.logger

    #reference: experiment B on its own (twice, to show that on its own it is deterministic)
    solo_1 = rows(make_experiment(env_seed=7).run(quiet=True, seed=1))
    solo_2 = rows(make_experiment(env_seed=7).run(quiet=True, seed=1))
    assert solo_1 == solo_2, "experiment B is not even deterministic on its own"

    gate_a, gate_b = Gate(), Gate()
    results = {}

    def run(name, experiment):
        try:
            results[name] = rows(experiment.run(quiet=True, seed=1))
        except BaseException as e: #pragma: no cover
            results[name] = e

    thread_a = threading.Thread(target=run, args=('A', make_experiment(env_seed=3, gate=gate_a)), daemon=True)
    thread_b = threading.Thread(target=run, args=('B', make_experiment(env_seed=7, gate=gate_b)), daemon=True)

    thread_a.start(); assert gate_a.inside.wait(60)   #1. A is inside its first evaluation
    thread_b.start(); assert gate_b.inside.wait(60)   #2. B is inside its first evaluation
    gate_a.open.set(); thread_a.join(60)              #3. A runs to its end
    seed_after_a = CobaContext.store.get('experiment_seed','<removed>')
    gate_b.open.set(); thread_b.join(60)              #4. B runs to its end

    assert not thread_a.is_alive() and not thread_b.is_alive()

    together = results['B']
    if isinstance(together,BaseException): raise together

    failed = False

    print(f"'experiment_seed' seen by B's remaining evaluations once A had finished: {seed_after_a!r} (B was started with seed=1)")

    for key in sorted(solo_1):
        same = solo_1[key] == together.get(key)
        print(f"experiment B, triple {key}: rows {'are the same as' if same else 'DIFFER from'} the rows of B run alone")
        if not same:
            failed = True
            for a,b in zip(solo_1[key],together.get(key,[])):
                if a != b:
                    print(f"    first difference (index, action, reward, n_predicts): alone {a}   together {b}")
                    break

    if 'experiment_seed' in CobaContext.store:
        failed = True
        print(f"after both runs CobaContext.store still holds experiment_seed={CobaContext.store['experiment_seed']!r} (it was not there before)")

    if CobaContext.logger is not logger_before:
        failed = True
        print(f"after both runs CobaContext.logger is {type(CobaContext.logger).__name__} and no longer the caller's {type(logger_before).__name__}")

    if failed:
        print("VIOLATION: the rows of an experiment depend on another experiment that happens to run in the same process")
        return 1

    print("ok: experiment B gave the rows it gives on its own")
    return 0

if __name__ == '__main__':
    sys.exit(main())
