"""
ProcessTasks makes the per-evaluation copy of a learner (deepcopy) BEFORE it seeds coba.random for
that evaluation (and, on several processes, the learner is rebuilt by pickle before ProcessTasks
even starts).  A learner that is rebuilt through its constructor when it is copied - which is what
coba's own error message tells users to do when a learner can't be pickled:

    "The easiest way to make a given class picklable is to add
     `def __reduce__(self): return (<the class in question>, (<tuple of constructor arguments>))`"

- and that initialises itself with the module level functions of coba.random therefore starts every
evaluation with a *different* "pristine" state: the k-th copy made in a process draws what the k-1
copies before it left over in the caller's generator.  The rows of (environment, learner) then depend
on which other triples the experiment contains and on their order, and not on run(seed=...).

The script evaluates the same learner on the same environment
    (a) in an experiment with the triples  [(env1,L),(env2,L)]
    (b) in an experiment with the triples  [(env0,L),(env1,L),(env2,L)]
(all objects are made anew and the module generator is seeded the same way before each experiment is
built, so the only difference is the extra triple) and compares the rows of (env1,L).
"""
import sys

import coba.random
from coba import Environments, Experiment, CobaContext
from coba.context import NullLogger
from coba.evaluators import SequentialCB

class RandomInitLearner:
    """Greedy learner with randomly initialised action values (drawn the coba way) and a member that can't be pickled."""

    def __init__(self, n_actions:int = 4, lr: float = .1):
        self._n_actions = n_actions
        self._lr        = lr
        self._values    = coba.random.randoms(n_actions)   #random (optimistic) initial values
        self._decay     = lambda v: (1-self._lr)*v         #not picklable -> the class needs __reduce__

    def __reduce__(self):
        #exactly what coba's pickle error message recommends
        return (RandomInitLearner, (self._n_actions, self._lr))

    @property
    def params(self): return {'family':'RandomInit', 'lr': self._lr}

    def predict(self, context, actions):
        return actions[max(range(len(actions)), key=self._values.__getitem__)]

    def learn(self, context, action, reward, probability):
        i = list(action).index(1) #the actions of the environments below are one-hot encoded
        self._values[i] = self._decay(self._values[i]) + self._lr*reward

def make(env_seeds):
    coba.random.seed(11) #the user makes the script reproducible the way coba documents it
    lrn  = RandomInitLearner()
    envs = [ Environments.from_linear_synthetic(40, n_actions=4, n_context_features=2, n_action_features=0, seed=s)[0] for s in env_seeds ]
    return envs,lrn

def rows_of(result, env_id):
    return [ (r['index'],r['action'],r['reward']) for r in result.interactions.to_dicts() if r['environment_id']==env_id ]

def main():
    CobaContext.logger = NullLogger()
    kw = dict(processes=2) if 'mp' in sys.argv[1:] else {}

    envs,lrn = make([1,2])
    small    = Experiment([(e,lrn,SequentialCB(record=['reward','action'])) for e in envs]).run(quiet=True,seed=1,**kw)
    rows_a   = rows_of(small, 0) #env with seed 1 is environment 0 here

    envs,lrn = make([0,1,2])
    large    = Experiment([(e,lrn,SequentialCB(record=['reward','action'])) for e in envs]).run(quiet=True,seed=1,**kw)
    rows_b   = rows_of(large, 1) #env with seed 1 is environment 1 here

    assert len(rows_a) == 40 and len(rows_b) == 40, (len(rows_a),len(rows_b))

    if rows_a != rows_b:
        n_diff = sum(a!=b for a,b in zip(rows_a,rows_b))
        first  = next((a,b) for a,b in zip(rows_a,rows_b) if a!=b)
        print(f"VIOLATION: the rows of (env seed=1, learner) differ in {n_diff} of 40 interactions depending on whether another triple is evaluated before it")
        print(f"    first difference (index, action, reward):  without the extra triple {first[0]}   with the extra triple {first[1]}")
        return 1

    print("ok: the rows of (env seed=1, learner) do not depend on the other triples")
    return 0

if __name__ == '__main__':
    sys.exit(main())
