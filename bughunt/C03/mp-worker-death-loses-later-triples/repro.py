"""
C03 -- worker processes: when the process evaluating one triple dies (OOM killer, segfault in a native library, os._exit)
the triples that come after it are never evaluated, nothing is written to the coba log and the run still ends with
"Experiment Finished".

processes=1,maxchunksperchild=1 is the configuration coba offers to contain leaky/unstable learners: every chunk gets a fresh
process. Five triples share one environment; the learner of the 2nd one gets its process killed (SIGKILL, what the OOM killer sends)
during predict.

Expected: the death is reported in the log, only triple (0,1,1) loses its rows, triples 0,2,3,4 are recorded.
Observed: only triple 0 is recorded. The dead worker is never replaced although undelivered chunks are waiting.
(With processes=2 the surviving worker keeps going, so 'only' the killed triple is lost there, but the log is equally silent.
 If the process is killed while its queue feeder thread is delivering an earlier result it dies holding the queue's write lock
 and the whole run hangs forever -- observed with processes=2 when the learner is killed without the sleep below; not asserted here.)
"""
import os, sys, time, signal, warnings
warnings.filterwarnings("ignore")

from coba.context import CobaContext, BasicLogger
from coba.pipes import ListSink
from coba.primitives import Learner
from coba.experiments import Experiment
from coba.evaluators import SequentialCB

class Fixed(Learner):
    def __init__(self, dies=False): self.dies = dies
    @property
    def params(self): return {'family':'fixed','dies':self.dies}
    def predict(self, context, actions):
        if self.dies:
            time.sleep(1) #let the queue's feeder thread deliver what is already done (killed while it holds the queue's lock everything hangs)
            os.kill(os.getpid(), signal.SIGKILL)
        return actions[0]
    def learn(self, context, action, reward, probability): pass

class Env:
    params = {'env_type':'e'}
    def read(self):
        for i in range(5):
            yield {'context':(i,), 'actions':[0,1], 'rewards':[0.,1.]}

def run(**kw):
    log = []
    CobaContext.logger = BasicLogger(ListSink(log))
    env = Env()
    triples = [(env, Fixed(i==1), SequentialCB()) for i in range(5)]
    result  = Experiment(triples).run(quiet=False, **kw)
    done    = sorted(set((r['environment_id'],r['learner_id'],r['evaluator_id']) for r in result.interactions.to_dicts()))
    return done, log

def watchdog():
    print("\nVIOLATION: the run hangs (the killed worker died holding the result queue's lock)", flush=True)
    os._exit(2)

if __name__ == '__main__':
    import threading
    timer = threading.Timer(100, watchdog); timer.daemon = True; timer.start()
    expected = [(0,i,i) for i in (0,2,3,4)]
    problems = []

    for kw in [dict(processes=1, maxchunksperchild=1), dict(processes=2, maxchunksperchild=0)]:
        done,log = run(**kw)
        finished = any('Experiment Finished' in l for l in log)
        reported = [l for l in log if 'exit code' in l or 'died' in l.lower() or 'Failed' in l or 'xception' in l]
        print(f"{kw}: recorded={done} 'Experiment Finished'={finished} lines about the death in the coba log={len(reported)}")
        missing = [t for t in expected if t not in done]
        if missing:  problems.append(f"{kw}: the death of the process of triple (0,1,1) also removed {missing} (they were never evaluated); finished={finished}")
        if not reported: problems.append(f"{kw}: the death of the process of triple (0,1,1) is not reported in the log (only printed to stdout)")

    if problems:
        print("\nVIOLATION:")
        for p in problems: print("  -",p)
        sys.exit(1)
    print("ok")
