import sys, threading
from coba.experiments import Experiment
from coba.environments import Environments, LambdaSimulation
from coba.learners import RandomLearner
from coba.context import CobaContext, NullLogger, BasicLogger
from coba.pipes import ListSink

class BadRowEval:
    def __init__(self, bad): self.bad = bad
    @property
    def params(self): return {'bad': self.bad}
    def evaluate(self, env, lrn):
        n = len(list(env.read()))
        if self.bad: return [{'n': n, 'f': (x for x in [1])}]
        return [{'n': n}]

def sim(n):
    return LambdaSimulation(n, lambda i: i, lambda i,c: [0,1], lambda i,c,a: float(a))

if __name__ == '__main__':
    mp = int(sys.argv[1])
    sink = ListSink()
    CobaContext.logger = BasicLogger(sink)
    envs = [sim(3), sim(4), sim(5)]
    triples = [(envs[0], RandomLearner(), BadRowEval(True)), (envs[1], RandomLearner(), BadRowEval(False)), (envs[2], RandomLearner(), BadRowEval(False))]
    res = Experiment(triples).run(processes=mp, maxchunksperchild=int(sys.argv[2]), quiet=True)
    print(sorted(set(zip(*res.interactions[['environment_id','learner_id','evaluator_id']]))) if len(res.interactions) else [])
    print([str(m)[:200] for m in sink.items])
