#Clean tree: a learner that is listed on its own AND is the base learner of a CorralLearner has count 1 in MakeTasks,
#so on a single process it is trained in place by the first triple and the corral triple starts from the trained base.
#usage: python shared_base_learner.py <processes>
import sys
from coba.context import CobaContext, NullLogger
from coba.environments import LambdaSimulation
from coba.evaluators import SequentialCB
from coba.experiments import Experiment
from coba.learners import BanditEpsilonLearner, CorralLearner

def ctx(i):     return [i%3]
def acts(i,c):  return [0,1,2]
def rwd(i,c,a): return float(a == 1)

def rows(res,lid):
    I = res.interactions
    return [r[1:] for r in zip(I['learner_id'],I['index'],I['action'],I['reward']) if r[0]==lid]

if __name__ == '__main__':
    CobaContext.logger = NullLogger()
    mp = int(sys.argv[1]) if len(sys.argv)>1 else 1
    def run(with_base):
        env  = LambdaSimulation(40,ctx,acts,rwd)
        base = BanditEpsilonLearner(.1)
        lrns = ([base] if with_base else []) + [CorralLearner([base],mode='off-policy')]
        return rows(Experiment([env],lrns,SequentialCB(record=['action','reward'])).run(processes=mp,quiet=True), len(lrns)-1)
    a,b = run(False),run(True)
    print("corral rows same with/without the base learner also listed:", a==b, len(a), len(b))
    sys.exit(0 if a==b else 1)
