"""
C03 -- the module level generator behind coba.random.choicew/choice/random/... is one global stream that is shared by all
evaluations of a process and is never (re)seeded by the experiment, although SafeLearner's deprecation warning tells learner
authors to draw their action with exactly that function ("Please use coba.random.choicew(actions,pmf) to return an action
instead.") and Experiment.run documents `seed` as "The seed that will determine all randomness within the experiment".

  * single process: the rows of (env, B) depend on how many random numbers the triples evaluated before it consumed, i.e. on
    which other triples the experiment contains and on their order.
  * worker processes: every spawned worker re-imports coba.random and gets a time seeded generator, so the rows of the very
    same triple are not even the same in two identical runs (coba.random.seed(..) in the main script has no effect there).
"""
import sys, warnings
warnings.filterwarnings("ignore")

import coba.random
from coba.context import CobaContext, NullLogger
from coba.primitives import Learner
from coba.environments import Environments
from coba.experiments import Experiment

class Uniform(Learner):
    """draws its action the way the SafeLearner warning recommends"""
    def __init__(self,name): self.name = name
    @property
    def params(self): return {'family':self.name}
    def predict(self, context, actions):
        return coba.random.choicew(actions,[1/len(actions)]*len(actions))
    def learn(self, context, action, reward, probability): pass

def rows(learners, **kw):
    CobaContext.logger = NullLogger()
    coba.random.seed(7) #the user does everything that can be done to make the run repeatable
    envs   = Environments.from_linear_synthetic(20, n_actions=3, n_context_features=2, n_action_features=0, seed=3)
    result = Experiment(envs,learners).run(quiet=True,seed=1,**kw)
    lid    = len(learners)-1
    return [r['action'] for r in result.interactions.to_dicts() if r['learner_id']==lid]

if __name__ == '__main__':
    problems = []

    alone, again, after = rows([Uniform('b')]), rows([Uniform('b')]), rows([Uniform('a'),Uniform('b')])
    print(f"single process : (env,b) alone twice identical: {alone==again}; alone == listed after (env,a): {alone==after}")
    if alone != after: problems.append("single process: the rows of (env,b) change when (env,a) is added in front of it")

    alone, again = rows([Uniform('b')],processes=2), rows([Uniform('b')],processes=2)
    print(f"two processes  : (env,b) alone twice identical: {alone==again}")
    if alone != again: problems.append("processes=2: two identical runs (same seeds everywhere) give different rows for the same triple")

    if problems:
        print("\nVIOLATION:")
        for p in problems: print("  -",p)
        sys.exit(1)
    print("ok")
