"""
C03: "An exception raised while evaluating one triple is reported in the log".

When Experiment.run(processes>1) is called while the (default) IndentLogger is inside one of its own
`time` contexts -- e.g. the user wrote

    with CobaContext.logger.time("my benchmark"):
        result = experiment.run(processes=2)

(or the run is started by a component that is itself evaluated inside ProcessTasks' "Evaluating Learner ..."
context) -- nothing that the worker processes log ever reaches the log. In particular the exception of a
failing triple is never reported: the triple's rows are silently missing.

The same experiment on one process (or without the surrounding context) reports the exception.
"""
import sys

from coba import Environments, Experiment, CobaContext
from coba.context import IndentLogger
from coba.pipes import ListSink

class Good:
    @property
    def params(self): return {'family':'Good'}
    def predict(self, context, actions): return actions[0], 1
    def learn(self, context, action, reward, probability): pass

class FailsAtFive:
    def __init__(self): self.n = 0
    @property
    def params(self): return {'family':'FailsAtFive'}
    def predict(self, context, actions):
        self.n += 1
        if self.n == 5: raise ValueError("the learner fails in its 5th predict")
        return actions[0], 1
    def learn(self, context, action, reward, probability): pass

def run(processes, wrap):
    sink = ListSink()
    CobaContext.logger = IndentLogger(sink) #the default kind of logger, writing to a list so that we can look at it

    envs = Environments.from_linear_synthetic(20, n_actions=2, n_context_features=1, n_action_features=0, seed=1).shuffle(n=2)
    exp  = Experiment(envs, [Good(), FailsAtFive()])

    if wrap:
        with CobaContext.logger.time("my benchmark"):
            result = exp.run(processes=processes)
    else:
        result = exp.run(processes=processes)

    have_rows = sorted(set(zip(*result.interactions[['environment_id','learner_id']])))
    reports   = [m for m in sink.items if "the learner fails in its 5th predict" in str(m)]
    return have_rows, reports, sink.items

if __name__ == '__main__':
    bad = False
    for processes, wrap in [(1,False),(2,False),(1,True),(2,True)]:
        have_rows, reports, log = run(processes, wrap)
        missing = [(e,1) for e in (0,1) if (e,1) not in have_rows]
        print(f"processes={processes} inside logger.time={wrap}: triples with rows {have_rows}; "
              f"triples without rows {missing}; exception reports in the log: {len(reports)}; log lines: {len(log)}")
        if missing and len(reports) < len(missing):
            bad = True
            print("  VIOLATION: the rows of", missing, "are missing and the log does not say why. The whole log is:")
            for line in log: print("    |", str(line).replace("\n","\n    | "))

    sys.exit(1 if bad else 0)
