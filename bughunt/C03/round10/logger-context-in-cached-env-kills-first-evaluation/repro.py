"""
C03: rows of a triple must not depend on the other tasks of the experiment, and only a triple whose
own evaluation raises may lose its rows.

An environment that times its (lazy) reading with coba's own logger,

    def read(self):
        with CobaContext.logger.time("loading ..."):
            for ...: yield interaction

works fine on its own. Behind `.cache()` (or `.chunk()`, which adds a cache) the FIRST evaluation on
that environment dies with "IndexError: list assignment index out of range" raised inside
IndentLogger._time_context, although neither the environment nor the learner did anything wrong. The rows
of that triple are lost (and the cache is thrown away); every later triple on the environment is fine.
Which triple is hit only depends on the order of the tasks, not on the triple.

Cause: ProcessTasks first peeks at the environment inside its own "Peeking at Environment" time context.
The cache keeps the half read source generator - and so the source's still open time context - alive after
the peek. When the peek's context (place 0 of IndentLogger's buffer) ends the whole buffer is flushed,
including the 'Placeholder' of the source's open context. When the first evaluation reads the source to
its end the source's context exits and writes to its old place in a buffer that no longer has that place.
"""
import sys

from coba import Environments, Experiment, CobaContext
from coba.context import IndentLogger
from coba.pipes import ListSink
from coba.primitives import Environment

class TimedEnv(Environment):
    """An environment that reports how long reading it took in coba's log."""

    @property
    def params(self): return {'env_type':'TimedEnv'}

    def read(self):
        with CobaContext.logger.time("loading TimedEnv"):
            for i in range(60): #more than the 25 interactions the cache takes at once
                yield {'context':[i%3,1], 'actions':[0,1], 'rewards':[i%2,1-i%2]}

class Good:
    def __init__(self,name): self._name = name
    @property
    def params(self): return {'family':'Good', 'name':self._name}
    def predict(self, context, actions): return actions[0], 1
    def learn(self, context, action, reward, probability): pass

def run(cached):
    sink = ListSink()
    CobaContext.logger = IndentLogger(sink) #coba's default kind of logger

    envs = Environments(TimedEnv())
    if cached: envs = envs.cache()

    result   = Experiment(envs, [Good('a'),Good('b')]).run()
    n_rows   = { l: sum(1 for r in result.interactions if r[1]==l) for l in (0,1) }
    problems = [ str(m) for m in sink.items if 'xception' in str(m) and 'IndexError' in str(m) ]
    return n_rows, problems, sink.items

if __name__ == '__main__':

    bad = False
    for cached in [False,True]:
        n_rows, problems, log = run(cached)
        print(f"environment {'with' if cached else 'without'} .cache(): rows per learner {n_rows}; IndexErrors in the log: {len(problems)}")
        if any(n != 60 for n in n_rows.values()):
            bad = True
            print("  VIOLATION: a triple lost its rows although neither its learner nor its environment fails. The log:")
            for m in log:
                lines = str(m).split('\n')
                keep  = lines if len(lines) < 8 else lines[:3]+['    ...']+lines[-6:]
                for l in keep: print("    |",l)

    sys.exit(1 if bad else 0)
