"""
C03: the 'pristine copy' of a learner is not a copy. deepcopy / pickle of a CobaRandom gives back a generator that is
rewound to its seed (CobaRandom.__reduce__ only keeps the seed).

A freshly built learner that used its CobaRandom in __init__ (random initial weights) therefore behaves differently
 * when it is listed for one environment  (evaluated as is: the generator continues after the initial draws)
 * when it is ALSO listed for a second environment (evaluated through deepcopy: the generator starts over)
 * when the experiment runs on several processes (evaluated through pickle: the generator starts over)
so the rows of (env 0, learner) depend on whether (env 1, learner) is in the experiment and on the execution
configuration - in the very first run of brand new objects.

exit 1 when the violation shows, 0 otherwise.
"""
import sys, copy, warnings
warnings.filterwarnings("ignore")

from coba.random       import CobaRandom
from coba.environments import Environments
from coba.experiments  import Experiment
from coba.context      import CobaContext
from coba.pipes        import ListSink

class RandomInitLearner:
    """explores with probability .3; every random number comes from one seeded CobaRandom"""
    def __init__(self, n_feats=3, seed=7):
        self._rng = CobaRandom(seed)
        self._w   = self._rng.randoms(n_feats,-1,1) #random initial weights
    @property
    def params(self): return {'family':'random_init','seed':7}
    def predict(self, context, actions):
        if self._rng.random() < .3: return self._rng.choice(actions)
        scores = [ sum(w*x for w,x in zip(self._w,context))*(i+1) for i in range(len(actions)) ]
        return actions[scores.index(max(scores))]
    def learn(self, context, action, reward, prob): pass

def rows_on_env0(n_envs, **kw):
    envs = Environments.from_linear_synthetic(30, n_actions=3, n_context_features=3, n_action_features=0, seed=list(range(1,n_envs+1)))
    CobaContext.logger.sink = ListSink()
    result = Experiment(envs,[RandomInitLearner()]).run(quiet=True, **kw)
    if CobaContext.logger.sink.items: print("unexpected log entries:", CobaContext.logger.sink.items)
    return [r['action'].index(1) for r in result.interactions.to_dicts() if r['environment_id']==0]

if __name__ == '__main__':
    rng = CobaRandom(7); rng.randoms(3)
    dup = copy.deepcopy(rng)
    print("next number of a generator that was used 3 times:", round(rng.random(),5), "| next number of its deepcopy:", round(dup.random(),5), "| first number of CobaRandom(7):", round(CobaRandom(7).random(),5))

    only_env0      = rows_on_env0(1)
    env0_and_env1  = rows_on_env0(2)
    only_env0_2proc= rows_on_env0(1, processes=2)

    print("(env0,L) when L is listed for env0 only            :", "".join(map(str,only_env0)))
    print("(env0,L) when L is listed for env0 and env1        :", "".join(map(str,env0_and_env1)))
    print("(env0,L) when L is listed for env0 only, 2 processes:", "".join(map(str,only_env0_2proc)))

    failed = False
    if not (len(only_env0)==len(env0_and_env1)==len(only_env0_2proc)==30):
        print("unexpected number of rows"); failed = True
    if only_env0 != env0_and_env1:
        print("VIOLATION: the rows of (env0, L) depend on whether (env1, L) is part of the experiment")
        failed = True
    if only_env0 != only_env0_2proc:
        print("VIOLATION: the rows of (env0, L) depend on the number of processes")
        failed = True

    sys.exit(1 if failed else 0)
