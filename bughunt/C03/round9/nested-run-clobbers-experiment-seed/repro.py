"""
C03: Experiment.run is not re-entrant. One environment that (lazily, in read) runs an experiment of its own - here to
produce logged data with Environments.from_result - removes CobaContext.store['experiment_seed'] of the OUTER experiment.

Consequences for the other triples of the outer experiment (which have nothing to do with that environment):
  1. every evaluation after the first read of that environment is seeded with None, i.e. by the clock: the rows of
     (sim, PmfLearner) differ from the ones obtained when sim is evaluated alone and differ from run to run;
  2. when everything has been evaluated run() raises KeyError('experiment_seed') instead of returning the Result
     (without a result_file every row of every triple is lost).

exit 1 when the violation shows, 0 otherwise.
"""
import sys, os, tempfile, warnings
warnings.filterwarnings("ignore")

from coba.environments import Environments, LambdaSimulation
from coba.experiments  import Experiment
from coba.evaluators   import SequentialCB
from coba.learners     import RandomLearner
from coba.results      import Result
from coba.context      import CobaContext
from coba.pipes        import ListSink

def ctx (i)    : return [i%5, 1]
def acts(i,c)  : return ['a','b','c']
def rwd (i,c,a): return float(a == 'abc'[i%3])

class LoggedByExperiment:
    """logged data made on demand from the result of an (inner) experiment"""
    @property
    def params(self): return {'env_type':'LoggedByExperiment'}
    def read(self):
        sim = LambdaSimulation(20, ctx, acts, rwd)
        val = SequentialCB(record=['context','actions','rewards','action','reward','probability'])
        res = Experiment([sim],[RandomLearner(3)],val).run(quiet=True,seed=3)
        yield from Environments.from_result(res)[0].read()

class PmfLearner:
    """returns a pmf; the action is drawn by coba with the experiment's seed"""
    @property
    def params(self): return {'family':'pmf'}
    def predict(self, context, actions): return [1/len(actions)]*len(actions)
    def learn(self, context, action, reward, prob): pass

def run(make_envs, sim_id):
    path = os.path.join(tempfile.mkdtemp(), "result.log")
    CobaContext.logger.sink = ListSink()
    raised = None
    try:
        Experiment(make_envs(),[PmfLearner()]).run(path, quiet=True, seed=1)
    except Exception as e:
        raised = e
    logs = [str(l) for l in CobaContext.logger.sink.items if 'WARNING' not in str(l)]
    if logs: print("log:", [l.strip().split("\n")[-1][:150] for l in logs])
    result = Result.from_file(path)
    n_rows = len(result.interactions)
    return raised, n_rows, [r['action'] for r in result.interactions.to_dicts() if r['environment_id']==sim_id]

if __name__ == '__main__':
    sim = lambda: LambdaSimulation(40, ctx, acts, rwd)

    raised0, n0, alone   = run(lambda: [sim()]                      , 0)
    raised1, n1, nested1 = run(lambda: [LoggedByExperiment(), sim()], 1)
    raised2, n2, nested2 = run(lambda: [LoggedByExperiment(), sim()], 1)

    print("sim alone                       :", "".join(alone))
    print("sim listed after the nested env :", "".join(nested1))
    print("same experiment, run again      :", "".join(nested2))
    print("run() raised:", repr(raised0), "|", repr(raised1), "|", repr(raised2))

    failed = False
    if raised0 is not None or len(alone) != 40:
        print("unexpected: the baseline failed"); failed = True
    if raised1 is not None:
        print(f"VIOLATION: run() raised {raised1!r} after all {n1} rows had been produced (no Result is returned)")
        failed = True
    if nested1 != alone:
        print("VIOLATION: the rows of (sim, PmfLearner) are not the ones obtained by evaluating that triple alone")
        failed = True
    if nested1 != nested2:
        print("VIOLATION: the rows of (sim, PmfLearner) differ between two identical runs with seed=1 (clock seeded)")
        failed = True

    sys.exit(1 if failed else 0)
