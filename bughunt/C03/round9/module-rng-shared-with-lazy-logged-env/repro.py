"""
C03: the rows of (env, learner B) depend on whether learner A is in the experiment, and on what the process did before.

env = simulation.logged(LogPolicy()).chunk()     # the pattern Chunk's docstring recommends for `logged`

LogPolicy, and the evaluated learner `Explorer`, draw with the module level functions of coba.random (which is what
SafeLearner's PMF deprecation warning tells users to do: "use coba.random.choicew(actions,pmf)").

The logged data is produced lazily by Logged.filter (an inner SequentialCB evaluation of LogPolicy) and kept by the
cache behind the chunk:
  * the first 25 interactions are produced when the environment is peeked at (T1 task) - the module generator is
    not seeded there, so they depend on whatever the process did before (in a new worker process: on the clock);
  * the rest is produced while the FIRST learner listed for the environment is evaluated, between that learner's
    own draws from the very same generator, and is then served from the cache to every other learner.

`First` is deterministic and evaluated off-policy (learn='off', eval='ips') so its rows show the logged data directly.

exit 1 when the violation shows, 0 otherwise.
"""
import sys, warnings
warnings.filterwarnings("ignore")

import coba.random
from coba.environments import Environments, LambdaSimulation
from coba.experiments  import Experiment
from coba.evaluators   import SequentialCB
from coba.context      import CobaContext
from coba.pipes        import ListSink

def ctx (i)    : return [i%5, 1]
def acts(i,c)  : return ['a','b','c']
def rwd (i,c,a): return float(a == 'abc'[i%3])

class LogPolicy:
    """a uniform logging policy"""
    @property
    def params(self): return {'family':'logpolicy'}
    def predict(self, context, actions): return coba.random.choicew(actions)
    def learn(self, context, action, reward, prob): pass

class Explorer:
    """an evaluated learner that explores uniformly"""
    @property
    def params(self): return {'family':'explorer'}
    def predict(self, context, actions): return coba.random.choicew(actions)
    def learn(self, context, action, reward, prob): pass

class First:
    """a deterministic learner"""
    @property
    def params(self): return {'family':'first'}
    def predict(self, context, actions): return actions[0], 1.0
    def learn(self, context, action, reward, prob): pass

def rows_of_First(learners, before):
    #`before` stands for whatever ran earlier in this process (another experiment, another environment, ...)
    coba.random.seed(before)
    env = Environments(LambdaSimulation(60, ctx, acts, rwd)).logged(LogPolicy()).chunk()
    CobaContext.logger.sink = ListSink()
    result = Experiment(env, learners, SequentialCB(learn='off',eval='ips')).run(quiet=True, seed=1)
    errors = [l for l in CobaContext.logger.sink.items if 'WARNING' not in str(l)]
    if errors: print("unexpected log entries:", errors)
    lid = len(learners)-1
    return [r['reward'] for r in result.interactions.to_dicts() if r['learner_id']==lid]

if __name__ == '__main__':
    alone         = rows_of_First([First()]            , before=5)
    with_explorer = rows_of_First([Explorer(), First()], before=5)
    alone_later   = rows_of_First([First()]            , before=6)

    print("First alone                         :", alone)
    print("First listed after Explorer         :", with_explorer)
    print("First alone, other history in process:", alone_later)

    failed = False

    if len(alone) != 60 or len(with_explorer) != 60 or len(alone_later) != 60:
        print("unexpected number of rows"); failed = True

    if alone != with_explorer:
        first_diff = next(i for i,(a,b) in enumerate(zip(alone,with_explorer)) if a!=b)
        print(f"VIOLATION: the rows of (env, First) change when Explorer is added to the experiment (first difference at row {first_diff}; the cache slice is 25)")
        failed = True

    if alone != alone_later:
        first_diff = next(i for i,(a,b) in enumerate(zip(alone,alone_later)) if a!=b)
        print(f"VIOLATION: the rows of (env, First) depend on the state of coba.random before the run even though run(seed=1) (first difference at row {first_diff})")
        failed = True

    sys.exit(1 if failed else 0)
