"""
C03: with more than one process, a triple whose task cannot be turned into bytes takes every later triple with it.

Two scenarios, same root cause (the thread that pickles the chunks for the workers dies on the first chunk it can't pickle):

 A. an environment (LambdaSimulation) whose user function raises for one index. On one process this is an ordinary
    "read raised" failure: it is logged and only that environment's triples are lost. On two processes the function
    is called while the task is pickled (LambdaSimulation.__reduce__ reads the environment) and the experiment ends
    with 'Experiment Failed': the environments listed after it are never evaluated.

 B. Environments.dense(...,'lookup') (a built in filter that can't be pickled). Every environment listed after it is lost.

exit 1 when the violation shows, 0 otherwise.
"""
import sys, warnings
warnings.filterwarnings("ignore")

from collections import Counter

from coba.environments import Environments, LambdaSimulation
from coba.learners     import BanditEpsilonLearner, RandomLearner
from coba.experiments  import Experiment
from coba.context      import CobaContext
from coba.pipes        import ListSink

def ctx (i)    : return [i, 1]
def acts(i,c)  : return [0,1,2]
def rwd (i,c,a): return float(a == i%3)

def bad_ctx(i):
    if i == 7: raise ZeroDivisionError("bug in the user's context function at i=7")
    return [i,1]

def run(envs, processes):
    CobaContext.logger.sink = ListSink()
    result = Experiment(envs,[BanditEpsilonLearner(), RandomLearner()]).run(processes=processes, quiet=True)
    logs   = [str(l).strip().split("\n")[-1][:160] for l in CobaContext.logger.sink.items]
    counts = Counter(zip(result.interactions['environment_id'], result.interactions['learner_id']))
    return dict(sorted(counts.items())), logs

def scenario_A():
    return [LambdaSimulation(20, ctx, acts, rwd), LambdaSimulation(20, bad_ctx, acts, rwd), LambdaSimulation(20, ctx, acts, rwd)]

def scenario_B():
    base = Environments.from_linear_synthetic(20, n_actions=3, n_context_features=3, n_action_features=0, seed=[1])
    return base + base.sparse().dense(10,'lookup') + base.shuffle(n=2)

if __name__ == '__main__':
    failed = False

    for name, make, bad_envs in [("A (environment whose read raises)", scenario_A, {1}), ("B (Environments.dense, lookup)", scenario_B, {1})]:
        n_envs = len(list(make()))
        expected = {(e,l) for e in range(n_envs) for l in range(2) if e not in bad_envs}

        one, logs1 = run(make(), 1)
        two, logs2 = run(make(), 2)

        print(f"--- scenario {name}")
        print(f"processes=1: rows per (env,lrn) = {one}")
        print(f"processes=2: rows per (env,lrn) = {two}")
        print(f"processes=2 log tail: {logs2[-2:]}")

        if name.startswith("A"):
            missing1 = expected - one.keys()
            if missing1: print(f"(unexpected) single process lost {sorted(missing1)}")

        missing2 = expected - two.keys()
        if missing2:
            print(f"VIOLATION: with 2 processes the healthy triples {sorted(missing2)} were never evaluated/recorded")
            failed = True

    sys.exit(1 if failed else 0)
