"""
C03 -- a missing optional package that is only noticed in the middle of ONE evaluation aborts the whole experiment.

coba reports missing optional packages with coba_exit -> CobaExit, which derives from BaseException. Several checks
only happen lazily, inside an evaluation: SequentialCB(learn/eval='dr'|'dm') and RejectionCB(ope='dr'|'dm') build
OpeRewards (-> PackageChecker.vowpalwabbit) when the first interaction is evaluated, not when they are constructed
(only record=['ope_loss'] is checked in __init__); user learners following coba's own pattern
(PackageChecker.xyz(...) right before the lazy import) do the same. ProcessTasks only catches Exception, so the
CobaExit of that one triple flies through ProcessTasks and Experiment.run:

  * no Result is returned: in a run without result_file the rows of every triple that was already evaluated are gone
  * the remaining triples are never evaluated
  * CobaContext.logger stays decorated and CobaContext.store['experiment_seed'] stays set
  * (with worker processes: the worker dies with exit code 1, is not replaced, and with processes=1,maxchunksperchild>=1
     the run reports 'Experiment Finished' with all later triples missing -- see the second part)

Expected: the triple that needs the package is reported in the log and loses its rows, the two other triples are recorded.
"""
import sys, importlib.util, warnings
warnings.filterwarnings("ignore")

from coba.context import CobaContext, BasicLogger
from coba.pipes import ListSink
from coba.primitives import Learner
from coba.experiments import Experiment
from coba.evaluators import SequentialCB
from coba.utilities import PackageChecker

class Fixed(Learner):
    def __init__(self, needs=None): self.needs = needs
    @property
    def params(self): return {'family':'fixed','needs':self.needs}
    def predict(self, context, actions):
        if self.needs:
            PackageChecker._check("FixedLearner", self.needs) #the pattern coba uses itself before a lazy import
        return actions[0]
    def learn(self, context, action, reward, probability): pass

class LoggedEnv:
    params = {'env_type':'logged'}
    def read(self):
        for i in range(5):
            yield {'context':(i,), 'actions':[0,1], 'action':i%2, 'reward':float(i%2), 'probability':0.5, 'rewards':[0.,1.]}

def run(triples, **kw):
    log = []
    base_logger = BasicLogger(ListSink(log))
    CobaContext.logger = base_logger
    escaped, done = None, None
    try:
        result = Experiment(triples).run(quiet=False, **kw)
        done   = sorted(set((r['environment_id'],r['learner_id'],r['evaluator_id']) for r in result.interactions.to_dicts()))
    except BaseException as e:
        escaped = e
    leftovers = []
    if CobaContext.logger is not base_logger: leftovers.append("CobaContext.logger is still the experiment's decorated logger")
    if 'experiment_seed' in CobaContext.store: leftovers.append("CobaContext.store['experiment_seed'] is still set")
    CobaContext.store.pop('experiment_seed',None)
    return done, escaped, leftovers, log

if __name__ == '__main__':
    problems = []

    scenarios = []
    if importlib.util.find_spec("vowpalwabbit") is None:
        env = LoggedEnv()
        scenarios.append(("SequentialCB(eval='dr') without vowpalwabbit",
            [(env, Fixed(), SequentialCB()), (env, Fixed(), SequentialCB(eval='dr')), (env, Fixed(), SequentialCB())]))
    env = LoggedEnv()
    scenarios.append(("learner checks for a package in predict",
        [(env, Fixed(), SequentialCB()), (env, Fixed("a_package_that_is_not_installed"), SequentialCB()), (env, Fixed(), SequentialCB())]))

    for name,triples in scenarios:
        done, escaped, leftovers, log = run(triples, processes=1, maxchunksperchild=0)
        print(f"[single process] {name}: recorded={done} escaped={type(escaped).__name__ if escaped else None} leftovers={leftovers}")
        if escaped is not None:
            evaluated = [l for l in log if l.startswith('Evaluating') or 'Evaluating' in l and '(completed)' in l]
            problems.append(f"[single process] {name}: {type(escaped).__name__} ('{str(escaped)[:60]}...') left Experiment.run: no Result, "
                            f"triple (0,0,0) had been evaluated and is lost, triple (0,2,2) was never evaluated; {leftovers}")
        elif done != [(0,0,0),(0,2,2)]:
            problems.append(f"[single process] {name}: recorded {done}")

    name,triples = scenarios[-1]
    done, escaped, leftovers, log = run(triples, processes=1, maxchunksperchild=1)
    finished = any('Experiment Finished' in l for l in log)
    reported = [l for l in log if 'a_package_that_is_not_installed' in l]
    print(f"[worker processes] {name}: recorded={done} escaped={escaped} 'Experiment Finished'={finished} reported in log={len(reported)}")
    if done != [(0,0,0),(0,2,2)]:
        problems.append(f"[worker processes] {name}: recorded {done} instead of [(0,0,0),(0,2,2)], the run says finished={finished}, error lines in the coba log={len(reported)}")

    if problems:
        print("\nVIOLATION:")
        for p in problems: print("  -",p)
        sys.exit(1)
    print("ok")
