"""
C03 -- an environment with a cache (Environments.chunk() -- the recommended way to run many learners per environment on
several processes --, .cache() or .materialize()) hands the SAME context/actions containers to every evaluation.
A learner that edits its input in place (here: appends an intercept feature to the context, a common idiom; coba even has a
`Mutable` filter whose purpose is to hand learners containers they may edit) therefore changes what every learner evaluated
after it on that environment sees. The rows of (env, B) depend on whether (env, A) is part of the experiment and on the order.

Without the cache (every read regenerates the interactions) the rows of B are the same alone / after A.
"""
import sys, warnings
warnings.filterwarnings("ignore")

from coba.context import CobaContext, NullLogger
from coba.primitives import Learner
from coba.environments import Environments
from coba.environments.filters import Mutable
from coba.experiments import Experiment

class Intercept(Learner):
    """adds an intercept term to the features before using them"""
    @property
    def params(self): return {'family':'intercept'}
    def predict(self, context, actions):
        context.append(1.)
        return actions[int(abs(sum(context))*10) % len(actions)]
    def learn(self, context, action, reward, probability): pass

class Plain(Learner):
    @property
    def params(self): return {'family':'plain'}
    def predict(self, context, actions):
        return actions[int(abs(sum(context))*10) % len(actions)]
    def learn(self, context, action, reward, probability): pass

def rows_of_plain(make_envs, learners):
    CobaContext.logger = NullLogger()
    result = Experiment(make_envs(), learners).run(quiet=True)
    lid = [i for i,l in enumerate(learners) if isinstance(l,Plain)][0]
    return [(r['action'],r['reward']) for r in result.interactions.to_dicts() if r['learner_id']==lid]

if __name__ == '__main__':
    base = lambda: Environments.from_linear_synthetic(20, n_actions=3, n_context_features=2, n_action_features=0, seed=3)
    X = lambda: [[i/7,(i*3%5)/5] for i in range(20)] #in-memory features, e.g. the rows of a loaded data set
    Y = lambda: ['abc'[i%3] for i in range(20)]
    configs = {
        "no cache"              : lambda: base(),
        ".chunk()"              : lambda: base().chunk(),
        ".cache()"              : lambda: base().cache(),
        ".materialize()"        : lambda: base().materialize(),
        ".filter(Mutable()).chunk()": lambda: base().filter(Mutable()).chunk(),
        "from_supervised(X,Y) in memory, no cache": lambda: Environments.from_supervised(X(), Y()),
    }
    problems = []
    for name,make in configs.items():
        alone  = rows_of_plain(make, [Plain()])
        after  = rows_of_plain(make, [Intercept(),Plain()])
        before = rows_of_plain(make, [Plain(),Intercept()])
        n_diff = sum(a!=b for a,b in zip(alone,after))
        print(f"{name:40}: rows of Plain alone==before Intercept: {alone==before}; alone==after Intercept: {alone==after} ({n_diff}/{len(alone)} rows differ)")
        if alone != after or alone != before:
            problems.append(f"{name}: the rows of (env,Plain) depend on whether/where (env,Intercept) is in the experiment ({n_diff}/{len(alone)} rows differ)")

    if problems:
        print("\nVIOLATION:")
        for p in problems: print("  -",p)
        sys.exit(1)
    print("ok")
