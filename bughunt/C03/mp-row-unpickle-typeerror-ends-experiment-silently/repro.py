"""
C03 -- multiprocess run: one triple whose rows hold a value that pickles in the worker but raises TypeError when it is
rebuilt in the parent (the classic: an exception whose __init__ takes other arguments than it passes to Exception) ends
the WHOLE experiment silently: the parent stops reading results, every triple after it is never recorded, nothing is
logged and the run reports "Experiment Finished".

Five triples share one environment; the learner of the 2nd one keeps the last error it handled internally in
CobaContext.learning_info (for diagnostics).

  * single process: that triple's rows can't be json encoded -> the error is logged, the four other triples are recorded.
  * one worker process (processes=1,maxchunksperchild=100): only triple 1 is recorded, no error in the log, "Experiment Finished".
"""
import sys, warnings
warnings.filterwarnings("ignore")

from coba.context import CobaContext, BasicLogger
from coba.pipes import ListSink
from coba.primitives import Learner
from coba.experiments import Experiment
from coba.evaluators import SequentialCB

class ModelError(Exception):
    def __init__(self, step, reason):
        super().__init__(f"step {step}: {reason}")
        self.step,self.reason = step,reason

class Fixed(Learner):
    def __init__(self, bad=False): self.bad = bad
    @property
    def params(self): return {'family':'fixed','bad':self.bad}
    def predict(self, context, actions): return actions[0]
    def learn(self, context, action, reward, probability):
        if self.bad:
            try:
                raise ModelError(3,"singular matrix, skipped the update")
            except ModelError as e:
                CobaContext.learning_info['last_error'] = e

class Env:
    params = {'env_type':'e'}
    def read(self):
        for i in range(5):
            yield {'context':(i,), 'actions':[0,1], 'rewards':[0.,1.]}

def run(**kw):
    log = []
    CobaContext.logger = BasicLogger(ListSink(log))
    env = Env()
    triples = [(env, Fixed(i==1), SequentialCB()) for i in range(5)]
    result  = Experiment(triples).run(quiet=False, **kw)
    done    = sorted(set((r['environment_id'],r['learner_id'],r['evaluator_id']) for r in result.interactions.to_dicts()))
    errors  = [l for l in log if 'Error' in l or 'exception' in l.lower() or 'Failed' in l]
    return done, errors, log

if __name__ == '__main__':
    expected = [(0,i,i) for i in (0,2,3,4)]

    done,errors,_ = run(processes=1, maxchunksperchild=0)
    print(f"single process : recorded={done} errors in log={len(errors)}")
    assert done == expected and errors, "the single process reference run doesn't behave as described"

    done,errors,log = run(processes=1, maxchunksperchild=100)
    finished = any('Experiment Finished' in l for l in log)
    print(f"worker process : recorded={done} errors in log={len(errors)} 'Experiment Finished'={finished}")

    missing = [t for t in expected if t not in done]
    if missing:
        print(f"\nVIOLATION: the failure of triple (0,1,1) removed the rows of {missing} as well;"
              f" errors reported in the log: {errors}; the run claims it finished: {finished}")
        sys.exit(1)
    print("ok")
